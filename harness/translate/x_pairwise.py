# -*- coding: utf-8 -*-
"""Source translator for the PAIRWISE COLUMN SIGNIFICANCE formulas (property C13):

    <repo>/src/cr/cube/matrix/measure.py
        _PairwiseSigTstats (four blocks, _column_bases), _PairwiseSigPvals (blocks),
        _PairwiseMeansSigTStats (t_stats, blocks), _PairwiseMeansSigPVals (p_vals, _df, blocks)
          -- read THROUGH THE WIRING of SecondOrderMeasures.pairwise_t_stats(column_idx) etc.
             (plain methods with one integer parameter: the selected column)
        _PairwiseSignificaneBetweenSubvariablesHelper (t_stats, p_vals, _df)
          -- standalone, constructor arguments by POSITION
        _PairwiseSigTStatsForSubvar.t_stats / _PairwiseSigPValsForSubvar.p_vals
          -- the nested comprehension that constructs the helper, inlined
    <repo>/src/cr/cube/measures/pairwise_significance.py
        _ColumnPairwiseSignificance.t_stats     (legacy path)
    <repo>/src/cr/cube/cubepart.py
        _Slice._pairwise_indices                (alpha comparison, only_larger, own column)

into coq/Gen/PairwiseSrc.v as terms of `pexp` / `bmexp` (coq/Base/PairExp.v gives the meaning).
coq/Proofs/GenAgreePairwise*.v prove, for every translated member, that the term denotes the
definitions of coq/Model/Pairwise.v (and Model/PairwiseP.v) the theorems of C13 are about.

Same rules as measures.py (whose machinery -- wiring, inlining of lazyproperties / helper methods
/ local names, `with np.errstate` -- is reused by subclassing `measures._M`; that file is not
edited): WHITELIST, fail-closed.  Only the AST shapes listed here are read; anything else makes
THAT member `None` + `NOTE translator-unavailable`.  Never guesses, never repairs.

What is read in addition to measures.py's sub-language:
  * `if c: ... else: ...` / `if c: ...` followed by more statements, by PATH DUPLICATION (the
    statements after the `if` are read once per branch); conditions: `<int param> < 0`,
    `<int param> == <int param>`, `<x>.size == 0`, `<x>.size > 0`, `<measure>.is_defined`,
    `<self._slice attribute> is not None`, `not c`
  * tuples of values (`return (a, b)`, `(x, y) = self._m(..)`, `a, b, c = x, y, z`)
  * `a[:, [k]]` (k the integer parameter), `<blocks>[k]` with k a parameter bound to the literal
    0 / 1, `a[i, j]`, `<3-D cube array>[i, j, k]` by integer parameters / loop indices
  * np.abs / abs, np.power(a, <nat>), np.broadcast_to(a, b.shape), t.cdf(x, df=d)
  * `self._second_order_measures.<method>(k).blocks` (a leaf: the blocks of that measure)
  * np.array([[Helper(..).m for j in range(X.shape[1])] for i in range(X.shape[0])])
"""
import ast
import os

from harness.translate import measures as MS
from harness.translate import translate as T

VERSION = "x_pairwise.py/8"
GEN_FILES = ("PairwiseSrc.v",)

M_MATRIX = MS.M_MATRIX
M_SUBTOTALS = MS.M_SUBTOTALS
M_LEGACY = "cr/cube/measures/pairwise_significance.py"
M_CUBEMEASURE = T.MATRIX
M_CUBEPART = MS.M_CUBEPART

Unavailable = T.Unavailable
_un = T._un
q = T.q

HELPER = "_PairwiseSignificaneBetweenSubvariablesHelper"
# constructor arguments of the helper, by position: kind and canonical name
HELPER_ARGS = (
    ("arr2", "column_proportions"), ("arr3", "selected_bases"), ("arr3", "valid_bases"),
    ("ix", "row_idx"), ("ix", "idx_a"), ("ix", "idx_b"),
)


# ------------------------------------------------------------------------------------
# Coq printing
# ------------------------------------------------------------------------------------

def p_ixe(k):
    if k[0] == "IxParam":
        return "(IxParam %s)" % q(k[1])
    if k[0] == "IxLoop":
        return "(IxLoop %d)" % k[1]
    raise AssertionError(k)


def p_pcond(c):
    k = c[0]
    if k == "CIxNeg":
        return "CIxNeg %s" % p_ixe(c[1])
    if k == "CIxEq":
        return "CIxEq %s %s" % (p_ixe(c[1]), p_ixe(c[2]))
    if k in ("CSizeZero", "CSizePos", "CNdimLt2"):
        return "%s (%s)" % (k, p_pexp(c[1]))
    if k == "CPFlag":
        return "CPFlag %s" % q(c[1])
    if k == "CPNot":
        return "CPNot (%s)" % p_pcond(c[1])
    _un("condition outside pexp (%s)" % k)


_BIN = {"MAdd": "PAdd", "MSub": "PSub", "MMul": "PMul", "MDiv": "PDiv",
        "PAdd": "PAdd", "PSub": "PSub", "PMul": "PMul", "PDiv": "PDiv"}


def p_pexp(t):
    k = t[0]
    if k == "MConst":
        return "PConst %s" % MS.p_q(t[1])
    if k == "MBlock":
        return "PBlock %s %d %d" % (q(t[1]), t[2], t[3])
    if k == "PPairBlock":
        return "PPairBlock %s %s %d %d" % (q(t[1]), p_ixe(t[2]), t[3], t[4])
    if k == "MCube":
        return "PCube %s %s" % (q(t[1]), q(t[2]))
    if k == "PSlice":
        return "PSlice %s" % q(t[1])
    if k == "PIdx2":
        return "PIdx2 (%s) %s %s" % (p_pexp(t[1]), p_ixe(t[2]), p_ixe(t[3]))
    if k == "PIdx3":
        return "PIdx3 %s %s %s %s %s" % (q(t[1]), q(t[2]), p_ixe(t[3]), p_ixe(t[4]), p_ixe(t[5]))
    if k in _BIN:
        return "%s (%s) (%s)" % (_BIN[k], p_pexp(t[1]), p_pexp(t[2]))
    if k == "MPow":
        return "PPow (%s) %d" % (p_pexp(t[1]), t[2])
    if k == "MSqrt":
        return "PSqrt (%s)" % p_pexp(t[1])
    if k == "PAbs":
        return "PAbs (%s)" % p_pexp(t[1])
    if k == "PColSel":
        return "PColSel (%s) %s" % (p_pexp(t[1]), p_ixe(t[2]))
    if k == "PBroadcastLike":
        return "PBroadcastLike (%s) (%s)" % (p_pexp(t[1]), p_pexp(t[2]))
    if k == "MNanLike":
        return "PNanLike (%s)" % p_pexp(t[1])
    if k == "MNanSub":
        return "PNanSub (%s) %d %d" % (p_pexp(t[1]), t[2], t[3])
    if k == "PCdf":
        return "PCdf (%s) (%s)" % (p_pexp(t[1]), p_pexp(t[2]))
    if k == "PNCdf":
        return "PNCdf (%s)" % p_pexp(t[1])
    if k == "PIdx1":
        return "PIdx1 (%s) %s" % (p_pexp(t[1]), p_ixe(t[2]))
    if k == "PScal":
        return "PScal %s" % q(t[1])
    if k == "PMaskRowsSum":
        return "PMaskRowsSum (%s) (%s)" % (p_pexp(t[1]), p_pexp(t[2]))
    if k == "PTab2":
        return "PTab2 %s %s (%s)" % (q(t[1]), q(t[2]), p_pexp(t[3]))
    if k == "PTabR":
        return "PTabR (%s) %s %s (%s)" % (p_pexp(t[1]), q(t[2]), q(t[3]), p_pexp(t[4]))
    if k == "PIdx3S":
        return "PIdx3S %s %s %s %s %s" % (q(t[1]), q(t[2]), p_ixe(t[3]), p_ixe(t[4]), p_ixe(t[5]))
    if k == "PZeroRows":
        return "PZeroRows (%s)" % p_pexp(t[1])
    if k == "PIf":
        return "PIf (%s) (%s) (%s)" % (p_pcond(t[1]), p_pexp(t[2]), p_pexp(t[3]))
    _un("construct outside pexp (%s)" % k)


def p_bvexp(b):
    k = b[0]
    if k == "BVLt":
        return "BVLt (%s) (%s)" % (p_pexp(b[1]), p_pexp(b[2]))
    if k == "BVNeg":
        return "BVNeg (%s)" % p_pexp(b[1])
    if k == "BVAnd":
        return "BVAnd (%s) (%s)" % (p_bvexp(b[1]), p_bvexp(b[2]))
    if k == "BVIf":
        return "BVIf (%s) (%s) (%s)" % (p_pcond(b[1]), p_bvexp(b[2]), p_bvexp(b[3]))
    _un("construct outside bvexp (%s)" % k)


def p_bmexp(b):
    k = b[0]
    if k == "BLtScal":
        return "BLtScal %s %s" % (q(b[1]), q(b[2]))
    if k == "BLtZero":
        return "BLtZero %s" % q(b[1])
    if k == "BAnd":
        return "BAnd (%s) (%s)" % (p_bmexp(b[1]), p_bmexp(b[2]))
    if k == "BColFalse":
        return "BColFalse (%s) %s" % (p_bmexp(b[1]), q(b[2]))
    if k in ("BIfFlag", "BIfGiven"):
        return "%s %s (%s) (%s)" % (k, q(b[1]), p_bmexp(b[2]), p_bmexp(b[3]))
    raise AssertionError(b)


# ------------------------------------------------------------------------------------
# matrix/measure.py and measures/pairwise_significance.py
# ------------------------------------------------------------------------------------

def _full_slice(n):
    return isinstance(n, ast.Slice) and n.lower is None and n.upper is None and n.step is None


class _PW(MS._M):
    """measures._M plus the shapes listed in the module docstring."""

    def __init__(self, text, strat_text, legacy=False):
        MS._M.__init__(self, text, strat_text, "matrix")
        self.legacy = legacy
        imp = self.m.imported()
        self._pw_problem = None
        if legacy:
            # the matrix-module checks of measures._M do not apply to this module
            self._module_problem = "not the matrix module"
            if not self.m.only_imports_and_classes():
                self._pw_problem = "module-level statements other than imports and classes"
            want = {"np": ("numpy", None), "lazyproperty": ("cr.cube.util", "lazyproperty"),
                    "t": ("scipy.stats", "t")}
        else:
            want = {"t": ("scipy.stats", "t"), "norm": ("scipy.stats", "norm"),
                    "OverlapSubtotals": ("cr.cube.matrix.subtotals", "OverlapSubtotals")}
        for nm, v in want.items():
            if self._pw_problem is None and imp.get(nm) != v:
                self._pw_problem = "the name %s is not imported as expected" % nm
        for nm in ("abs", "range", "len", "tuple"):
            if nm in imp or nm in self.m.classes:
                self._pw_problem = "the builtin %s is shadowed" % nm

    def _ok(self):
        if self._pw_problem:
            _un(self._pw_problem)
        if not self.legacy and self._module_problem:
            _un(self._module_problem)

    # -- wiring: <collection>.<method>(<one integer parameter>) = _Class(args.., parameter)
    def wiring_method(self, prop):
        self._ok()
        fn = self.m.resolve(self.coll, prop)
        if fn is None:
            _un("%s has no attribute %s" % (self.coll, prop))
        if not MS._plain_method(fn):
            _un("%s.%s is not a plain method" % (self.coll, prop), fn)
        params = [a.arg for a in fn.args.args][1:]
        if len(params) != 1 or params[0] in ("self", "np", "DT", "t"):
            _un("%s.%s does not take exactly one parameter" % (self.coll, prop), fn)
        body = T._strip_doc(fn.body)
        if not (len(body) == 1 and isinstance(body[0], ast.Return) and isinstance(body[0].value, ast.Call)):
            _un("%s.%s is not `return _Class(...)`" % (self.coll, prop), fn)
        call = body[0].value
        if not isinstance(call.func, ast.Name) or call.func.id not in self.m.classes:
            _un("%s.%s does not construct a class of this module" % (self.coll, prop), call)
        if call.keywords or any(isinstance(a, ast.Starred) for a in call.args):
            _un("%s.%s: constructor call not read" % (self.coll, prop), call)
        cfields = self.m.init_fields(self.coll, self._coll_params())
        ctx = {"cname": self.coll, "fields": cfields, "env": {params[0]: ("ix", ("IxParam", "sel"))},
               "stack": (), "self": ("som",)}
        vals = [self.expr(a, ctx) for a in call.args]
        cname = call.func.id
        return cname, self.m.init_fields(cname, vals, call)

    def helper_fields(self, vals, node=None):
        return self.m.init_fields(HELPER, vals, node)

    def helper_standalone(self):
        self._ok()
        if HELPER not in self.m.classes:
            _un("class %s not found" % HELPER)
        vals = []
        for kind, nm in HELPER_ARGS:
            if kind == "arr2":
                vals.append(("arr", ("MCube", "arg", nm)))
            elif kind == "arr3":
                vals.append(("cubeattr", "arg", nm))
            else:
                vals.append(("ix", ("IxParam", nm)))
        return HELPER, self.helper_fields(vals)

    def legacy_fields(self, cname):
        """_ColumnPairwiseSignificance(slice_, col_idx, alpha, only_larger)"""
        self._ok()
        if cname not in self.m.classes:
            _un("class %s not found" % cname)
        init = self.m.resolve(cname, "__init__")
        if init is None:
            _un("%s.__init__ missing" % cname)
        a = init.args
        params = [x.arg for x in a.args][1:]
        # trailing defaults are allowed here (alpha=0.05, only_larger=True): they are opaque
        if a.vararg or a.kwarg or a.kwonlyargs or a.posonlyargs or init.decorator_list or len(params) < 2:
            _un("%s.__init__: signature not read" % cname, init)
        vals = [("slice",), ("ix", ("IxParam", "sel"))]
        if len(params) >= 3:
            vals.append(("arr", ("PScal", "alpha")))
        if len(params) >= 4:
            vals.append(("flag", "only_larger"))
        vals += [("opaque", p) for p in params[4:]]
        # measures._Mod.init_fields refuses defaults: read the plain field assignments here
        fields = {}
        env = dict(zip(params, vals))
        for st in T._strip_doc(init.body):
            if (
                isinstance(st, ast.Assign) and len(st.targets) == 1
                and isinstance(st.targets[0], ast.Attribute) and T._is_name(st.targets[0].value, "self")
                and isinstance(st.value, ast.Name) and st.value.id in env
                and st.targets[0].attr not in fields
            ):
                fields[st.targets[0].attr] = env[st.value.id]
            else:
                _un("%s.__init__: statement not read" % cname, st)
        chain = self.m.mro(cname)
        if len(chain) != 1:
            _un("%s has base classes" % cname)
        for mname, fn in chain[0].methods.items():
            if mname == "__init__":
                continue
            for n in ast.walk(fn):
                if (
                    isinstance(n, ast.Attribute) and isinstance(n.ctx, (ast.Store, ast.Del))
                    and T._is_name(n.value, "self") and n.attr in fields
                ):
                    _un("%s.%s assigns the field %s" % (cname, mname, n.attr), n)
        return fields

    # -- statements
    def body(self, stmts, ctx, where):
        if not stmts:
            _un("no `return <expr>` on this path", where)
        st, rest = stmts[0], stmts[1:]
        if isinstance(st, ast.If):
            c = self.cond(st.test, ctx)
            a = self.body(list(st.body) + list(rest), ctx, st)
            b = self.body(list(st.orelse) + list(rest), ctx, where)
            return self.mif(c, a, b, st)
        if (
            isinstance(st, ast.Assign) and len(st.targets) == 1
            and isinstance(st.targets[0], ast.Tuple)
            and all(isinstance(x, ast.Name) for x in st.targets[0].elts)
        ):
            names = [x.id for x in st.targets[0].elts]
            if len(set(names)) != len(names) or any(n in ("self", "np", "DT", "t") for n in names):
                _un("tuple assignment targets not read", st)
            v = self.expr(st.value, ctx)
            if v[0] != "tuple" or len(v[1]) != len(names):
                _un("tuple assignment of something else than a tuple of that length", st)
            env = dict(ctx["env"])
            for n, x in zip(names, v[1]):
                env[n] = x
            return self.body(rest, dict(ctx, env=env), where)
        r = self.loop_tab(stmts, ctx)
        if r is not None:
            return r
        if isinstance(st, ast.Assign) and len(st.targets) == 1 and (
            T._is_name(st.targets[0], "t") or T._is_name(st.targets[0], "norm")
        ):
            _un("the name t / norm is rebound", st)
        return MS._M.body(self, stmts, ctx, where)

    def loop_tab(self, stmts, ctx):
        """M = []; for i in range(A.shape[0]): R = []; for j in range(X.shape[1]): <x = e>*; R.append(E);
           M.append(R); return np.array(M)      ->  PTabR A X E   (None: not this shape)"""
        if len(stmts) != 3:
            return None
        s0, s1, s2 = stmts

        def empty_list(st):
            if (isinstance(st, ast.Assign) and len(st.targets) == 1 and isinstance(st.targets[0], ast.Name)
                    and isinstance(st.value, ast.List) and not st.value.elts):
                return st.targets[0].id
            return None

        def for_range(st):
            if (isinstance(st, ast.For) and not st.orelse and isinstance(st.target, ast.Name)
                    and isinstance(st.iter, ast.Call) and T._is_name(st.iter.func, "range")
                    and "range" not in ctx["env"] and len(st.iter.args) == 1 and not st.iter.keywords):
                return st.target.id, st.iter.args[0]
            return None

        def append(st, lst):
            if (isinstance(st, ast.Expr) and isinstance(st.value, ast.Call) and T._is_attr(st.value.func, lst, "append")
                    and len(st.value.args) == 1 and not st.value.keywords):
                return st.value.args[0]
            return None

        m = empty_list(s0)
        fo = for_range(s1)
        if m is None or fo is None:
            return None
        if not (isinstance(s2, ast.Return) and isinstance(s2.value, ast.Call) and T._is_attr(s2.value.func, "np", "array")
                and "np" not in ctx["env"] and len(s2.value.args) == 1 and not s2.value.keywords
                and T._is_name(s2.value.args[0], m)):
            return None
        ob = list(s1.body)
        if len(ob) != 3:
            _un("loop body outside the sub-language", s1)
        r = empty_list(ob[0])
        fi = for_range(ob[1])
        ap = append(ob[2], m)
        if r is None or fi is None or not T._is_name(ap, r):
            _un("loop body outside the sub-language", s1)
        (iname, ibound), (jname, jbound) = fo, fi
        names = (m, r, iname, jname)
        if len(set(names)) != 4 or any(n in ("self", "np", "DT", "t", "norm", HELPER) or n in ctx["env"] for n in names):
            _un("loop variables not read", s1)
        bi = self.expr(ibound, ctx)
        bj = self.expr(jbound, ctx)
        if not (bi[0] == "shapeix" and bi[2] == 0 and bj[0] == "shapeix" and bj[2] == 1 and bj[1][0] == "MCube"):
            _un("loop bounds are not <2-D array>.shape[0] / <cube-measure array>.shape[1]", s1)
        env = dict(ctx["env"])
        env[iname] = ("ix", ("IxLoop", 0))
        env[jname] = ("ix", ("IxLoop", 1))
        ib = list(ob[1].body)
        if not ib:
            _un("empty loop body", ob[1])
        for st in ib[:-1]:
            if not (isinstance(st, ast.Assign) and len(st.targets) == 1 and isinstance(st.targets[0], ast.Name)
                    and st.targets[0].id not in names + ("self", "np", "DT", "t", "norm", HELPER)):
                _un("statement in the inner loop not read", st)
            env[st.targets[0].id] = self.expr(st.value, dict(ctx, env=env))
        e = append(ib[-1], r)
        if e is None:
            _un("the inner loop does not end in <row>.append(<value>)", ib[-1])
        # the loop lists must not be used anywhere else
        for st in ib:
            for n in ast.walk(st):
                if isinstance(n, ast.Name) and n.id in (m,) or (isinstance(n, ast.Name) and n.id == r and n is not ib[-1].value.func.value):
                    _un("the lists built by the loops are used inside them", st)
        body = self.arr(self.expr(e, dict(ctx, env=env)), e)
        return ("arr", ("PTabR", bi[1], bj[1][1], bj[1][2], body))

    def mif(self, c, a, b, node):
        if a[0] == "tuple" and b[0] == "tuple" and len(a[1]) == len(b[1]):
            return ("tuple", [self.mif(c, x, y, node) for x, y in zip(a[1], b[1])])
        if a[0] == "blocks" and b[0] == "blocks":
            return ("blocks", [[("PIf", c, a[1][i][j], b[1][i][j]) for j in (0, 1)] for i in (0, 1)])
        if a[0] in ("bv", "where1") and b[0] == a[0]:
            return (a[0], ("BVIf", c, a[1], b[1]))
        return ("arr", ("PIf", c, self.arr(a, node), self.arr(b, node)))

    def ix(self, v, node):
        if v[0] == "ix":
            return v[1]
        _un("index is not an integer parameter / loop index", node)

    # -- expressions
    def expr(self, e, ctx):
        if isinstance(e, ast.Tuple) and isinstance(e.ctx, ast.Load):
            if any(isinstance(x, ast.Starred) for x in e.elts):
                _un("starred tuple", e)
            return ("tuple", [self.expr(x, ctx) for x in e.elts])
        if isinstance(e, ast.Subscript):
            r = self.subscript(e, ctx)
            if r is not None:
                return r
        # <array> < <array or scalar>: a boolean array (only as far as bvexp goes)
        if isinstance(e, ast.Compare) and len(e.ops) == 1 and isinstance(e.ops[0], ast.Lt):
            a = self.expr(e.left, ctx)
            if a[0] in ("arr", "cubeattr"):
                if T._nat(e.comparators[0]) == 0:
                    return ("bv", ("BVNeg", self.arr(a, e.left)))
                b = self.expr(e.comparators[0], ctx)
                return ("bv", ("BVLt", self.arr(a, e.left), self.arr(b, e.comparators[0])))
        # ~np.isnan(x): a row mask
        if (
            isinstance(e, ast.UnaryOp) and isinstance(e.op, ast.Invert) and isinstance(e.operand, ast.Call)
            and T._is_attr(e.operand.func, "np", "isnan") and "np" not in ctx["env"]
            and len(e.operand.args) == 1 and not e.operand.keywords
        ):
            return ("mask", self.arr(self.expr(e.operand.args[0], ctx), e.operand))
        # tuple(np.where(<boolean vector>)[0])
        if (
            isinstance(e, ast.Call) and T._is_name(e.func, "tuple") and "tuple" not in ctx["env"]
            and len(e.args) == 1 and not e.keywords and isinstance(e.args[0], ast.Subscript)
            and T._nat(e.args[0].slice) == 0 and isinstance(e.args[0].value, ast.Call)
            and T._is_attr(e.args[0].value.func, "np", "where") and "np" not in ctx["env"]
            and len(e.args[0].value.args) == 1 and not e.args[0].value.keywords
        ):
            b = self.expr(e.args[0].value.args[0], ctx)
            if b[0] != "bv":
                _un("np.where of something else than a boolean vector of the sub-language", e)
            return ("where1", b[1])
        if isinstance(e, ast.Call) and isinstance(e.func, ast.Name):
            if e.func.id == "abs" and "abs" not in ctx["env"]:
                if len(e.args) != 1 or e.keywords or isinstance(e.args[0], ast.Starred):
                    _un("abs(...) arguments", e)
                return ("arr", ("PAbs", self.arr(self.expr(e.args[0], ctx), e.args[0])))
        return MS._M.expr(self, e, ctx)

    def subscript(self, e, ctx):
        sl = e.slice
        # a[:, [k]]
        if (
            isinstance(sl, ast.Tuple) and len(sl.elts) == 2 and _full_slice(sl.elts[0])
            and isinstance(sl.elts[1], ast.List) and len(sl.elts[1].elts) == 1
        ):
            base = self.expr(e.value, ctx)
            k = self.ix(self.expr(sl.elts[1].elts[0], ctx), e)
            return ("arr", ("PColSel", self.arr(base, e), k))
        # a[i, j] / <3-D cube array>[i, j, k]
        if isinstance(sl, ast.Tuple) and len(sl.elts) in (2, 3) and not any(
            isinstance(x, (ast.Slice, ast.List, ast.Starred)) for x in sl.elts
        ):
            base = self.expr(e.value, ctx)
            ks = [self.ix(self.expr(x, ctx), e) for x in sl.elts]
            if len(ks) == 2:
                if base[0] != "arr":
                    _un("[i, j] of something else than a 2-D array expression", e)
                return ("arr", ("PIdx2", base[1], ks[0], ks[1]))
            if base[0] == "cube3rows":
                return ("arr", ("PIdx3S", base[1], base[2], ks[0], ks[1], ks[2]))
            if base[0] != "cubeattr":
                _un("[i, j, k] of something else than a cube-measure array", e)
            return ("arr", ("PIdx3", base[1], base[2], ks[0], ks[1], ks[2]))
        # M[mask, :]
        if (
            isinstance(sl, ast.Tuple) and len(sl.elts) == 2 and _full_slice(sl.elts[1])
            and isinstance(sl.elts[0], ast.Name) and ctx["env"].get(sl.elts[0].id, ("",))[0] == "mask"
        ):
            base = self.expr(e.value, ctx)
            return ("maskrows", self.arr(base, e), ctx["env"][sl.elts[0].id][1])
        # x[:, k][:, None]  ==  x[:, [k]]
        if (
            isinstance(sl, ast.Tuple) and len(sl.elts) == 2 and _full_slice(sl.elts[0])
            and isinstance(sl.elts[1], ast.Constant) and sl.elts[1].value is None
            and isinstance(e.value, ast.Subscript) and isinstance(e.value.slice, ast.Tuple)
            and len(e.value.slice.elts) == 2 and _full_slice(e.value.slice.elts[0])
            and not isinstance(e.value.slice.elts[1], (ast.Slice, ast.List, ast.Starred, ast.Constant))
        ):
            base = self.expr(e.value.value, ctx)
            k = self.ix(self.expr(e.value.slice.elts[1], ctx), e)
            return ("arr", ("PColSel", self.arr(base, e), k))
        # x[k], x 1-D, k an integer parameter (self.<field> or a bound name)
        if isinstance(sl, (ast.Attribute, ast.Name)) and not (
            isinstance(sl, ast.Name) and ctx["env"].get(sl.id, ("",))[0] == "num"
        ):
            try:
                kv = self.expr(sl, ctx)
            except Unavailable:
                kv = None
            if kv is not None and kv[0] == "ix":
                base = self.expr(e.value, ctx)
                return ("arr", ("PIdx1", self.arr(base, e), kv[1]))
        # <blocks>[k] / <row of blocks>[k], k a name bound to the literal 0 / 1
        if isinstance(sl, ast.Name) and sl.id in ctx["env"]:
            v = ctx["env"][sl.id]
            if v[0] == "num" and v[1] in (0, 1):
                base = self.expr(e.value, ctx)
                k = int(v[1])
                if base[0] == "blocks":
                    return ("brow", base[1][k])
                if base[0] == "brow":
                    return ("arr", base[1][k])
                _un("subscript outside the sub-language", e)
        # OverlapSubtotals.blocks(..)[1][0]
        if T._nat(sl) in (0, 1) and isinstance(e.value, (ast.Call, ast.Subscript)):
            try:
                base = self.expr(e.value, ctx)
            except Unavailable:
                base = ("",)
            if base[0] == "ovblocks":
                return ("ovbrow", base[1], base[2], T._nat(sl))
            if base[0] == "ovbrow":
                if (base[3], T._nat(sl)) != (1, 0):
                    _un("only the inserted-rows block [1][0] of OverlapSubtotals.blocks is read", e)
                return ("cube3rows", base[1], base[2])
        # <x>.shape[k]
        k = T._nat(sl)
        if k in (0, 1) and isinstance(e.value, ast.Attribute) and e.value.attr == "shape":
            base = self.expr(e.value, ctx)
            if base[0] == "shape":
                return ("shapeix", base[1], k)
        return None

    def attribute(self, e, ctx):
        if T._is_name(e.value, "np") or T._is_name(e.value, "DT"):
            return MS._M.attribute(self, e, ctx)
        if T._is_name(e.value, "self"):
            # a field bound to our own kinds of value
            if e.attr in ctx["fields"] and "self" not in ctx["env"] and ctx["self"] == ("obj",):
                if self.m.resolve(ctx["cname"], e.attr) is not None:
                    _un("attribute is both a field and a member", e)
                return ctx["fields"][e.attr]
            return MS._M.attribute(self, e, ctx)
        base = self.expr(e.value, ctx)
        k = base[0]
        if k == "pmeasure":
            if e.attr == "blocks":
                return ("blocks", [[("PPairBlock", base[1], base[2], i, j) for j in (0, 1)] for i in (0, 1)])
            _un("attribute of a measure object other than its blocks", e)
        if k == "slice":
            return ("arr", ("PSlice", e.attr))
        if k in ("arr", "cubeattr") and e.attr == "size":
            return ("size", self.arr(base, e))
        if k in ("arr", "cubeattr") and e.attr == "ndim":
            return ("ndim", self.arr(base, e))
        if k == "measure" and e.attr == "is_defined":
            return ("flag", "%s.is_defined" % base[1])
        if k == "helper":
            return self.member(HELPER, base[1], e.attr, ctx["stack"])
        return MS._M.attribute(self, e, ctx)

    def call(self, e, ctx):
        f = e.func
        if any(isinstance(a, ast.Starred) for a in e.args) or any(k.arg is None for k in e.keywords):
            _un("star arguments", e)
        # t.cdf(x, df=d)
        if T._is_attr(f, "t", "cdf") and "t" not in ctx["env"]:
            if len(e.args) != 1 or [k.arg for k in e.keywords] != ["df"]:
                _un("t.cdf call other than t.cdf(x, df=d)", e)
            x = self.arr(self.expr(e.args[0], ctx), e.args[0])
            d = self.arr(self.expr(e.keywords[0].value, ctx), e)
            return ("arr", ("PCdf", x, d))
        # norm.cdf(x)
        if T._is_attr(f, "norm", "cdf") and "norm" not in ctx["env"] and not self.legacy:
            if len(e.args) != 1 or e.keywords:
                _un("norm.cdf call other than norm.cdf(x)", e)
            return ("arr", ("PNCdf", self.arr(self.expr(e.args[0], ctx), e.args[0])))
        # the helper: _Helper(cp, selected, valid, row, a, b)
        if isinstance(f, ast.Name) and f.id == HELPER and HELPER not in ctx["env"] and not self.legacy:
            if e.keywords or len(e.args) != len(HELPER_ARGS):
                _un("helper constructor call not read", e)
            vals = []
            for (kind, _nm), a in zip(HELPER_ARGS, e.args):
                v = self.expr(a, ctx)
                if kind == "arr2" and v[0] != "arr":
                    _un("helper argument is not a 2-D array expression", a)
                if kind == "arr3" and v[0] not in ("cubeattr", "cube3rows"):
                    _un("helper argument is not a cube-measure array", a)
                if kind == "ix" and v[0] != "ix":
                    _un("helper argument is not an integer parameter / loop index", a)
                vals.append(v)
            return ("helper", self.helper_fields(vals, e))
        # OverlapSubtotals.blocks(<cube-measure array>, self._dimensions, diff_cols_nan=True)
        if T._is_attr(f, "OverlapSubtotals", "blocks") and "OverlapSubtotals" not in ctx["env"] and not self.legacy:
            kw = dict((k.arg, k.value) for k in e.keywords)
            if (len(e.args) != 2 or set(kw) != {"diff_cols_nan"}
                    or not (isinstance(kw["diff_cols_nan"], ast.Constant) and kw["diff_cols_nan"].value is True)):
                _un("OverlapSubtotals.blocks call not read", e)
            x = self.expr(e.args[0], ctx)
            if x[0] != "cubeattr" or self.expr(e.args[1], ctx) != ("dims",):
                _un("OverlapSubtotals.blocks operands not read", e)
            return ("ovblocks", x[1], x[2])
        # self._second_order_measures.<method>(k)
        if isinstance(f, ast.Attribute) and not T._is_name(f.value, "self") and not T._is_name(f.value, "np") \
                and not isinstance(f.value, ast.Name):
            base = self.expr(f.value, ctx)
            if base == ("som",):
                fn = self.m.resolve(self.coll, f.attr)
                if fn is None or not MS._plain_method(fn) or len(fn.args.args) != 2:
                    _un("%s.%s is not a plain method of one parameter" % (self.coll, f.attr), e)
                if e.keywords or len(e.args) != 1:
                    _un("measure method call arguments", e)
                k = self.ix(self.expr(e.args[0], ctx), e)
                return ("pmeasure", f.attr, k)
        return MS._M.call(self, e, ctx)

    def np_call(self, name, e, kw, ctx):
        args = e.args
        if name == "abs" and len(args) == 1 and not kw:
            return ("arr", ("PAbs", self.arr(self.expr(args[0], ctx), args[0])))
        if name == "power" and len(args) == 2 and not kw:
            k = T._nat(args[1])
            if k is None or k > 8:
                _un("np.power exponent is not a small literal natural", e)
            return ("arr", ("MPow", self.arr(self.expr(args[0], ctx), args[0]), k))
        if name == "broadcast_to" and len(args) == 2 and not kw:
            a = self.arr(self.expr(args[0], ctx), args[0])
            shp = self.expr(args[1], ctx)
            if shp[0] != "shape":
                _un("np.broadcast_to other than (a, <x>.shape)", e)
            return ("arr", ("PBroadcastLike", a, shp[1]))
        if name == "zeros" and len(args) == 1 and not kw and isinstance(args[0], ast.Tuple) and len(args[0].elts) == 2:
            if T._nat(args[0].elts[0]) == 0:
                b = self.expr(args[0].elts[1], ctx)
                if b[0] == "shapeix" and b[2] == 1:
                    return ("arr", ("PZeroRows", b[1]))
            _un("np.zeros other than ((0, <x>.shape[1]))", e)
        if name == "array" and len(args) == 1 and not kw and isinstance(args[0], ast.ListComp):
            return self.tab2(args[0], ctx)
        if name == "array" and len(args) == 1 and not kw:
            v = self.expr(args[0], ctx)
            if v[0] == "arr":          # np.array(<array>): the same values (dtype is not modelled)
                return v
            _un("np.array of something else than an array expression", e)
        if name == "divide" and len(args) == 2 and not kw:
            return ("arr", ("MDiv", self.arr(self.expr(args[0], ctx), args[0]),
                            self.arr(self.expr(args[1], ctx), args[1])))
        if name == "sum" and len(args) == 1 and set(kw) == {"axis"} and T._nat(kw["axis"]) == 0:
            v = self.expr(args[0], ctx)
            if v[0] == "maskrows":
                return ("arr", ("PMaskRowsSum", v[1], v[2]))
            _un("np.sum(.., axis=0) of something else than <m>[~np.isnan(<v>), :]", e)
        if name == "logical_and" and len(args) == 2 and not kw:
            a, b = self.expr(args[0], ctx), self.expr(args[1], ctx)
            if a[0] == "bv" and b[0] == "bv":
                return ("bv", ("BVAnd", a[1], b[1]))
            _un("np.logical_and of something else than boolean vectors of the sub-language", e)
        return MS._M.np_call(self, name, e, kw, ctx)

    def tab2(self, lc, ctx):
        """[[<Helper(..)>.<member> for j in range(X.shape[1])] for i in range(X.shape[0])]"""
        def gen(c):
            if len(c.generators) != 1:
                return None
            g = c.generators[0]
            if g.is_async or g.ifs or not isinstance(g.target, ast.Name):
                return None
            it = g.iter
            if not (isinstance(it, ast.Call) and T._is_name(it.func, "range") and "range" not in ctx["env"]
                    and len(it.args) == 1 and not it.keywords):
                return None
            return g.target.id, it.args[0]

        go = gen(lc)
        gi = gen(lc.elt) if isinstance(lc.elt, ast.ListComp) else None
        if go is None or gi is None:
            _un("comprehension outside the sub-language", lc)
        (iname, ibound), (jname, jbound) = go, gi
        if iname == jname or any(n in ("self", "np", "DT", "t", HELPER) for n in (iname, jname)):
            _un("comprehension variables not read", lc)
        bi = self.expr(ibound, ctx)
        bj = self.expr(jbound, ctx)   # the inner bound must not depend on the outer index
        if not (bi[0] == "shapeix" and bj[0] == "shapeix" and bi[2] == 0 and bj[2] == 1
                and bi[1] == bj[1] and bi[1][0] == "MCube"):
            _un("comprehension bounds are not X.shape[0] / X.shape[1] of one cube-measure array", lc)
        env = dict(ctx["env"])
        env[iname] = ("ix", ("IxLoop", 0))
        env[jname] = ("ix", ("IxLoop", 1))
        body = self.expr(lc.elt.elt, dict(ctx, env=env))
        return ("arr", ("PTab2", bi[1][1], bi[1][2], self.arr(body, lc.elt.elt)))

    # -- conditions
    def cond(self, t, ctx):
        if isinstance(t, ast.UnaryOp) and isinstance(t.op, ast.Not):
            return ("CPNot", self.cond(t.operand, ctx))
        if isinstance(t, ast.Compare) and len(t.ops) == 1:
            op, r = t.ops[0], t.comparators[0]
            if isinstance(op, (ast.IsNot, ast.Is)) and isinstance(r, ast.Constant) and r.value is None:
                a = self.expr(t.left, ctx)
                if a[0] == "arr" and a[1][0] == "PSlice":
                    c = ("CPFlag", "%s is not None" % a[1][1])
                    return c if isinstance(op, ast.IsNot) else ("CPNot", c)
                _un("`is None` test of something else than a slice attribute", t)
            # np.prod(<x>.shape) == 0: <x>.size == 0
            if (isinstance(op, ast.Eq) and T._nat(r) == 0 and isinstance(t.left, ast.Call)
                    and T._is_attr(t.left.func, "np", "prod") and "np" not in ctx["env"]
                    and len(t.left.args) == 1 and not t.left.keywords):
                b = self.expr(t.left.args[0], ctx)
                if b[0] == "shape":
                    return ("CSizeZero", b[1])
                _un("np.prod of something else than <x>.shape", t)
            # 0 in <x>.shape: some axis is empty, i.e. <x>.size == 0
            if isinstance(op, ast.In) and T._nat(t.left) == 0:
                b = self.expr(r, ctx)
                if b[0] == "shape":
                    return ("CSizeZero", b[1])
                _un("`0 in` something else than <x>.shape", t)
            a = self.expr(t.left, ctx)
            if a[0] == "ix":
                if isinstance(op, ast.Lt) and T._nat(r) == 0:
                    return ("CIxNeg", a[1])
                if isinstance(op, ast.Eq):
                    b = self.expr(r, ctx)
                    if b[0] == "ix":
                        return ("CIxEq", a[1], b[1])
            if a[0] == "ndim" and isinstance(op, ast.Lt) and T._nat(r) == 2:
                return ("CNdimLt2", a[1])
            if a[0] == "size" and T._nat(r) == 0:
                if isinstance(op, ast.Eq):
                    return ("CSizeZero", a[1])
                if isinstance(op, ast.Gt):
                    return ("CSizePos", a[1])
            _un("comparison outside the sub-language", t)
        if isinstance(t, ast.Attribute):
            v = self.expr(t, ctx)
            if v[0] == "flag":
                return ("CPFlag", v[1])
        _un("condition outside the sub-language", t)


# ------------------------------------------------------------------------------------
# cubepart._Slice._pairwise_indices
# ------------------------------------------------------------------------------------

IDX_PARAMS = ("p_vals", "t_stats", "alpha", "only_larger", "col_idx")  # canonical roles, by position


class _Idx(object):
    def __init__(self, text):
        self.m = MS._Mod(text, M_CUBEPART)
        imp = self.m.imported()
        self.problem = None
        if imp.get("np") != ("numpy", None):
            self.problem = "np is not numpy"
        for nm in ("len", "tuple"):
            if nm in imp or nm in self.m.classes:
                self.problem = "the builtin %s is shadowed" % nm
        for node in self.m.mod.body:
            if isinstance(node, (ast.FunctionDef, ast.AsyncFunctionDef)) and node.name in ("len", "tuple", "np"):
                self.problem = "module-level redefinition of %s" % node.name
            if isinstance(node, ast.Assign):
                for tg in node.targets:
                    if isinstance(tg, ast.Name) and tg.id in ("len", "tuple", "np"):
                        self.problem = "module-level redefinition of %s" % tg.id

    def translate(self, cname, mname):
        if self.problem:
            _un(self.problem)
        fn = self.m.resolve(cname, mname)
        if fn is None:
            _un("%s has no attribute %s" % (cname, mname))
        a = fn.args
        if not (len(fn.decorator_list) == 1 and T._is_name(fn.decorator_list[0], "staticmethod")):
            _un("%s.%s is not a @staticmethod" % (cname, mname), fn)
        params = [x.arg for x in a.args]
        if (
            len(params) != len(IDX_PARAMS) or a.vararg or a.kwarg or a.kwonlyargs or a.posonlyargs
            or len(set(params)) != len(params) or any(p in ("np", "len", "tuple") for p in params)
        ):
            _un("%s.%s: signature not read" % (cname, mname), fn)
        # only the last parameter may default, to None
        if len(a.defaults) > 1 or (a.defaults and not (isinstance(a.defaults[0], ast.Constant) and a.defaults[0].value is None)):
            _un("%s.%s: defaults not read" % (cname, mname), fn)
        self.role = dict(zip(params, IDX_PARAMS))
        return self.body(T._strip_doc(fn.body), {}, fn)

    def param(self, node, roles):
        if isinstance(node, ast.Name) and self.role.get(node.id) in roles and node.id not in self.assigned:
            return self.role[node.id]
        return None

    def body(self, stmts, env, where):
        self.assigned = getattr(self, "assigned", set())
        if not stmts:
            _un("no `return` on this path", where)
        st, rest = stmts[0], list(stmts[1:])
        if isinstance(st, ast.With):
            if not (
                len(st.items) == 1 and st.items[0].optional_vars is None
                and isinstance(st.items[0].context_expr, ast.Call)
                and T._is_attr(st.items[0].context_expr.func, "np", "errstate")
            ):
                _un("`with` other than np.errstate(...)", st)
            return self.body(list(st.body) + rest, env, where)
        if isinstance(st, ast.If):
            fl = self.param(st.test, ("only_larger",))
            if fl is not None:
                return ("BIfFlag", fl, self.body(list(st.body) + rest, env, st),
                        self.body(list(st.orelse) + rest, env, where))
            t = st.test
            if (
                isinstance(t, ast.Compare) and len(t.ops) == 1 and isinstance(t.ops[0], ast.IsNot)
                and isinstance(t.comparators[0], ast.Constant) and t.comparators[0].value is None
                and self.param(t.left, ("col_idx",))
            ):
                return ("BIfGiven", "col_idx", self.body(list(st.body) + rest, env, st),
                        self.body(list(st.orelse) + rest, env, where))
            _un("condition outside the sub-language", st)
        if isinstance(st, ast.Assign) and len(st.targets) == 1:
            tg = st.targets[0]
            # S = <boolean matrix>
            if isinstance(tg, ast.Name) and tg.id not in self.role and tg.id not in ("np", "len", "tuple"):
                # the final pattern: V = np.empty((len(S),), dtype=object); V[:] = [...]; return V
                r = self.final(tg.id, st.value, rest, env)
                if r is not None:
                    return r
                env2 = dict(env)
                env2[tg.id] = self.bexpr(st.value, env)
                return self.body(rest, env2, where)
            # S[:, k] = False
            if (
                isinstance(tg, ast.Subscript) and isinstance(tg.value, ast.Name) and tg.value.id in env
                and isinstance(tg.slice, ast.Tuple) and len(tg.slice.elts) == 2 and _full_slice(tg.slice.elts[0])
                and self.param(tg.slice.elts[1], ("col_idx",))
                and isinstance(st.value, ast.Constant) and st.value.value is False
            ):
                env2 = dict(env)
                env2[tg.value.id] = ("BColFalse", env[tg.value.id], "col_idx")
                return self.body(rest, env2, where)
        _un("statement not read", st)

    def final(self, vname, value, rest, env):
        if not (
            isinstance(value, ast.Call) and T._is_attr(value.func, "np", "empty") and len(value.args) == 1
            and [k.arg for k in value.keywords] == ["dtype"] and T._is_name(value.keywords[0].value, "object")
        ):
            return None
        shp = value.args[0]
        if not (
            isinstance(shp, ast.Tuple) and len(shp.elts) == 1 and isinstance(shp.elts[0], ast.Call)
            and T._is_name(shp.elts[0].func, "len") and len(shp.elts[0].args) == 1 and not shp.elts[0].keywords
            and isinstance(shp.elts[0].args[0], ast.Name) and shp.elts[0].args[0].id in env
        ):
            _un("np.empty(...) other than np.empty((len(S),), dtype=object)", value)
        sname = shp.elts[0].args[0].id
        if len(rest) != 2:
            _un("statements after np.empty(...) not read", value)
        s1, s2 = rest
        ok = (
            isinstance(s1, ast.Assign) and len(s1.targets) == 1 and isinstance(s1.targets[0], ast.Subscript)
            and T._is_name(s1.targets[0].value, vname) and _full_slice(s1.targets[0].slice)
            and isinstance(s1.value, ast.ListComp) and len(s1.value.generators) == 1
        )
        if ok:
            g = s1.value.generators[0]
            elt = s1.value.elt
            ok = (
                not g.is_async and not g.ifs and isinstance(g.target, ast.Name)
                and g.target.id not in env and g.target.id not in self.role and g.target.id != vname
                and T._is_name(g.iter, sname)
                # tuple(np.where(row)[0])
                and isinstance(elt, ast.Call) and T._is_name(elt.func, "tuple") and len(elt.args) == 1
                and not elt.keywords and isinstance(elt.args[0], ast.Subscript) and T._nat(elt.args[0].slice) == 0
                and isinstance(elt.args[0].value, ast.Call) and T._is_attr(elt.args[0].value.func, "np", "where")
                and len(elt.args[0].value.args) == 1 and not elt.args[0].value.keywords
                and T._is_name(elt.args[0].value.args[0], g.target.id)
            )
        ok = ok and isinstance(s2, ast.Return) and T._is_name(s2.value, vname) and vname != sname
        if not ok:
            _un("the index tuples are not built by the expected three statements", s1)
        return env[sname]

    def bexpr(self, e, env):
        if isinstance(e, ast.Name) and e.id in env:
            return env[e.id]
        if isinstance(e, ast.Compare) and len(e.ops) == 1 and isinstance(e.ops[0], ast.Lt):
            a = self.param(e.left, ("p_vals", "t_stats"))
            if a is not None:
                r = e.comparators[0]
                if T._nat(r) == 0:
                    return ("BLtZero", a)
                s = self.param(r, ("alpha",))
                if s is not None:
                    return ("BLtScal", a, s)
            _un("comparison outside the sub-language", e)
        if (
            isinstance(e, ast.Call) and T._is_attr(e.func, "np", "logical_and")
            and len(e.args) == 2 and not e.keywords
        ):
            return ("BAnd", self.bexpr(e.args[0], env), self.bexpr(e.args[1], env))
        _un("boolean-matrix expression outside the sub-language", e)

    def check_not_rebound(self, fn):
        """no parameter is assigned in the method (they are read as the caller's values)"""
        for n in ast.walk(fn):
            if isinstance(n, ast.Name) and isinstance(n.ctx, (ast.Store, ast.Del)) and n.id in self.role:
                _un("parameter %s is rebound" % n.id, n)
            if isinstance(n, ast.Name) and isinstance(n.ctx, (ast.Store, ast.Del)) and n.id in ("np", "len", "tuple"):
                _un("%s is rebound" % n.id, n)



# ------------------------------------------------------------------------------------
# cubepart.py: _alpha_values, _only_larger, pairwise_indices(_alt), pairwise_means_indices(_alt)
# ------------------------------------------------------------------------------------

def p_jterm(t):
    if t[0] in ("JV", "JX", "JNone"):
        return t[0]
    if t[0] == "JItem":
        return "(JItem %d)" % t[1]
    if t[0] == "JConst":
        return "(JConst %s)" % MS.p_q(t[1])
    raise AssertionError(t)


def p_jcond(c):
    k = c[0]
    if k == "JNot":
        return "JNot (%s)" % p_jcond(c[1])
    if k == "JOr":
        return "JOr (%s) (%s)" % (p_jcond(c[1]), p_jcond(c[2]))
    if k in ("JTruthy", "JIsFloat", "JIsFloatOrSeq", "JIn01"):
        return "%s %s" % (k, p_jterm(c[1]))
    if k == "JLenEq":
        return "JLenEq %d" % c[1]
    raise AssertionError(c)


def p_jexp(e):
    k = e[0]
    if k == "JRet":
        return "JRet %s %s" % (p_jterm(e[1]), p_jterm(e[2]))
    if k == "JRetSorted2":
        return "JRetSorted2"
    if k == "JRaise":
        return "JRaise %s" % q(e[1])
    if k == "JIf":
        return "JIf (%s) (%s) (%s)" % (p_jcond(e[1]), p_jexp(e[2]), p_jexp(e[3]))
    if k == "JForFirst2":
        return "JForFirst2 (%s) %s (%s)" % (p_jcond(e[1]), q(e[2]), p_jexp(e[3]))
    raise AssertionError(e)


def p_wexp(w):
    if w[0] == "WIndices":
        return "WIndices %s %s (WSelf %s) (WSelf %s)" % (q(w[1]), q(w[2]), q(w[3]), q(w[4]))
    if w[0] == "WNoneIfNone":
        return "WNoneIfNone (WSelf %s) (%s)" % (q(w[1]), p_wexp(w[2]))
    raise AssertionError(w)


def p_rcond(c):
    k = c[0]
    if k == "RDimIs":
        return "RDimIs (%d)%%Z %s" % (c[1], q(c[2]))
    if k in ("RCubeGiven", "RMember"):
        return "%s %s" % (k, q(c[1]))
    if k == "RAnd":
        return "RAnd (%s) (%s)" % (p_rcond(c[1]), p_rcond(c[2]))
    raise AssertionError(c)


def p_dexp(e):
    if e[0] == "DAssemble":
        return "DAssemble %s %s" % (q(e[1]), e[2])
    if e[0] == "DIf":
        return "DIf (%s) (%s) (%s)" % (p_rcond(e[1]), p_dexp(e[2]), p_dexp(e[3]))
    raise AssertionError(e)


_BUILTINS = ("isinstance", "float", "list", "tuple", "len", "sorted", "range", "TypeError", "ValueError", "repr")


class _Ctl(object):
    def __init__(self, text):
        self.text = text
        self.m = MS._Mod(text, M_CUBEPART)
        imp = self.m.imported()
        self.problem = None
        if imp.get("lazyproperty") != ("cr.cube.util", "lazyproperty"):
            self.problem = "lazyproperty is not imported as expected"
        for nm in _BUILTINS:
            if nm in imp or nm in self.m.classes:
                self.problem = "the builtin %s is shadowed" % nm
        for node in self.m.mod.body:
            if isinstance(node, (ast.FunctionDef, ast.AsyncFunctionDef)) and node.name in _BUILTINS:
                self.problem = "module-level redefinition of %s" % node.name
            if isinstance(node, ast.Assign):
                for tg in node.targets:
                    if isinstance(tg, ast.Name) and tg.id in _BUILTINS:
                        self.problem = "module-level redefinition of %s" % tg.id

    def lazy(self, cname, mname):
        if self.problem:
            _un(self.problem)
        fn = self.m.resolve(cname, mname)
        if fn is None:
            _un("%s has no attribute %s" % (cname, mname))
        if not MS._plain_lazy(fn):
            _un("%s.%s is not a plain @lazyproperty" % (cname, mname), fn)
        for n in ast.walk(fn):
            if isinstance(n, ast.Name) and isinstance(n.ctx, (ast.Store, ast.Del)) and n.id in _BUILTINS + ("self",):
                _un("%s is rebound" % n.id, n)
        return fn

    # -- transforms["pairwise_indices"][<key>]
    def tget(self, e, key, with_default):
        """self._transforms_dict.get("pairwise_indices", {}).get(<key>[, <bool literal>]) -> default | True"""
        if not (isinstance(e, ast.Call) and isinstance(e.func, ast.Attribute) and e.func.attr == "get" and not e.keywords):
            return None
        args = e.args
        if not args or not (isinstance(args[0], ast.Constant) and args[0].value == key):
            return None
        dflt = True
        if with_default:
            if len(args) != 2 or not (isinstance(args[1], ast.Constant) and type(args[1].value) is bool):
                return None
            dflt = ("bool", args[1].value)
        elif len(args) != 1:
            return None
        inner = e.func.value
        ok = (
            isinstance(inner, ast.Call) and isinstance(inner.func, ast.Attribute) and inner.func.attr == "get"
            and not inner.keywords and len(inner.args) == 2
            and isinstance(inner.args[0], ast.Constant) and inner.args[0].value == "pairwise_indices"
            and isinstance(inner.args[1], ast.Dict) and not inner.args[1].keys
            and T._is_attr(inner.func.value, "self", "_transforms_dict")
        )
        return dflt if ok else None

    # -- _alpha_values
    def alpha_values(self, cname):
        fn = self.lazy(cname, "_alpha_values")
        body = T._strip_doc(fn.body)
        if not body:
            _un("empty body", fn)
        st = body[0]
        if not (
            isinstance(st, ast.Assign) and len(st.targets) == 1 and isinstance(st.targets[0], ast.Name)
            and self.tget(st.value, "alpha", False) is True
        ):
            _un("first statement is not `value = self._transforms_dict.get(\"pairwise_indices\", {}).get(\"alpha\")`", st)
        self.vname = st.targets[0].id
        for n in ast.walk(fn):
            if isinstance(n, ast.Name) and isinstance(n.ctx, (ast.Store, ast.Del)) and n.id == self.vname and n is not st.targets[0]:
                _un("the value is rebound", n)
        return self.jstmts(body[1:], None, fn)

    def jterm(self, e, xname):
        if isinstance(e, ast.Name):
            if e.id == self.vname:
                return ("JV",)
            if xname is not None and e.id == xname:
                return ("JX",)
        if isinstance(e, ast.Constant) and e.value is None:
            return ("JNone",)
        if isinstance(e, ast.Constant) and type(e.value) is float and MS._num(e, self.text) is not None:
            return ("JConst", MS._num(e, self.text))
        if isinstance(e, ast.Subscript) and T._is_name(e.value, self.vname) and T._nat(e.slice) is not None:
            return ("JItem", T._nat(e.slice))
        _un("term outside the sub-language", e)

    def first2(self, e):
        """value[:2]"""
        return (
            isinstance(e, ast.Subscript) and T._is_name(e.value, self.vname) and isinstance(e.slice, ast.Slice)
            and e.slice.lower is None and e.slice.step is None and T._nat(e.slice.upper) == 2
        )

    def jcond(self, t, xname):
        if isinstance(t, ast.UnaryOp) and isinstance(t.op, ast.Not):
            return ("JNot", self.jcond(t.operand, xname))
        if isinstance(t, ast.BoolOp) and isinstance(t.op, ast.Or):
            cs = [self.jcond(v, xname) for v in t.values]
            out = cs[-1]
            for c in reversed(cs[:-1]):
                out = ("JOr", c, out)
            return out
        if isinstance(t, ast.Name):
            return ("JTruthy", self.jterm(t, xname))
        if isinstance(t, ast.Call) and T._is_name(t.func, "isinstance") and len(t.args) == 2 and not t.keywords:
            x = self.jterm(t.args[0], xname)
            ty = t.args[1]
            if T._is_name(ty, "float"):
                return ("JIsFloat", x)
            if (
                isinstance(ty, ast.Tuple) and len(ty.elts) == 3
                and [n.id if isinstance(n, ast.Name) else None for n in ty.elts] == ["float", "list", "tuple"]
            ):
                return ("JIsFloatOrSeq", x)
            _un("isinstance with other types", t)
        if isinstance(t, ast.Compare):
            # 0.0 < T < 1.0
            if (
                len(t.ops) == 2 and all(isinstance(o, ast.Lt) for o in t.ops)
                and MS._num(t.left, self.text) == 0 and MS._num(t.comparators[1], self.text) == 1
            ):
                return ("JIn01", self.jterm(t.comparators[0], xname))
            # len(value) == k
            if (
                len(t.ops) == 1 and isinstance(t.ops[0], ast.Eq) and isinstance(t.left, ast.Call)
                and T._is_name(t.left.func, "len") and len(t.left.args) == 1 and not t.left.keywords
                and T._is_name(t.left.args[0], self.vname) and T._nat(t.comparators[0]) is not None
            ):
                return ("JLenEq", T._nat(t.comparators[0]))
        _un("condition outside the sub-language", t)

    def jraise(self, st):
        if (
            isinstance(st, ast.Raise) and st.cause is None and isinstance(st.exc, ast.Call)
            and isinstance(st.exc.func, ast.Name) and st.exc.func.id in ("TypeError", "ValueError")
        ):
            return st.exc.func.id
        return None

    def jstmts(self, stmts, xname, where):
        if not stmts:
            _un("a path falls off the end of the method", where)
        st, rest = stmts[0], list(stmts[1:])
        r = self.jraise(st)
        if r is not None:
            return ("JRaise", r)
        if isinstance(st, ast.Return) and st.value is not None:
            v = st.value
            if isinstance(v, ast.Tuple) and len(v.elts) == 2:
                return ("JRet", self.jterm(v.elts[0], xname), self.jterm(v.elts[1], xname))
            if (
                isinstance(v, ast.Call) and T._is_name(v.func, "tuple") and len(v.args) == 1 and not v.keywords
                and isinstance(v.args[0], ast.Call) and T._is_name(v.args[0].func, "sorted")
                and len(v.args[0].args) == 1 and not v.args[0].keywords and self.first2(v.args[0].args[0])
            ):
                return ("JRetSorted2",)
            _un("return value outside the sub-language", st)
        if isinstance(st, ast.If):
            c = self.jcond(st.test, xname)
            return ("JIf", c, self.jstmts(list(st.body) + rest, xname, st),
                    self.jstmts(list(st.orelse) + rest, xname, where))
        if isinstance(st, ast.For) and not st.orelse and isinstance(st.target, ast.Name) and self.first2(st.iter):
            x = st.target.id
            if x == self.vname or x in _BUILTINS or x == "self" or xname is not None:
                _un("loop variable not read", st)
            if len(st.body) == 1 and isinstance(st.body[0], ast.If) and not st.body[0].orelse \
                    and len(st.body[0].body) == 1 and self.jraise(st.body[0].body[0]) is not None:
                c = self.jcond(st.body[0].test, x)
                return ("JForFirst2", c, self.jraise(st.body[0].body[0]), self.jstmts(rest, None, where))
            _un("loop body is not `if c: raise E(...)`", st)
        _un("statement not read", st)

    # -- _alpha / _alpha_alt: `return self._alpha_values[k]`
    def proj_member(self, cname, mname, of):
        fn = self.lazy(cname, mname)
        body = T._strip_doc(fn.body)
        if (
            len(body) == 1 and isinstance(body[0], ast.Return) and isinstance(body[0].value, ast.Subscript)
            and T._is_attr(body[0].value.value, "self", of) and T._nat(body[0].value.slice) is not None
        ):
            return T._nat(body[0].value.slice)
        _un("not `return self.%s[<k>]`" % of, fn)

    # -- _only_larger
    def only_larger(self, cname):
        fn = self.lazy(cname, "_only_larger")
        body = T._strip_doc(fn.body)
        if not (len(body) == 1 and isinstance(body[0], ast.Return) and isinstance(body[0].value, ast.IfExp)):
            _un("not `return a if c else b`", fn)
        e = body[0].value
        t = e.test
        if not (
            isinstance(t, ast.Compare) and len(t.ops) == 1 and isinstance(t.ops[0], ast.Is)
            and isinstance(t.comparators[0], ast.Constant) and t.comparators[0].value is False
        ):
            _un("test is not `<x> is False`", t)
        d = self.tget(t.left, "only_larger", True)
        if d is None or d is True:
            _un("not self._transforms_dict.get(\"pairwise_indices\", {}).get(\"only_larger\", <bool>)", t)
        for b in (e.body, e.orelse):
            if not (isinstance(b, ast.Constant) and type(b.value) is bool):
                _un("branch is not a boolean literal", b)
        return ("OlIfIsFalse", d[1], e.body.value, e.orelse.value)

    # -- _pairwise_significance_*(column_idx), _cube_has_overlaps
    def rcond(self, t):
        if isinstance(t, ast.BoolOp) and isinstance(t.op, ast.And):
            cs = [self.rcond(v) for v in t.values]
            out = cs[-1]
            for c in reversed(cs[:-1]):
                out = ("RAnd", c, out)
            return out
        if isinstance(t, ast.Compare) and len(t.ops) == 1:
            op, r = t.ops[0], t.comparators[0]
            # self._dimensions[d].dimension_type == DT.<X>
            if (
                isinstance(op, ast.Eq) and isinstance(r, ast.Attribute) and T._is_name(r.value, "DT")
                and isinstance(t.left, ast.Attribute) and t.left.attr == "dimension_type"
                and isinstance(t.left.value, ast.Subscript) and T._is_attr(t.left.value.value, "self", "_dimensions")
            ):
                sl = t.left.value.slice
                d = None
                if isinstance(sl, ast.UnaryOp) and isinstance(sl.op, ast.USub) and T._nat(sl.operand) is not None:
                    d = -T._nat(sl.operand)
                elif T._nat(sl) is not None:
                    d = T._nat(sl)
                if d is not None and self.m.imported().get("DT") == ("cr.cube.enums", "DIMENSION_TYPE"):
                    return ("RDimIs", d, r.attr)
            # self._cube.<a> is not None
            if (
                isinstance(op, ast.IsNot) and isinstance(r, ast.Constant) and r.value is None
                and isinstance(t.left, ast.Attribute) and T._is_attr(t.left.value, "self", "_cube")
            ):
                return ("RCubeGiven", t.left.attr)
        if isinstance(t, ast.Attribute) and T._is_name(t.value, "self"):
            fn = self.m.resolve(self.cname, t.attr)
            if fn is not None and MS._plain_lazy(fn):
                return ("RMember", t.attr)
        _un("condition outside the sub-language", t)

    def bool_member(self, cname, mname):
        self.cname = cname
        fn = self.lazy(cname, mname)
        body = T._strip_doc(fn.body)
        if not (len(body) == 1 and isinstance(body[0], ast.Return) and body[0].value is not None):
            _un("not `return <condition>`", fn)
        return self.rcond(body[0].value)

    def route_member(self, cname, mname):
        if self.problem:
            _un(self.problem)
        self.cname = cname
        fn = self.m.resolve(cname, mname)
        if fn is None or not MS._plain_method(fn):
            _un("%s.%s is not a plain method" % (cname, mname))
        params = [a.arg for a in fn.args.args][1:]
        if len(params) != 1 or params[0] in _BUILTINS + ("self",):
            _un("%s.%s does not take exactly one parameter" % (cname, mname), fn)
        for n in ast.walk(fn):
            if isinstance(n, ast.Name) and isinstance(n.ctx, (ast.Store, ast.Del)) and n.id in (params[0], "self"):
                _un("%s is rebound" % n.id, n)
        return self.dstmts(T._strip_doc(fn.body), {}, params[0], fn)

    def dsel(self, e, env, param):
        if isinstance(e, ast.Name):
            if e.id in env:
                return env[e.id]
            if e.id == param:
                return "DParam"
        if (
            isinstance(e, ast.Subscript) and T._is_attr(e.value, "self", "_column_order_signed_indexes")
            and T._is_name(e.slice, param)
        ):
            return "DOrderAt"
        _un("selected column outside the sub-language", e)

    def dstmts(self, stmts, env, param, where):
        if not stmts:
            _un("a path falls off the end", where)
        st, rest = stmts[0], list(stmts[1:])
        if (
            isinstance(st, ast.Assign) and len(st.targets) == 1 and isinstance(st.targets[0], ast.Name)
            and st.targets[0].id not in (param, "self") + _BUILTINS
        ):
            env2 = dict(env)
            env2[st.targets[0].id] = self.dsel(st.value, env, param)
            return self.dstmts(rest, env2, param, where)
        if isinstance(st, ast.If):
            c = self.rcond(st.test)
            return ("DIf", c, self.dstmts(list(st.body) + rest, env, param, st),
                    self.dstmts(list(st.orelse) + rest, env, param, where))
        if isinstance(st, ast.Return) and isinstance(st.value, ast.Call):
            c = st.value
            if (
                T._is_attr(c.func, "self", "_assemble_matrix") and len(c.args) == 1 and not c.keywords
                and isinstance(c.args[0], ast.Attribute) and c.args[0].attr == "blocks"
                and isinstance(c.args[0].value, ast.Call) and not c.args[0].value.keywords
                and len(c.args[0].value.args) == 1
                and isinstance(c.args[0].value.func, ast.Attribute)
                and T._is_attr(c.args[0].value.func.value, "self", "_measures")
            ):
                return ("DAssemble", c.args[0].value.func.attr, self.dsel(c.args[0].value.args[0], env, param))
        _un("statement not read", st)

    # -- pairwise_indices & co
    def self_attr(self, e, env):
        if isinstance(e, ast.Name) and e.id in env:
            return env[e.id]
        if isinstance(e, ast.Attribute) and T._is_name(e.value, "self"):
            return e.attr
        _un("argument is not self.<attribute> / a parameter bound to one", e)

    def wbody(self, cname, stmts, env, where, depth=0):
        if not stmts:
            _un("a path falls off the end", where)
        st, rest = stmts[0], list(stmts[1:])
        # if self.<a> is None: return None
        if (
            isinstance(st, ast.If) and not st.orelse and isinstance(st.test, ast.Compare)
            and len(st.test.ops) == 1 and isinstance(st.test.ops[0], ast.Is)
            and isinstance(st.test.comparators[0], ast.Constant) and st.test.comparators[0].value is None
            and len(st.body) == 1 and isinstance(st.body[0], ast.Return)
            and isinstance(st.body[0].value, ast.Constant) and st.body[0].value.value is None
        ):
            a = self.self_attr(st.test.left, env)
            return ("WNoneIfNone", a, self.wbody(cname, rest, env, where, depth))
        # try: return X  except ValueError: raise ValueError("...")   (the message only)
        if (
            isinstance(st, ast.Try) and not rest and not st.orelse and not st.finalbody
            and len(st.body) == 1 and len(st.handlers) == 1
            and T._is_name(st.handlers[0].type, "ValueError") and st.handlers[0].name is None
            and len(st.handlers[0].body) == 1 and isinstance(st.handlers[0].body[0], ast.Raise)
            and st.handlers[0].body[0].cause is None
            and isinstance(st.handlers[0].body[0].exc, ast.Call)
            and T._is_name(st.handlers[0].body[0].exc.func, "ValueError")
            and all(isinstance(a, ast.Constant) and isinstance(a.value, str) for a in st.handlers[0].body[0].exc.args)
            and not st.handlers[0].body[0].exc.keywords
        ):
            return self.wbody(cname, list(st.body), env, st, depth)
        if isinstance(st, ast.Return) and not rest and isinstance(st.value, ast.Call):
            call = st.value
            f = call.func
            if call.keywords or any(isinstance(a, ast.Starred) for a in call.args):
                _un("call not read", st)
            # return self._indices_matrix([...])
            if T._is_attr(f, "self", "_indices_matrix") and len(call.args) == 1 and isinstance(call.args[0], ast.ListComp):
                return self.windices(call.args[0], env)
            # return self._method(self.<a>, self.<b>)  -> inlined
            if isinstance(f, ast.Attribute) and T._is_name(f.value, "self") and depth == 0:
                fn = self.m.resolve(cname, f.attr)
                if fn is None or not MS._plain_method(fn):
                    _un("%s.%s is not a plain method" % (cname, f.attr), st)
                params = [a.arg for a in fn.args.args][1:]
                if len(params) != len(call.args) or any(p in _BUILTINS + ("self",) for p in params):
                    _un("%s.%s: arity" % (cname, f.attr), st)
                for n in ast.walk(fn):
                    if isinstance(n, ast.Name) and isinstance(n.ctx, (ast.Store, ast.Del)) and n.id in params + ["self"]:
                        _un("parameter %s is rebound" % n.id, n)
                env2 = dict(zip(params, [self.self_attr(a, env) for a in call.args]))
                return self.wbody(cname, T._strip_doc(fn.body), env2, fn, depth + 1)
        _un("statement not read", st)

    def windices(self, lc, env):
        if len(lc.generators) != 1:
            _un("comprehension not read", lc)
        g = lc.generators[0]
        col = g.target.id if isinstance(g.target, ast.Name) else None
        it = g.iter
        ok = (
            not g.is_async and not g.ifs and col is not None and col not in env
            and col not in _BUILTINS + ("self",)
            and isinstance(it, ast.Call) and T._is_name(it.func, "range") and len(it.args) == 1 and not it.keywords
            and isinstance(it.args[0], ast.Call) and T._is_name(it.args[0].func, "len")
            and len(it.args[0].args) == 1 and not it.args[0].keywords
            and T._is_attr(it.args[0].args[0], "self", "_column_order_signed_indexes")
        )
        if not ok:
            _un("comprehension is not `for col in range(len(self._column_order_signed_indexes))`", lc)
        c = lc.elt
        if not (
            isinstance(c, ast.Call) and T._is_attr(c.func, "self", "_pairwise_indices")
            and len(c.args) == 5 and not c.keywords and not any(isinstance(a, ast.Starred) for a in c.args)
        ):
            _un("element is not self._pairwise_indices(p, t, alpha, only_larger, col)", c)

        def mcall(a):
            if (
                isinstance(a, ast.Call) and isinstance(a.func, ast.Attribute) and T._is_name(a.func.value, "self")
                and len(a.args) == 1 and not a.keywords and T._is_name(a.args[0], col)
            ):
                return a.func.attr
            _un("argument is not self.<method>(col)", a)

        pv, tv = mcall(c.args[0]), mcall(c.args[1])
        alpha = self.self_attr(c.args[2], env)
        ol = self.self_attr(c.args[3], env)
        if not T._is_name(c.args[4], col):
            _un("the own position handed to _pairwise_indices is not the loop variable", c.args[4])
        return ("WIndices", pv, tv, alpha, ol)

    def indices_member(self, cname, mname):
        fn = self.lazy(cname, mname)
        return self.wbody(cname, T._strip_doc(fn.body), {}, fn)

# ------------------------------------------------------------------------------------
# matrix/cubemeasure.py: _BaseCubeOverlaps.factory
# ------------------------------------------------------------------------------------

def overlaps_factory(text):
    """_BaseCubeOverlaps.factory ->
         (guards: [cube attribute tested `is None` -> raise ValueError],
          dispatch: Coq term of type cond_dispatch, binds: Coq term of type list (string * fsrc))

       [if cube.<m> is None: raise ValueError(...)]*
       <dvar> = tuple(d.dimension_type for d in dimensions)
       <ivar> = cls._slice_idx_expr(cube, slice_idx)
       <avar> = (a0, a1, ...)                       each cube.<x>[<ivar>] / dimensions / cube.<x>
       return (A(*<avar>) if <dvar> == (DT.MR, DT.MR) else B(*<avar>))
    """
    tr = T._Tr(text, M_CUBEMEASURE)
    base = "_BaseCubeOverlaps"
    params = ["cls", "cube", "dimensions", "slice_idx"]
    body = list(tr._classmethod(base, "factory", params))
    guards = []
    while body and isinstance(body[0], ast.If):
        st = body.pop(0)
        t = st.test
        ok = (
            not st.orelse and len(st.body) == 1 and isinstance(st.body[0], ast.Raise)
            and isinstance(st.body[0].exc, ast.Call) and T._is_name(st.body[0].exc.func, "ValueError")
            and isinstance(t, ast.Compare) and len(t.ops) == 1 and isinstance(t.ops[0], ast.Is)
            and isinstance(t.left, ast.Attribute) and T._is_name(t.left.value, "cube")
            and isinstance(t.comparators[0], ast.Constant) and t.comparators[0].value is None
        )
        if not ok:
            _un("%s.factory: guard not read" % base, st)
        guards.append(t.left.attr)
    if len(body) != 4:
        _un("%s.factory: expected 4 statements after the guards" % base)
    s0, s1, s2, s3 = body

    def assign(st):
        if isinstance(st, ast.Assign) and len(st.targets) == 1 and isinstance(st.targets[0], ast.Name) \
                and st.targets[0].id not in params + ["np", "DT", "tuple"]:
            return st.targets[0].id, st.value
        _un("%s.factory: statement not read" % base, st)

    dvar, v0 = assign(s0)
    ivar, v1 = assign(s1)
    avar, v2 = assign(s2)
    if len({dvar, ivar, avar}) != 3:
        _un("%s.factory: a local is assigned twice" % base, s2)
    # tuple(d.dimension_type for d in dimensions)
    ok = (
        isinstance(v0, ast.Call) and T._is_name(v0.func, "tuple") and len(v0.args) == 1 and not v0.keywords
        and isinstance(v0.args[0], ast.GeneratorExp) and len(v0.args[0].generators) == 1
    )
    if ok:
        g = v0.args[0].generators[0]
        ok = (
            not g.ifs and not g.is_async and isinstance(g.target, ast.Name)
            and g.target.id not in params + ["np", "DT", "tuple"]
            and T._is_name(g.iter, "dimensions")
            and T._is_attr(v0.args[0].elt, g.target.id, "dimension_type")
        )
    if not ok:
        _un("%s.factory: dimension types not `tuple(d.dimension_type for d in dimensions)`" % base, s0)
    # cls._slice_idx_expr(cube, slice_idx)
    ok = (
        isinstance(v1, ast.Call) and T._is_attr(v1.func, "cls", "_slice_idx_expr") and len(v1.args) == 2
        and not v1.keywords and T._is_name(v1.args[0], "cube") and T._is_name(v1.args[1], "slice_idx")
    )
    if not ok:
        _un("%s.factory: index expression not cls._slice_idx_expr(cube, slice_idx)" % base, s1)
    if not (isinstance(v2, ast.Tuple) and not any(isinstance(x, ast.Starred) for x in v2.elts)):
        _un("%s.factory: constructor arguments not a tuple" % base, s2)
    # the arguments, with <ivar> put back
    args = []
    for a in v2.elts:
        if isinstance(a, ast.Subscript) and T._is_name(a.slice, ivar):
            a = ast.Subscript(value=a.value, slice=v1, ctx=ast.Load())
        for n in ast.walk(a):
            if isinstance(n, ast.Name) and n.id in (dvar, ivar, avar):
                _un("%s.factory: constructor argument not read" % base, s2)
        args.append(a)
    # return (A(*args) if dvar == (DT.MR, DT.MR) else B(*args))
    if not (isinstance(s3, ast.Return) and isinstance(s3.value, ast.IfExp)):
        _un("%s.factory: return statement not read" % base, s3)
    e = s3.value
    rules, names = [], []

    def ctor(c):
        if (
            isinstance(c, ast.Call) and isinstance(c.func, ast.Name) and not c.keywords and len(c.args) == 1
            and isinstance(c.args[0], ast.Starred) and T._is_name(c.args[0].value, avar)
        ):
            return c.func.id
        _un("%s.factory: alternative is not Cls(*%s)" % (base, avar), c)

    while isinstance(e, ast.IfExp):
        nm = ctor(e.body)
        rules.append("(%s, %s)" % (tr._dcond(e.test, dvar), q(nm)))
        names.append(nm)
        e = e.orelse
    nm = ctor(e)
    names.append(nm)
    dispatch = "(%s, %s)" % (T.coq_list(rules), q(nm))
    tr._same_init(base, names)
    call = ast.Call(func=ast.Name(id=names[0], ctx=ast.Load()), args=args, keywords=[])
    binds = tr._binds(base, call, {}, params)
    return guards, dispatch, binds


# ------------------------------------------------------------------------------------
# measures/pairwise_significance.py: PairwiseSignificance (one column object per displayed column)
# ------------------------------------------------------------------------------------

def p_lwexp(w):
    if w[0] == "LWValues":
        return "LWValues %s" % T.coq_list(w[1])
    if w[0] == "LWMembers":
        return "LWMembers %s (%s)" % (q(w[1]), p_lwexp(w[2]))
    if w[0] == "LWCls":
        return "LWCls %s (%s)" % (T.coq_list(w[1]), p_lwexp(w[2]))
    raise AssertionError(w)


class _LW(object):
    CLS = "PairwiseSignificance"
    COL = "_ColumnPairwiseSignificance"

    def __init__(self, text):
        self.m = MS._Mod(text, M_LEGACY)
        imp = self.m.imported()
        self.problem = None
        if not self.m.only_imports_and_classes():
            self.problem = "module-level statements other than imports and classes"
        for nm, v in (("np", ("numpy", None)), ("lazyproperty", ("cr.cube.util", "lazyproperty"))):
            if imp.get(nm) != v:
                self.problem = "the name %s is not imported as expected" % nm
        for nm in ("range", "tuple"):
            if nm in imp or nm in self.m.classes:
                self.problem = "the builtin %s is shadowed" % nm
        self._fields = None

    def fields(self):
        """PairwiseSignificance.__init__(self, slice_, alpha=.., only_larger=..): field -> role, by position"""
        if self.problem:
            _un(self.problem)
        if self._fields is not None:
            return self._fields
        for c in (self.CLS, self.COL):
            if c not in self.m.classes or len(self.m.mro(c)) != 1:
                _un("class %s not found / has base classes" % c)
        init = self.m.resolve(self.CLS, "__init__")
        a = init.args if init is not None else None
        if init is None or a.vararg or a.kwarg or a.kwonlyargs or a.posonlyargs or init.decorator_list:
            _un("%s.__init__: signature not read" % self.CLS)
        params = [x.arg for x in a.args][1:]
        if len(params) != 3:
            _un("%s.__init__: expected (slice_, alpha, only_larger)" % self.CLS, init)
        role = dict(zip(params, ("LSlice", "LAlpha", "LOnlyLarger")))
        out = {}
        for st in T._strip_doc(init.body):
            if (
                isinstance(st, ast.Assign) and len(st.targets) == 1 and isinstance(st.targets[0], ast.Attribute)
                and T._is_name(st.targets[0].value, "self") and isinstance(st.value, ast.Name)
                and st.value.id in role and st.targets[0].attr not in out
            ):
                out[st.targets[0].attr] = role[st.value.id]
            else:
                _un("%s.__init__: statement not read" % self.CLS, st)
        for mname, fn in self.m.classes[self.CLS].methods.items():
            if mname == "__init__":
                continue
            for n in ast.walk(fn):
                if isinstance(n, ast.Attribute) and isinstance(n.ctx, (ast.Store, ast.Del)) \
                        and T._is_name(n.value, "self") and n.attr in out:
                    _un("%s.%s assigns the field %s" % (self.CLS, mname, n.attr), n)
        # the column class takes (slice_, col_idx, alpha, only_larger): checked by the caller's arity
        cinit = self.m.resolve(self.COL, "__init__")
        if cinit is None or len(cinit.args.args) != 5:
            _un("%s.__init__: expected (slice_, col_idx, alpha, only_larger)" % self.COL)
        self._fields = out
        return out

    def lazy_body(self, mname):
        fn = self.m.resolve(self.CLS, mname)
        if fn is None or not MS._plain_lazy(fn):
            _un("%s.%s is not a plain @lazyproperty" % (self.CLS, mname))
        return T._strip_doc(fn.body), fn

    def values(self, stack=()):
        """self.values -> LWValues args"""
        if "values" in stack:
            _un("values refers to itself")
        flds = self.fields()
        body, fn = self.lazy_body("values")
        if not (len(body) == 1 and isinstance(body[0], ast.Return) and isinstance(body[0].value, ast.ListComp)):
            _un("values is not `return [<column object> for col_idx in range(..)]`", fn)
        lc = body[0].value
        if len(lc.generators) != 1:
            _un("comprehension not read", lc)
        g = lc.generators[0]
        it = g.iter
        ok = (
            not g.ifs and not g.is_async and isinstance(g.target, ast.Name) and g.target.id not in ("self", "np", "range")
            and isinstance(it, ast.Call) and T._is_name(it.func, "range") and len(it.args) == 1 and not it.keywords
            and isinstance(it.args[0], ast.Subscript) and T._nat(it.args[0].slice) == 1
            and isinstance(it.args[0].value, ast.Attribute) and it.args[0].value.attr == "shape"
            and isinstance(it.args[0].value.value, ast.Attribute) and T._is_name(it.args[0].value.value.value, "self")
            and flds.get(it.args[0].value.value.attr) == "LSlice"
        )
        if not ok:
            _un("comprehension is not `for col_idx in range(self.<slice>.shape[1])`", lc)
        c = lc.elt
        if not (isinstance(c, ast.Call) and T._is_name(c.func, self.COL) and not c.keywords and len(c.args) == 4
                and not any(isinstance(a, ast.Starred) for a in c.args)):
            _un("element is not %s(slice, col_idx, alpha, only_larger)" % self.COL, c)
        args = []
        for a in c.args:
            if T._is_name(a, g.target.id):
                args.append("LCol")
            elif isinstance(a, ast.Attribute) and T._is_name(a.value, "self") and a.attr in flds:
                args.append(flds[a.attr])
            else:
                _un("constructor argument not read", a)
        return ("LWValues", args)

    def over_values(self, e, kind):
        """(sig.<m> for sig in self.values) as GeneratorExp (kind 'gen') / ListComp (kind 'list')"""
        want = ast.GeneratorExp if kind == "gen" else ast.ListComp
        if not (isinstance(e, want) and len(e.generators) == 1):
            return None
        g = e.generators[0]
        if g.ifs or g.is_async or not isinstance(g.target, ast.Name) or g.target.id in ("self", "np"):
            return None
        if not T._is_attr(g.iter, "self", "values"):
            return None
        if not (isinstance(e.elt, ast.Attribute) and T._is_name(e.elt.value, g.target.id)):
            return None
        return ("LWMembers", e.elt.attr, self.values())

    def member(self, mname):
        self.fields()
        body, fn = self.lazy_body(mname)
        # return tuple(sig.<m> for sig in self.values)
        if len(body) == 1 and isinstance(body[0], ast.Return) and isinstance(body[0].value, ast.Call):
            c = body[0].value
            if T._is_name(c.func, "tuple") and len(c.args) == 1 and not c.keywords:
                r = self.over_values(c.args[0], "gen")
                if r is not None:
                    return r
        # X = np.empty(self.values[0].t_stats.shape[1], dtype=object); X[:] = [sig.<m> for sig in self.values]; return X
        if len(body) == 3:
            s0, s1, s2 = body
            ok = (
                isinstance(s0, ast.Assign) and len(s0.targets) == 1 and isinstance(s0.targets[0], ast.Name)
                and isinstance(s0.value, ast.Call) and T._is_attr(s0.value.func, "np", "empty")
                and len(s0.value.args) == 1 and [k.arg for k in s0.value.keywords] == ["dtype"]
                and T._is_name(s0.value.keywords[0].value, "object")
            )
            if ok:
                x = s0.targets[0].id
                n = s0.value.args[0]
                # self.values[0].t_stats.shape[1]: the number of columns of the slice
                ok = (
                    isinstance(n, ast.Subscript) and T._nat(n.slice) == 1 and isinstance(n.value, ast.Attribute)
                    and n.value.attr == "shape" and isinstance(n.value.value, ast.Attribute)
                    and n.value.value.attr == "t_stats" and isinstance(n.value.value.value, ast.Subscript)
                    and T._nat(n.value.value.value.slice) == 0
                    and T._is_attr(n.value.value.value.value, "self", "values")
                    and isinstance(s1, ast.Assign) and len(s1.targets) == 1
                    and isinstance(s1.targets[0], ast.Subscript) and T._is_name(s1.targets[0].value, x)
                    and _full_slice(s1.targets[0].slice)
                    and isinstance(s2, ast.Return) and T._is_name(s2.value, x) and x not in ("self", "np")
                )
                if ok:
                    r = self.over_values(s1.value, "list")
                    if r is not None:
                        return r
        _un("%s.%s: body outside the sub-language" % (self.CLS, mname), fn)

    def classmethod_member(self, mname):
        """cls(slice_, alpha, only_larger).<lazyproperty>"""
        self.fields()
        fn = self.m.resolve(self.CLS, mname)
        if fn is None or not (len(fn.decorator_list) == 1 and T._is_name(fn.decorator_list[0], "classmethod")):
            _un("%s.%s is not a @classmethod" % (self.CLS, mname))
        a = fn.args
        params = [x.arg for x in a.args]
        if len(params) != 4 or a.vararg or a.kwarg or a.kwonlyargs or a.defaults or a.posonlyargs:
            _un("%s.%s: signature not read" % (self.CLS, mname), fn)
        role = dict(zip(params[1:], ("LSlice", "LAlpha", "LOnlyLarger")))
        body = T._strip_doc(fn.body)
        if not (len(body) == 1 and isinstance(body[0], ast.Return) and isinstance(body[0].value, ast.Attribute)):
            _un("%s.%s is not `return cls(..).<member>`" % (self.CLS, mname), fn)
        e = body[0].value
        c = e.value
        if not (isinstance(c, ast.Call) and T._is_name(c.func, params[0]) and not c.keywords
                and all(isinstance(x, ast.Name) and x.id in role for x in c.args)):
            _un("%s.%s: constructor call not read" % (self.CLS, mname), fn)
        return ("LWCls", [role[x.id] for x in c.args], self.member(e.attr))


# ------------------------------------------------------------------------------------
# emission
# ------------------------------------------------------------------------------------

HEADER = """(* GENERATED by harness/translate/x_pairwise.py from %s
   -- do not edit; rewritten (only when its text changes) on every check.
   One definition per (class, member) -- for a `blocks`-shaped member one per block:
   [Some <pexp>] = what the source says, read through the whitelist of the translator
   (Base/PairExp.v gives the meaning); [None] = the translator could not read the member (it is
   then tied to the model by the correspondence check only). *)
From Coq Require Import List String QArith ZArith.
From CC Require Import Base.Tensor Base.MeasureExp Base.PairExp Base.PairCtlExp.
Import ListNotations.
Local Close Scope Q_scope.
Local Open Scope string_scope.

"""

# (collection method, identifier stem, members); "blocks"-shaped members give four definitions
WIRED_TARGETS = (
    ("pairwise_t_stats", "PairwiseSigTstats", ("blocks", "_column_bases")),
    ("pairwise_p_vals", "PairwiseSigPvals", ("blocks",)),
    ("pairwise_significance_means_t_stats", "PairwiseMeansSigTStats", ("t_stats", "blocks")),
    ("pairwise_significance_means_p_vals", "PairwiseMeansSigPVals", ("p_vals", "_df", "blocks")),
    ("pairwise_t_stats_for_subvar", "PairwiseSigTStatsForSubvar", ("t_stats", "_hs_t_stats")),
    ("pairwise_p_vals_for_subvar", "PairwiseSigPValsForSubvar", ("p_vals", "_hs_p_vals")),
)
BLOCK_MEMBERS = ("blocks", "_column_bases")
LEGACY_MEMBERS = (
    ("t_stats", "pexp"),
    ("summary_t_stats", "pexp"), ("_df", "pexp"), ("summary_p_vals", "pexp"),
    ("summary_pairwise_indices", "bvexp"),
    ("t_stats_scale_means", "pexp"), ("_two_sample_df", "pexp"), ("p_vals_scale_means", "pexp"),
    ("scale_mean_pairwise_indices", "bvexp"),
)
HELPER_MEMBERS = ("t_stats", "p_vals", "_df")


def _emit_member(tr, L, report, modname, ident_stem, what, thunk, blocks):
    """thunk() -> abstract value; emits one or four definitions"""
    idents = (
        [("%s_%d%d" % (ident_stem, i, j), (i, j)) for i in (0, 1) for j in (0, 1)]
        if blocks else [(ident_stem, None)]
    )
    val, err = None, None
    try:
        val = thunk()
        if blocks and val[0] != "blocks":
            _un("the member is not a 2x2 structure of the sub-language")
    except Unavailable as ex:
        val, err = None, ex
    for ident, ij in idents:
        term, e2 = "None", err
        if val is not None:
            try:
                t = val[1][ij[0]][ij[1]] if ij is not None else tr.arr(val, None)
                term = "Some (%s)" % p_pexp(t)
            except Unavailable as ex:
                e2 = ex
        w = what if ij is None else "%s[%d][%d]" % (what, ij[0], ij[1])
        if term == "None":
            report["unavailable"].append({"method": "%s:%s" % (modname, w), "reason": str(e2)})
            L.append("(* %s not read: %s *)" % (w, T._coq_comment(str(e2))))
        else:
            report["methods_translated"].append("%s:%s" % (modname, w))
        L.append("Definition %s : option pexp := %s." % (ident, term))


def _gen(texts, report):
    L = []
    # ---- matrix/measure.py
    modname = "pairwise-measure"
    tr, tr_err = None, None
    try:
        tr = _PW(texts[M_MATRIX], texts[M_SUBTOTALS])
    except Exception as ex:  # SyntaxError, missing file
        tr_err = ex

    def unavailable_all(stem, members, reason):
        for m in members:
            n = 4 if m in BLOCK_MEMBERS else 1
            for k in range(n):
                ident = "src_%s_%s" % (stem, m) + ("_%d%d" % (k // 2, k % 2) if n == 4 else "")
                w = "%s.%s" % (stem, m) + ("[%d][%d]" % (k // 2, k % 2) if n == 4 else "")
                report["unavailable"].append({"method": "%s:%s" % (modname, w), "reason": reason})
                L.append("(* %s not read: %s *)" % (w, T._coq_comment(reason)))
                L.append("Definition %s : option pexp := None." % ident)

    for prop, stem, members in WIRED_TARGETS:
        L.append("(** * SecondOrderMeasures.%s(<selected column>) *)" % prop)
        if tr is None:
            unavailable_all(stem, members, "module not read: %r" % (tr_err,))
            L.append("")
            continue
        try:
            cname, fields = tr.wiring_method(prop)
            L.append("(* constructs %s *)" % cname)
        except Unavailable as ex:
            unavailable_all(stem, members, str(ex))
            L.append("")
            continue
        for m in members:
            _emit_member(
                tr, L, report, modname, "src_%s_%s" % (stem, m), "%s.%s" % (cname, m),
                (lambda cname=cname, fields=fields, m=m: tr.member(cname, fields, m)),
                m in BLOCK_MEMBERS,
            )
        L.append("")
    # residual p-values (C12): SecondOrderMeasures.pvalues, a lazyproperty
    L.append("(** * SecondOrderMeasures.pvalues *)")
    if tr is None:
        unavailable_all("Pvalues", ("blocks",), "module not read: %r" % (tr_err,))
    else:
        try:
            cname, fields = tr.wiring("pvalues")
            L.append("(* constructs %s *)" % cname)
            _emit_member(
                tr, L, report, modname, "src_Pvalues_blocks", "%s.blocks" % cname,
                (lambda cname=cname, fields=fields: tr.member(cname, fields, "blocks")), True,
            )
        except Unavailable as ex:
            unavailable_all("Pvalues", ("blocks",), str(ex))
    L.append("")
    L.append("(** * %s(column_proportions, selected_bases, valid_bases, row_idx, idx_a, idx_b) *)" % HELPER)
    if tr is None:
        unavailable_all("OverlapHelper", HELPER_MEMBERS, "module not read: %r" % (tr_err,))
    else:
        try:
            cname, fields = tr.helper_standalone()
            for m in HELPER_MEMBERS:
                _emit_member(
                    tr, L, report, modname, "src_OverlapHelper_%s" % m, "%s.%s" % (cname, m),
                    (lambda cname=cname, fields=fields, m=m: tr.member(cname, fields, m)), False,
                )
        except Unavailable as ex:
            unavailable_all("OverlapHelper", HELPER_MEMBERS, str(ex))
    L.append("")
    # ---- measures/pairwise_significance.py
    L.append("(** * measures/pairwise_significance.py: _ColumnPairwiseSignificance(slice_, col_idx, alpha, only_larger) *)")
    modname = "pairwise-legacy"
    LEG = "_ColumnPairwiseSignificance"
    lt, fields, lerr = None, None, None
    try:
        lt = _PW(texts[M_LEGACY], "", legacy=True)
        fields = lt.legacy_fields(LEG)
    except Unavailable as ex:
        lerr = str(ex)
    except Exception as ex:
        lerr = repr(ex)
    for m, ty in LEGACY_MEMBERS:
        ident = "src_Legacy_%s" % m
        what = "%s.%s" % (LEG, m)
        term = "None"
        try:
            if lerr is not None:
                raise Unavailable(lerr)
            v = lt.member(LEG, fields, m)
            if ty == "bvexp":
                if v[0] != "where1":
                    _un("the member is not tuple(np.where(<boolean vector>)[0])")
                term = "Some (%s)" % p_bvexp(v[1])
            else:
                term = "Some (%s)" % p_pexp(lt.arr(v, None))
            report["methods_translated"].append("%s:%s" % (modname, what))
        except Unavailable as ex:
            report["unavailable"].append({"method": "%s:%s" % (modname, what), "reason": str(ex)})
            L.append("(* %s not read: %s *)" % (what, T._coq_comment(str(ex))))
        except Exception as ex:
            report["unavailable"].append({"method": "%s:%s" % (modname, what), "reason": repr(ex)})
            L.append("(* %s not read: %s *)" % (what, T._coq_comment(repr(ex))))
        L.append("Definition %s : option %s := %s." % (ident, ty, term))
    L.append("")
    # ---- PairwiseSignificance: one column object per displayed column
    L.append("(** * measures/pairwise_significance.py: PairwiseSignificance(slice_, alpha, only_larger) *)")
    lw, lw_err = None, None
    try:
        lw = _LW(texts[M_LEGACY])
    except Exception as ex:
        lw_err = ex
    LWT = (
        ("src_PairwiseSignificance__scale_mean_pairwise_indices", "PairwiseSignificance._scale_mean_pairwise_indices",
         lambda: lw.member("_scale_mean_pairwise_indices")),
        ("src_PairwiseSignificance_summary_pairwise_indices", "PairwiseSignificance.summary_pairwise_indices",
         lambda: lw.member("summary_pairwise_indices")),
        ("src_PairwiseSignificance_scale_mean_pairwise_indices", "PairwiseSignificance.scale_mean_pairwise_indices",
         lambda: lw.classmethod_member("scale_mean_pairwise_indices")),
    )
    for ident, what, thunk in LWT:
        try:
            if lw is None:
                raise Unavailable("module not read: %r" % (lw_err,))
            term = "Some (%s)" % p_lwexp(thunk())
            report["methods_translated"].append("%s:%s" % (modname, what))
        except Unavailable as ex:
            term = "None"
            report["unavailable"].append({"method": "%s:%s" % (modname, what), "reason": str(ex)})
            L.append("(* %s not read: %s *)" % (what, T._coq_comment(str(ex))))
        except Exception as ex:
            term = "None"
            report["unavailable"].append({"method": "%s:%s" % (modname, what), "reason": repr(ex)})
            L.append("(* %s not read: %s *)" % (what, T._coq_comment(repr(ex))))
        L.append("Definition %s : option lwexp := %s." % (ident, term))
    L.append("")
    # ---- matrix/cubemeasure.py: the overlaps factory
    L.append("(** * matrix/cubemeasure.py: _BaseCubeOverlaps.factory *)")
    modname = "pairwise-cubemeasure"
    what = "_BaseCubeOverlaps.factory"
    fac = None
    try:
        fac = overlaps_factory(texts[M_CUBEMEASURE])
        report["methods_translated"].append("%s:%s" % (modname, what))
    except Unavailable as ex:
        report["unavailable"].append({"method": "%s:%s" % (modname, what), "reason": str(ex)})
        L.append("(* %s not read: %s *)" % (what, T._coq_comment(str(ex))))
    except Exception as ex:
        report["unavailable"].append({"method": "%s:%s" % (modname, what), "reason": repr(ex)})
        L.append("(* %s not read: %s *)" % (what, T._coq_comment(repr(ex))))
    L.append("Definition src_CubeOverlaps_guards : option (list string) := %s."
             % ("None" if fac is None else "Some (%s)" % T.coq_list([q(g) for g in fac[0]])))
    L.append("Definition src_CubeOverlaps_dispatch : option (cond_dispatch) := %s."
             % ("None" if fac is None else "Some (%s)" % fac[1]))
    L.append("Definition src_CubeOverlaps_binds : option (list (string * fsrc)) := %s."
             % ("None" if fac is None else "Some (%s)" % fac[2]))
    L.append("")
    # ---- cubepart.py
    L.append("(** * cubepart._Slice._pairwise_indices(p_vals, t_stats, alpha, only_larger, col_idx) *)")
    modname = "pairwise-cubepart"
    what = "_Slice._pairwise_indices"
    try:
        ix = _Idx(texts[M_CUBEPART])
        fn = ix.m.resolve("_Slice", "_pairwise_indices")
        term = ix.translate("_Slice", "_pairwise_indices")
        ix.check_not_rebound(fn)
        L.append("Definition psrc_Slice__pairwise_indices : option bmexp := Some (%s)." % p_bmexp(term))
        report["methods_translated"].append("%s:%s" % (modname, what))
    except Unavailable as ex:
        report["unavailable"].append({"method": "%s:%s" % (modname, what), "reason": str(ex)})
        L.append("(* %s not read: %s *)" % (what, T._coq_comment(str(ex))))
        L.append("Definition psrc_Slice__pairwise_indices : option bmexp := None.")
    except Exception as ex:
        report["unavailable"].append({"method": "%s:%s" % (modname, what), "reason": repr(ex)})
        L.append("(* %s not read: %s *)" % (what, T._coq_comment(repr(ex))))
        L.append("Definition psrc_Slice__pairwise_indices : option bmexp := None.")
    L.append("")
    # control flow: alpha parsing, only_larger, which arguments the index sets are computed from
    L.append("(** * cubepart.py: _alpha_values, _only_larger, pairwise_indices(_alt), pairwise_means_indices(_alt) *)")
    ctl, ctl_err = None, None
    try:
        ctl = _Ctl(texts[M_CUBEPART])
    except Exception as ex:
        ctl_err = ex
    CTL = (
        ("psrc_CubePartition__alpha_values", "jexp", "CubePartition._alpha_values",
         lambda: p_jexp(ctl.alpha_values("_Slice"))),
        ("psrc_CubePartition__alpha", "nat", "CubePartition._alpha",
         lambda: "%d" % ctl.proj_member("_Slice", "_alpha", "_alpha_values")),
        ("psrc_CubePartition__alpha_alt", "nat", "CubePartition._alpha_alt",
         lambda: "%d" % ctl.proj_member("_Slice", "_alpha_alt", "_alpha_values")),
        ("psrc_CubePartition__only_larger", "olexp", "CubePartition._only_larger",
         lambda: "%s %s %s %s" % ((lambda r: (r[0],) + tuple("true" if b else "false" for b in r[1:]))(ctl.only_larger("_Slice")))),
        ("psrc_Slice__cube_has_overlaps", "rcond", "_Slice._cube_has_overlaps",
         lambda: p_rcond(ctl.bool_member("_Slice", "_cube_has_overlaps"))),
        ("psrc_Slice__pairwise_significance_p_vals", "dexp", "_Slice._pairwise_significance_p_vals",
         lambda: p_dexp(ctl.route_member("_Slice", "_pairwise_significance_p_vals"))),
        ("psrc_Slice__pairwise_significance_t_stats", "dexp", "_Slice._pairwise_significance_t_stats",
         lambda: p_dexp(ctl.route_member("_Slice", "_pairwise_significance_t_stats"))),
        ("psrc_Slice__pairwise_significance_means_p_vals", "dexp", "_Slice._pairwise_significance_means_p_vals",
         lambda: p_dexp(ctl.route_member("_Slice", "_pairwise_significance_means_p_vals"))),
        ("psrc_Slice__pairwise_significance_means_t_stats", "dexp", "_Slice._pairwise_significance_means_t_stats",
         lambda: p_dexp(ctl.route_member("_Slice", "_pairwise_significance_means_t_stats"))),
        ("psrc_Slice_pairwise_indices", "wexp", "_Slice.pairwise_indices",
         lambda: p_wexp(ctl.indices_member("_Slice", "pairwise_indices"))),
        ("psrc_Slice_pairwise_indices_alt", "wexp", "_Slice.pairwise_indices_alt",
         lambda: p_wexp(ctl.indices_member("_Slice", "pairwise_indices_alt"))),
        ("psrc_Slice_pairwise_means_indices", "wexp", "_Slice.pairwise_means_indices",
         lambda: p_wexp(ctl.indices_member("_Slice", "pairwise_means_indices"))),
        ("psrc_Slice_pairwise_means_indices_alt", "wexp", "_Slice.pairwise_means_indices_alt",
         lambda: p_wexp(ctl.indices_member("_Slice", "pairwise_means_indices_alt"))),
    )
    for ident, ty, what, thunk in CTL:
        try:
            if ctl is None:
                raise Unavailable("module not read: %r" % (ctl_err,))
            term = "Some (%s)" % thunk()
            report["methods_translated"].append("%s:%s" % (modname, what))
        except Unavailable as ex:
            term = "None"
            report["unavailable"].append({"method": "%s:%s" % (modname, what), "reason": str(ex)})
            L.append("(* %s not read: %s *)" % (what, T._coq_comment(str(ex))))
        except Exception as ex:  # a bug of ours: fail closed for this member
            term = "None"
            report["unavailable"].append({"method": "%s:%s" % (modname, what), "reason": repr(ex)})
            L.append("(* %s not read: %s *)" % (what, T._coq_comment(repr(ex))))
        L.append("Definition %s : option %s := %s." % (ident, ty, term))
    L.append("")
    srcs = ", ".join("src/" + r for r in (M_MATRIX, M_LEGACY, M_CUBEPART))
    return HEADER % srcs + "\n".join(L) + "\n"


def regenerate(repo_src, gen_dir, report):
    """Adds Gen/PairwiseSrc.v; extends `report`."""
    report["x_pairwise_version"] = VERSION
    texts = {}
    for rel in (M_MATRIX, M_SUBTOTALS, M_LEGACY, M_CUBEPART, M_CUBEMEASURE):
        p = os.path.join(repo_src, rel)
        try:
            with open(p, encoding="utf-8") as f:
                texts[rel] = f.read()
            report["files"]["src/" + rel] = T._sha(texts[rel])
        except (OSError, UnicodeDecodeError) as ex:
            texts[rel] = None
            report["files"].setdefault("src/" + rel, None)
            report["errors"].append("cannot read %s: %r" % (rel, ex))
    text = _gen(texts, report)
    os.makedirs(gen_dir, exist_ok=True)
    changed = T._write_if_changed(os.path.join(gen_dir, "PairwiseSrc.v"), text)
    report["gen_files"]["Gen/PairwiseSrc.v"] = {"sha256": T._sha(text), "rewritten": changed}
    return report


if __name__ == "__main__":  # manual run: python -m harness.translate.x_pairwise <repo_src> <gen_dir>
    import json
    import sys

    rep = {"files": {}, "errors": [], "gen_files": {}, "methods_translated": [], "unavailable": []}
    regenerate(sys.argv[1], sys.argv[2], rep)
    json.dump(rep, sys.stdout, indent=1)
