"""Source translator for src/cr/cube/cube.py -> coq/Gen/CubeSrc.v  (workstream `cube`, SHALLOW).

Every member of CubeSet, Cube, _Measures and the concrete classes of the _BaseMeasure family (inheritance
flattened, virtual dispatch resolved per concrete class) is read with `ast` through a WHITELIST and written
out as a Gallina FUNCTION over the fixed Python-semantics combinators of coq/Base/PyList.v, coq/Base/PyJson.v
(JSON values, the exception monad `pres`) and coq/Model/PyCube.v (the objects of cube.py as records, the
little numpy it uses).  Anything outside the whitelist makes THAT member `None` (+ `NOTE
translator-unavailable`) and every member that reads it `None` too; nothing is guessed or repaired.

    Definition src_<Class>_<member> : option (pyext -> <self> -> <params> -> pres <result>) :=
      match src_<Class'>_<dep> with Some m_<Class'>_<dep> => ...     (the members it reads)
        Some (fun X self <params> => <body>)
      | None => None end.

`X : pyext` stands for what cube.py calls in other modules (Dimensions.from_dicts, json.loads).  The
translator is TYPE-directed by the signature tables below (what a member takes / returns); BODIES and the
wiring between members (incl. every argument of every `Cube(..)`, `_Measures(..)`, `_XxxMeasure(..)`,
`CubePartition.factory(..)` call, positional or keyword, defaults read from the callee's signature) come from
the source.  Every operation that may raise is sequenced with `pbind` in Python's evaluation order.  An `if`
statement that falls through is translated with the rest of the block in BOTH branches.  In-place edits are
read only on objects the member has just built itself (a display, a comprehension, `[x] * n`, `dict(..)`) and
only before that object is used as a value; an in-place edit of anything else (the caller's response ..) is
outside the whitelist.

Proofs/GenAgreeCube*.v prove, for all inputs, that each generated function is the corresponding definition of
Model/Population.v, Partition.v, CubeCounts.v, History.v.
"""
import ast
import os

from harness.translate import translate as T

VERSION = "x_cube.py/1"
SRC = "cr/cube/cube.py"
ENUMS = "cr/cube/enums.py"
CUBEPART = "cr/cube/cubepart.py"
GEN_FILES = ("CubeSrc.v",)
MODNAME = "cube"

TRUSTED_BASE = (
    "the members of cube.py named by the C01_gen_cube_* / C06_gen_cube_* / C17_gen_cube_* / C18_gen_cube_* theorems are "
    "tied to the source text by the SHALLOW whitelist translator harness/translate/x_cube.py: what is trusted is its "
    "reading of Python into the combinators of Base/PyList.v + Base/PyJson.v + Model/PyCube.v (JSON values as an "
    "inductive type, ints as Z, floats as exact extended rationals; dicts as insertion-ordered association lists; "
    "exceptions as the pres monad in Python's evaluation order; a frozenset as the list of its first mentions - the "
    "order of `tuple(frozenset)` is hash order in Python, it matters only when a response carries two numeric "
    "measures; a value that is only ever tested for truth is read as its truth value; np.array of nested lists / "
    "numeral strings and str.title() beyond ASCII are not modelled) and the per-member signature table of the "
    "translator (types only; bodies and the arguments of every constructor / factory call come from the source); "
    "what cube.py calls in other modules is a parameter: Dimensions.from_dicts and json.loads are fields of the "
    "environment pyext every lemma quantifies over, a Dimension / Dimensions object is the record of the attributes "
    "cube.py reads (pydims_of = Model/CubeCounts.v's reading of dimension.py, which stays tied by the correspondence)")


class Unavailable(Exception):
    pass


def _un(msg, node=None):
    if node is not None and hasattr(node, "lineno"):
        msg = "%s (line %d)" % (msg, node.lineno)
    raise Unavailable(msg)


# ------------------------------------------------------------------------------------------------
# types
# ------------------------------------------------------------------------------------------------
J = ("json",)
Z = ("Z",)
BOOL = ("bool",)
STR = ("str",)
CM = ("cm",)            # a CUBE_MEASURE member, as its value string
DTYPE = ("dtype",)
CUBE = ("cube",)
MEAS = ("measures",)
DIMS = ("dims",)
DIM = ("dim",)
VELEMS = ("velems",)    # Dimension.valid_elements
ARR = ("arr",)
GRID = ("grid",)
GRIDC = ("gridc",)      # one component of an index grid
FCALL = ("fcall",)
CUBESET = ("cubeset",)
NONE = ("none",)        # the literal None
ANY = ("any",)


def BM(*classes):
    return ("bm", frozenset(classes))


def L(t):
    return ("list", t)


def OPT(t):
    return ("opt", t)


def TUP(*ts):
    return ("tup", tuple(ts))


_COQ_ATOM = {
    "json": "json", "Z": "Z", "bool": "bool", "str": "string", "cm": "string", "dtype": "dtype", "cube": "pycube",
    "measures": "pymeasures", "dims": "pydims", "dim": "pydim", "velems": "list Z", "arr": "pyarr", "grid": "ixgrid", "gridc": "(nat * list Z)",
    "fcall": "pyfactory", "cubeset": "pycubeset", "bm": "pymeasure",
}


def coq_ty(t):
    k = t[0]
    if k in _COQ_ATOM:
        return _COQ_ATOM[k]
    if k == "list":
        return "list (%s)" % coq_ty(t[1])
    if k == "opt":
        return "option (%s)" % coq_ty(t[1])
    if k == "tup":
        return "(%s)" % " * ".join(coq_ty(x) for x in t[1])
    _un("type without Coq rendering: %r" % (t,))


def eqb_of(t):
    k = t[0]
    if k == "Z":
        return "Z.eqb"
    if k in ("str", "cm"):
        return "String.eqb"
    if k == "json":
        return "json_eqb"
    if k == "dtype":
        return "dtype_eqb"
    if k == "bool":
        return "Bool.eqb"
    _un("no equality for type %r" % (t,))


def join(a, b):
    """the type both values can be read at (coercions: `coerce`)"""
    if a == b:
        return a
    if a == ANY:
        return b
    if b == ANY:
        return a
    if a == NONE:
        return b if b[0] in ("opt", "json") else OPT(b)
    if b == NONE:
        return join(b, a)
    if a[0] == "opt" or b[0] == "opt":
        ia = a[1] if a[0] == "opt" else a
        ib = b[1] if b[0] == "opt" else b
        return OPT(join(ia, ib))
    if a[0] == b[0] == "bm":
        return ("bm", a[1] | b[1])
    if a[0] == b[0] == "list":
        return L(join(a[1], b[1]))
    if a[0] == b[0] == "tup" and len(a[1]) == len(b[1]):
        return ("tup", tuple(join(x, y) for x, y in zip(a[1], b[1])))
    if J in (a, b):
        o = b if a == J else a
        if o in (Z, BOOL, STR, CM) or (o[0] == "list" and o[1] in (J, ANY)) or o == OPT(Z):
            return J
    _un("types do not agree: %r / %r" % (a, b))


def coerce(term, frm, to):
    """term of type frm used where `to` is expected: (term, type)"""
    if to is None or to == ANY or frm == to:
        return term, frm
    if frm == ANY:
        return term, to
    if frm == NONE:
        if to == J:
            return "JNull", J
        if to[0] == "opt":
            return "None", to
    if to == J:
        if frm == Z:
            return "(JInt %s)" % term, J
        if frm == BOOL:
            return "(JBool %s)" % term, J
        if frm in (STR, CM):
            return "(JStr %s)" % term, J
        if frm[0] == "list" and frm[1] in (J, ANY):
            return "(JList %s)" % term, J
        if frm == OPT(Z):
            return "(opt_json_Z %s)" % term, J
    if to[0] == "opt" and frm[0] != "opt":
        t, ty = coerce(term, frm, to[1])
        return "(Some %s)" % t, OPT(ty)
    if to[0] == "opt" and frm[0] == "opt":
        if frm[1] == to[1] or frm[1] == ANY:
            return term, to
        if frm[1][0] == to[1][0] == "bm" and frm[1][1] <= to[1][1]:
            return term, to
    if frm[0] == to[0] == "bm" and frm[1] <= to[1]:
        return term, to
    if frm[0] == to[0] == "list":
        if frm[1] == ANY or frm[1] == to[1]:
            return term, to
        if to[1] == J and frm[1] in (Z, STR, CM, BOOL):
            c, _ = coerce("x", frm[1], J)
            return "(map (fun x => %s) %s)" % (c, term), to
        if to[1] == STR and frm[1] == CM or to[1] == CM and frm[1] == STR:
            return term, to
    if (frm, to) in ((STR, CM), (CM, STR)):
        return term, to
    if frm == VELEMS and to == L(Z):
        return term, to
    if (frm, to) in ((L(GRIDC), GRID), (GRID, L(GRIDC))):
        return term, to
    _un("a value of type %r is used where %r is expected" % (frm, to))


# ------------------------------------------------------------------------------------------------
# the classes and what their objects store
# ------------------------------------------------------------------------------------------------
MEASURE_CLASSES = {
    "_CovarianceMeasure": "MC_Covariance", "_MeanMeasure": "MC_Mean", "_MediansMeasure": "MC_Medians",
    "_OverlapMeasure": "MC_Overlap", "_StdDevMeasure": "MC_StdDev", "_SumMeasure": "MC_Sum",
    "_UnweightedCountMeasure": "MC_UnweightedCount", "_UnweightedValidCountsMeasure": "MC_UnweightedValidCounts",
    "_ValidOverlapMeasure": "MC_ValidOverlap", "_WeightedCountMeasure": "MC_WeightedCount",
    "_WeightedSquaredCountsMeasure": "MC_WeightedSquaredCounts", "_WeightedValidCountsMeasure": "MC_WeightedValidCounts",
}

# class -> (type of its objects, Coq record, constructor term, [(attribute, projection, type)], {parameter: type})
CLASSES = {
    "Cube": (CUBE, "pycube", "mkPyCube",
             (("_cube_response_arg", "pc_cube_response_arg", J), ("_transforms_dict", "pc_transforms_dict", J),
              ("_cube_idx_arg", "pc_cube_idx_arg", OPT(Z)), ("_population", "pc_population", J),
              ("_mask_size", "pc_mask_size", Z)),
             {"response": J, "cube_idx": OPT(Z), "transforms": J, "population": J, "mask_size": Z}),
    "_Measures": (MEAS, "pymeasures", "mkPyMeasures",
                  (("_cube_dict", "pm_cube_dict", J), ("_all_dimensions", "pm_all_dimensions", DIMS),
                   ("_cube_idx_arg", "pm_cube_idx_arg", OPT(Z))),
                  {"cube_dict": J, "all_dimensions": DIMS, "cube_idx_arg": OPT(Z)}),
    "CubeSet": (CUBESET, "pycubeset", "mkPyCubeSet",
                (("_cube_responses", "cs_cube_responses", L(J)), ("_transforms_dicts", "cs_transforms_dicts", J),
                 ("_population", "cs_population", J), ("_min_base", "cs_min_base", Z)),
                {"cube_responses": L(J), "transforms": J, "population": J, "min_base": Z}),
}
for _c, _mc in MEASURE_CLASSES.items():
    CLASSES[_c] = (BM(_c), "pymeasure", "mkPyMeasure %s" % _mc,
                   (("_cube_dict", "bm_cube_dict", J), ("_all_dimensions", "bm_all_dimensions", DIMS),
                    ("_cube_idx_arg", "bm_cube_idx_arg", OPT(Z))),
                   {"cube_dict": J, "all_dimensions": DIMS, "cube_idx_arg": OPT(Z)})

# CubePartition.factory(cube, slice_idx, transforms, population, ca_as_0th, mask_size): record field order and types
FACTORY_FIELDS = (("cube", CUBE), ("slice_idx", Z), ("transforms", J), ("population", J),
                  ("ca_as_0th", OPT(BOOL)), ("mask_size", Z))

# (type, attribute) of a value that is no object of cube.py -> (Coq projection, type)
ATTRS = {
    (DIM, "dimension_type"): ("pd_dimension_type", DTYPE),
    (DIM, "valid_elements"): ("pd_valid_idxs", VELEMS),
    (DIM, "name"): ("pd_name", J),
    (DIM, "description"): ("pd_description", J),
    (VELEMS, "element_idxs"): ("", L(Z)),
    (DIMS, "apparent_dimensions"): ("pds_apparent", L(DIM)),
    (DIMS, "shape"): ("pds_shape", L(Z)),
    (DIMS, "dimension_order"): ("pds_dimension_order", L(Z)),
    (CM, "value"): ("", STR),
}

# member -> (parameters after self, result type); every member but __init__ returns `pres <result>`
_CUBE_MEMBERS = {
    "available_measures": ((), L(CM)),
    "augment_response": ((("summary_cube_resp", J),), CUBE),
    "counts": ((), ARR),
    "counts_with_missings": ((), OPT(ARR)),
    "cube_index": ((), Z),
    "description": ((), J),
    "dimension_types": ((), L(DTYPE)),
    "dimensions": ((), L(DIM)),
    "inflate": ((), CUBE),
    "has_weighted_counts": ((), BOOL),
    "is_single_filter_col_cube": ((), J),
    "means": ((), OPT(ARR)),
    "medians": ((), OPT(ARR)),
    "missing": ((), J),
    "name": ((), J),
    "ndim": ((), Z),
    "n_responses": ((), J),
    "overlaps": ((), OPT(ARR)),
    "partitions": ((), L(FCALL)),
    "population_fraction": ((), J),
    "stddev": ((), OPT(ARR)),
    "sums": ((), OPT(ARR)),
    "title": ((), J),
    "unweighted_counts": ((), ARR),
    "unweighted_valid_counts": ((), OPT(ARR)),
    "valid_overlaps": ((), OPT(ARR)),
    "weighted_counts": ((), OPT(ARR)),
    "weighted_valid_counts": ((), OPT(ARR)),
    "weighted_squared_counts": ((), OPT(ARR)),
    "_all_dimensions": ((), DIMS),
    "_available_numeric_measures": ((), L(CM)),
    "_ca_as_0th": ((), BOOL),
    "_cube_response": ((), J),
    "_measures": ((), MEAS),
    "_numeric_measure_references": ((), J),
    "_numeric_measure_subvariables": ((), J),
    "_numeric_array_dimension": ((), J),
    "_slice_idxs": ((), L(Z)),
    "_valid_idxs": ((), GRID),
}
_MEASURES_MEMBERS = {
    "means": ((), OPT(BM("_MeanMeasure"))),
    "medians": ((), OPT(BM("_MediansMeasure"))),
    "missing_count": ((), J),
    "overlaps": ((), OPT(BM("_OverlapMeasure"))),
    "population_fraction": ((), J),
    "stddev": ((), OPT(BM("_StdDevMeasure"))),
    "sums": ((), OPT(BM("_SumMeasure"))),
    "unweighted_counts": ((), BM("_UnweightedCountMeasure")),
    "unweighted_valid_counts": ((), OPT(BM("_UnweightedValidCountsMeasure"))),
    "valid_overlaps": ((), OPT(BM("_ValidOverlapMeasure"))),
    "weighted_counts": ((), OPT(BM("_WeightedCountMeasure"))),
    "weighted_valid_counts": ((), OPT(BM("_WeightedValidCountsMeasure"))),
    "weighted_squared_counts": ((), OPT(BM("_WeightedSquaredCountsMeasure"))),
}
_BM_MEMBERS = {
    "raw_cube_array": ((), OPT(ARR)),
    "_flat_values": ((), OPT(ARR)),
    "_shape": ((), L(Z)),
    "missing_count": ((), J),
    "_measure_payload": ((), J),
}
_CUBESET_MEMBERS = {
    "available_measures": ((), L(CM)),
    "can_show_pairwise": ((), BOOL),
    "description": ((), J),
    "has_numeric_measures": ((), BOOL),
    "has_weighted_counts": ((), BOOL),
    "is_ca_as_0th": ((), BOOL),
    "missing_count": ((), J),
    "name": ((), J),
    "partition_sets": ((), L(L(FCALL))),
    "population_fraction": ((), J),
    "n_responses": ((), J),
    "_cubes": ((), L(CUBE)),
    "_is_multi_cube": ((), BOOL),
    "_is_numeric_measure": ((), BOOL),
}
MEMBERS = {"Cube": _CUBE_MEMBERS, "_Measures": _MEASURES_MEMBERS, "CubeSet": _CUBESET_MEMBERS}
for _c in MEASURE_CLASSES:
    MEMBERS[_c] = _BM_MEMBERS

# the members the agreement lemmas name: each gets a definition on every run (`None` when the class no
# longer has it), so that Proofs/GenAgreeCube*.v always compiles.  Members of cube.py outside the workstream
# (covariance, valid_counts_summary_range, __repr__) are not read.
_COUNT_CLASSES = ("_UnweightedCountMeasure", "_WeightedCountMeasure", "_UnweightedValidCountsMeasure",
                  "_WeightedValidCountsMeasure")
_NUMERIC_CLASSES = ("_MeanMeasure", "_SumMeasure", "_StdDevMeasure", "_OverlapMeasure", "_ValidOverlapMeasure")
EXPECTED = [("Cube", "__init__"), ("_Measures", "__init__"), ("CubeSet", "__init__")]
EXPECTED += [("_Measures", m) for m in sorted(_MEASURES_MEMBERS)]
for _c in _COUNT_CLASSES + _NUMERIC_CLASSES:
    EXPECTED += [(_c, "__init__"), (_c, "_flat_values"), (_c, "_shape"), (_c, "raw_cube_array")]
EXPECTED += [("_MeanMeasure", "missing_count"), ("_UnweightedValidCountsMeasure", "missing_count")]
EXPECTED += [("Cube", m) for m in sorted(_CUBE_MEMBERS) if m != "medians"]
EXPECTED += [("CubeSet", m) for m in sorted(_CUBESET_MEMBERS)]

DT_COQ = {
    "BINNED_NUMERIC": "TBinned", "CAT": "TCat", "CAT_DATE": "TCatDate", "CA_CAT": "TCaCat", "CA_SUBVAR": "TCaSubvar",
    "DATETIME": "TDatetime", "LOGICAL": "TLogical", "MR_CAT": "TMrCat", "MR_SUBVAR": "TMrSubvar",
    "NUM_ARRAY": "TNumArr", "TEXT": "TText",
}
EXN_COQ = {
    "KeyError": "EKey", "TypeError": "EType", "AttributeError": "EAttr", "IndexError": "EIndex",
    "ValueError": "EValue", "ZeroDivisionError": "EZeroDiv", "NotImplementedError": "ENotImpl",
}


def lname(n):
    return "_" if n == "_" else "l_" + n


def _is_str_const(n):
    return isinstance(n, ast.Constant) and isinstance(n.value, str)


def _coq_string(s):
    if not all(32 <= ord(c) < 127 for c in s) or '"' in s:
        _un("string constant outside printable ASCII")
    return '"%s"%%string' % s


def cname(cls):
    """class name as part of a Coq identifier"""
    return cls


# ------------------------------------------------------------------------------------------------
# the source modules
# ------------------------------------------------------------------------------------------------
class _Module(object):
    def __init__(self, text, enums_text, cubepart_text):
        tree = ast.parse(text)
        self.classes = {}
        for n in tree.body:
            if isinstance(n, ast.ClassDef):
                self.classes[n.name] = n
        self.enums_text, self.cubepart_text = enums_text, cubepart_text
        self._enums = None
        self._factory = None

    def mro(self, cls):
        out, seen = [], set()
        while cls in self.classes and cls not in seen:
            seen.add(cls)
            out.append(cls)
            c = self.classes[cls]
            if len(c.bases) == 0:
                break
            if len(c.bases) != 1 or not isinstance(c.bases[0], ast.Name) or c.keywords:
                _un("class %s: bases not read" % cls)
            cls = c.bases[0].id
            if cls not in self.classes:
                _un("class %s: base `%s` is not a class of cube.py" % (out[-1], cls))
        return out

    def functions(self, cls):
        return [n for n in self.classes[cls].body if isinstance(n, ast.FunctionDef)]

    def resolve(self, concrete, member):
        if concrete not in self.classes:
            return None, None
        for c in self.mro(concrete):
            defs = [f for f in self.functions(c) if f.name == member]
            if len(defs) > 1:
                _un("%s.%s defined twice" % (c, member))
            if defs:
                return c, defs[0]
        return None, None

    # -- enums.py ---------------------------------------------------------------------------------
    def enums(self):
        """{"CM": {NAME: value}, "CM_NUMERIC": [values], "DT": {name: canonical member}, "DT_SETS": {name: [members]}}"""
        if self._enums is not None:
            if isinstance(self._enums, Unavailable):
                raise self._enums
            return self._enums
        try:
            self._enums = self._read_enums()
        except Unavailable as ex:
            self._enums = ex
            raise
        return self._enums

    def _read_enums(self):
        if self.enums_text is None:
            _un("enums.py not readable")
        tree = ast.parse(self.enums_text)
        cls = {n.name: n for n in tree.body if isinstance(n, ast.ClassDef)}
        if "CUBE_MEASURE" not in cls or "DIMENSION_TYPE" not in cls:
            _un("enums.py: CUBE_MEASURE / DIMENSION_TYPE not found")
        cm, numeric = {}, None
        for s in cls["CUBE_MEASURE"].body:
            if isinstance(s, ast.Assign) and len(s.targets) == 1 and isinstance(s.targets[0], ast.Name) \
                    and _is_str_const(s.value):
                if s.targets[0].id in cm or s.value.value in cm.values():
                    _un("enums.py: CUBE_MEASURE member given twice")
                cm[s.targets[0].id] = s.value.value
            elif isinstance(s, ast.FunctionDef) and s.name == "NUMERIC_CUBE_MEASURES":
                body = [x for x in s.body if not _Member._is_doc(x)]
                if len(s.decorator_list) != 1 or not isinstance(s.decorator_list[0], ast.Name) \
                        or s.decorator_list[0].id != "classmethod" or [a.arg for a in s.args.args] != ["cls"] \
                        or len(body) != 1 or not isinstance(body[0], ast.Return) \
                        or not isinstance(body[0].value, (ast.Set, ast.Tuple, ast.List)):
                    _un("enums.py: NUMERIC_CUBE_MEASURES not read")
                numeric = []
                for e in body[0].value.elts:
                    if not (isinstance(e, ast.Attribute) and isinstance(e.value, ast.Name) and e.value.id == "cls"
                            and e.attr in cm):
                        _un("enums.py: NUMERIC_CUBE_MEASURES item not read")
                    numeric.append(cm[e.attr])
            elif _Member._is_doc(s):
                pass
            else:
                _un("enums.py: CUBE_MEASURE statement not read")
        if numeric is None:
            _un("enums.py: NUMERIC_CUBE_MEASURES not found")
        dt, sets = {}, {}
        for s in cls["DIMENSION_TYPE"].body:
            if _Member._is_doc(s):
                continue
            if not (isinstance(s, ast.Assign) and len(s.targets) == 1 and isinstance(s.targets[0], ast.Name)):
                _un("enums.py: DIMENSION_TYPE statement not read")
            name, v = s.targets[0].id, s.value
            if isinstance(v, ast.Call) and isinstance(v.func, ast.Name) and v.func.id == "_DimensionType" \
                    and len(v.args) == 1 and _is_str_const(v.args[0]) and not v.keywords:
                if v.args[0].value != name or name not in DT_COQ:
                    _un("enums.py: DIMENSION_TYPE member %s not in the translator's table" % name)
                dt[name] = name
            elif isinstance(v, ast.Name) and v.id in dt:
                dt[name] = dt[v.id]
            elif isinstance(v, ast.Call) and isinstance(v.func, ast.Name) and v.func.id == "frozenset" \
                    and len(v.args) == 1 and isinstance(v.args[0], (ast.Tuple, ast.List, ast.Set)) and not v.keywords:
                items = []
                for e in v.args[0].elts:
                    if not (isinstance(e, ast.Name) and e.id in dt):
                        _un("enums.py: DIMENSION_TYPE.%s item not read" % name)
                    if dt[e.id] not in items:
                        items.append(dt[e.id])
                sets[name] = items
            else:
                _un("enums.py: DIMENSION_TYPE.%s not read" % name)
        return {"CM": cm, "CM_NUMERIC": numeric, "DT": dt, "DT_SETS": sets}

    # -- cubepart.py: the signature of CubePartition.factory ------------------------------------------
    def factory_signature(self):
        """[(parameter, default AST or None)] after cls"""
        if self._factory is not None:
            if isinstance(self._factory, Unavailable):
                raise self._factory
            return self._factory
        try:
            self._factory = self._read_factory()
        except Unavailable as ex:
            self._factory = ex
            raise
        return self._factory

    def _read_factory(self):
        if self.cubepart_text is None:
            _un("cubepart.py not readable")
        tree = ast.parse(self.cubepart_text)
        cls = [n for n in tree.body if isinstance(n, ast.ClassDef) and n.name == "CubePartition"]
        if len(cls) != 1:
            _un("cubepart.py: class CubePartition not found")
        fns = [f for f in cls[0].body if isinstance(f, ast.FunctionDef) and f.name == "factory"]
        if len(fns) != 1 or len(fns[0].decorator_list) != 1 or not isinstance(fns[0].decorator_list[0], ast.Name) \
                or fns[0].decorator_list[0].id != "classmethod":
            _un("cubepart.py: classmethod CubePartition.factory not found")
        return _signature(fns[0], "cls")


def _signature(fn, first):
    a = fn.args
    if a.vararg or a.kwarg or a.kwonlyargs or a.posonlyargs:
        _un("%s: parameter list not read" % fn.name)
    names = [x.arg for x in a.args]
    if not names or names[0] != first:
        _un("%s: first parameter is not `%s`" % (fn.name, first))
    names = names[1:]
    defaults = [None] * (len(names) - len(a.defaults)) + list(a.defaults)
    if len(defaults) != len(names):
        _un("%s: defaults not read" % fn.name)
    return list(zip(names, defaults))


def _decorator_kind(fn):
    if not fn.decorator_list:
        return "plain"
    if len(fn.decorator_list) != 1 or not isinstance(fn.decorator_list[0], ast.Name):
        _un("decorators of %s not read" % fn.name)
    d = fn.decorator_list[0].id
    if d in ("lazyproperty", "property"):
        return "lazy"
    _un("decorator @%s of %s not read" % (d, fn.name))


# ------------------------------------------------------------------------------------------------
# one member
# ------------------------------------------------------------------------------------------------
class _Var(object):
    def __init__(self, ty, coq, owned=False, gen=False, unbound=False):
        self.ty, self.coq, self.owned, self.gen, self.unbound = ty, coq, owned, gen, unbound
        self.escaped = False     # used as a value: no in-place edit after that
        self.part_read = False   # an item of it was read: no edit below its top level after that


def _monadic(binds):
    return any(k == "bind" for k, _, _ in binds)


_TYPE_CLASS = {CUBE: "Cube", MEAS: "_Measures", CUBESET: "CubeSet"}


class _Member(object):
    """translation of one member of one concrete class"""

    def __init__(self, family, cls, name, fn, kind, sig):
        self.family, self.cls, self.name, self.fn, self.kind = family, cls, name, fn, kind
        self.params, self.ret = sig
        self.deps = []
        self.ntemp = 0
        self.in_gen = 0
        self.self_ty = CLASSES[cls][0]
        self.narrowed = {}   # ast.dump of an Optional expression known not to be None here -> (term, type)

    # -- plumbing ------------------------------------------------------------------------------
    def fresh(self):
        self.ntemp += 1
        return "t%d" % self.ntemp

    @staticmethod
    def wrap(binds, body):
        for kind, pat, term in reversed(binds):
            if kind == "bind":
                body = "(pbind %s (fun %s => %s))" % (term, pat, body)
            else:
                body = "(let %s := %s in %s)" % (pat, term, body)
        return body

    def dep(self, cls, name):
        info = self.family.get(cls, name)  # raises Unavailable if that member is unavailable
        if (cls, name) not in self.deps:
            self.deps.append((cls, name))
        return info

    def bind(self, binds, term):
        n = self.fresh()
        return binds + [("bind", n, term)], n

    # -- expressions -----------------------------------------------------------------------------
    def tr(self, e, env, exp=None):
        b, t, ty = self._tr(e, env, exp)
        if exp is not None:
            t, ty = coerce(t, ty, exp)
        return b, t, ty

    def pure(self, e, env, exp=None):
        b, t, ty = self.tr(e, env, exp)
        if _monadic(b):
            _un("an operation that may raise where only a plain value is read", e)
        return self.wrap(b, t) if b else t, ty

    def use(self, name, env, node):
        """a local read as a VALUE"""
        v = env[name]
        if v.gen:
            _un("local `%s` is not a plain value here" % name, node)
        v.escaped = True
        if v.unbound:
            return self.bind([], "(pres_of_option EUnbound %s)" % v.coq) + (v.ty,)
        return [], v.coq, v.ty

    def _tr(self, e, env, exp):
        if self.narrowed and isinstance(e, (ast.Name, ast.Attribute)) and ast.dump(e) in self.narrowed:
            return ([],) + self.narrowed[ast.dump(e)]
        if isinstance(e, ast.Name):
            if e.id in env:
                return self.use(e.id, env, e)
            if e.id == "self" and self.name != "__init__":
                return [], "self", self.self_ty
            _un("name `%s` not read" % e.id, e)
        if isinstance(e, ast.Constant):
            v = e.value
            if v is None:
                return [], "tt", NONE
            if isinstance(v, bool):
                return [], "true" if v else "false", BOOL
            if isinstance(v, int):
                return [], "(%d)" % v, Z
            if isinstance(v, float):
                return [], self.float_const(v), J
            if isinstance(v, str):
                return [], _coq_string(v), STR
            _un("constant %r not read" % (v,), e)
        if isinstance(e, ast.Attribute):
            return self.attribute(e, env)
        if isinstance(e, ast.Subscript):
            return self.subscript(e, env)
        if isinstance(e, ast.Dict):
            return self.dict_display(e, env)
        if isinstance(e, (ast.List, ast.Tuple)):
            return self.seq_display(e, env, exp)
        if isinstance(e, ast.BinOp):
            return self.binop(e, env)
        if isinstance(e, ast.UnaryOp):
            if isinstance(e.op, ast.USub) and isinstance(e.operand, ast.Constant) \
                    and isinstance(e.operand.value, int) and not isinstance(e.operand.value, bool):
                return [], "(-%d)" % e.operand.value, Z
            if isinstance(e.op, ast.Not):
                b, t = self.truth(e.operand, env)
                return b, "(negb %s)" % t, BOOL
            _un("unary operator not read", e)
        if isinstance(e, ast.BoolOp):
            return self.boolop(e, env, exp)
        if isinstance(e, ast.Compare):
            return self.compare(e, env)
        if isinstance(e, ast.IfExp):
            return self.ifexp(e, env, exp)
        if isinstance(e, ast.Call):
            return self.call(e, env, exp)
        if isinstance(e, (ast.GeneratorExp, ast.ListComp)):
            return self.comp(e.elt, e.generators, env, exp[1] if exp and exp[0] == "list" else None)
        _un("expression %s not read" % type(e).__name__, e)

    @staticmethod
    def float_const(v):
        from fractions import Fraction
        if v != v:
            return "(JFloat NaN)"
        if v in (float("inf"), float("-inf")):
            return "(JFloat (Inf %s))" % ("true" if v < 0 else "false")
        f = Fraction(v)
        return "(JFloat (Fin (%d # %d)))" % (f.numerator, f.denominator)

    # .. attributes ...............................................................................
    def attribute(self, e, env):
        v = e.value
        if isinstance(v, ast.Name) and v.id not in env:
            if v.id == "np" and e.attr == "nan":
                return [], "(JFloat NaN)", J
            if v.id == "DT":
                en = self.family.mod.enums()
                if e.attr in en["DT"]:
                    return [], DT_COQ[en["DT"][e.attr]], DTYPE
                if e.attr in en["DT_SETS"]:
                    return [], "[%s]" % "; ".join(DT_COQ[x] for x in en["DT_SETS"][e.attr]), L(DTYPE)
                _un("DT.%s" % e.attr, e)
            if v.id == "self" and self.name != "__init__":
                for attr, proj, ty in CLASSES[self.cls][3]:
                    if attr == e.attr:
                        return [], "(%s self)" % proj, ty
                return self.member_get([], "self", self.self_ty, e.attr, e)
        b, t, ty = self.tr(v, env)
        return self.attr_of(b, t, ty, e.attr, e)

    def attr_of(self, b, t, ty, attr, node):
        if ty[0] == "opt":  # None.<attr> raises AttributeError
            b, t = self.bind(b, "(pres_of_option EAttr %s)" % t)
            ty = ty[1]
        if ty in _TYPE_CLASS or ty[0] == "bm":
            return self.member_get(b, t, ty, attr, node)
        if (ty, attr) in ATTRS:
            f, rty = ATTRS[(ty, attr)]
            return b, ("(%s %s)" % (f, t)) if f else t, rty
        _un("attribute .%s of a %r not read" % (attr, ty), node)

    def member_call(self, cls, attr, obj, args, node, want_kind):
        if attr not in MEMBERS[cls]:
            _un("%s.%s has no signature in the translator's table" % (cls, attr), node)
        info = self.dep(cls, attr)
        if info["kind"] != want_kind:
            _un("%s.%s is read as a %s" % (cls, attr, "property" if want_kind == "lazy" else "method"), node)
        return "(m_%s_%s X %s%s)" % (cname(cls), attr, obj, "".join(" " + a for a in args)), info["ret"]

    def member_get(self, b, t, ty, attr, node, args=(), want_kind="lazy"):
        """the value of a property / the result of a method of an object of cube.py"""
        if ty in _TYPE_CLASS:
            term, rty = self.member_call(_TYPE_CLASS[ty], attr, t, args, node, want_kind)
            b, n = self.bind(b, term)
            return b, n, rty
        classes = sorted(ty[1])
        if len(classes) == 1:
            term, rty = self.member_call(classes[0], attr, t, args, node, want_kind)
            b, n = self.bind(b, term)
            return b, n, rty
        if not t.isidentifier():
            x = self.fresh()
            b = b + [("let", x, t)]
            t = x
        arms, rty = [], None
        for c in classes:
            term, r = self.member_call(c, attr, t, args, node, want_kind)
            rty = r if rty is None else join(rty, r)
            arms.append((c, term, r))
        text = " ".join("| %s => %s" % (MEASURE_CLASSES[c], term) for c, term, r in arms)
        if any(r != rty for _, _, r in arms):
            _un("the classes %r give .%s different types" % (classes, attr), node)
        if len(classes) < len(MEASURE_CLASSES):
            text += " | _ => PErr EAttr"
        b, n = self.bind(b, "(match bm_class %s with %s end)" % (t, text))
        return b, n, rty

    # .. subscription ...............................................................................
    def read_whole(self, e, env):
        """the object an item / the length of which is read (reading an item does not alias the object)"""
        if isinstance(e, ast.Name) and e.id in env and env[e.id].owned and not env[e.id].unbound:
            env[e.id].part_read = True
            return [], env[e.id].coq, env[e.id].ty
        return self.tr(e, env)

    def subscript(self, e, env):
        b, t, ty = self.read_whole(e.value, env)
        s = e.slice
        if ty[0] == "opt":  # None[..] raises TypeError
            b, t = self.bind(b, "(pres_of_option EType %s)" % t)
            ty = ty[1]
        if isinstance(s, ast.Slice):
            if s.upper is not None or s.step is not None or s.lower is None:
                _un("slice other than [n:]", e)
            bs, ts, _ = self.tr(s.lower, env, Z)
            if ty == J:
                b2, n = self.bind(b + bs, "(py_slice_from %s %s)" % (t, ts))
                return b2, n, J
            if ty[0] == "list":
                return b + bs, "(py_list_slice_from %s %s)" % (t, ts), ty
            _un("slice of a %r" % (ty,), e)
        if ty == J:
            if _is_str_const(s):
                b2, n = self.bind(b, "(py_getitem_str %s %s)" % (t, _coq_string(s.value)))
                return b2, n, J
            bs, ts, tys = self.tr(s, env)
            if tys == Z:
                b2, n = self.bind(b + bs, "(py_getitem_int %s %s)" % (t, ts))
            elif tys in (STR, CM):
                b2, n = self.bind(b + bs, "(py_getitem_str %s %s)" % (t, ts))
            elif tys == J:
                b2, n = self.bind(b + bs, "(py_getitem %s %s)" % (t, ts))
            else:
                _un("subscript of a value with a %r" % (tys,), e)
            return b2, n, J
        if ty[0] == "list" or ty == GRID:
            bs, ts, _ = self.tr(s, env, Z)
            b2, n = self.bind(b + bs, "(py_list_getitem %s %s)" % (t, ts))
            return b2, n, (ty[1] if ty[0] == "list" else GRIDC)
        if ty == ARR:
            bs, ts, tys = self.tr(s, env)
            if tys != GRID:
                _un("an array is indexed with a %r" % (tys,), e)
            b2, n = self.bind(b + bs, "(np_take_grid %s %s)" % (t, ts))
            return b2, n, ARR
        _un("subscript of a %r" % (ty,), e)

    # .. displays ...................................................................................
    def dict_display(self, e, env):
        binds, items, seen = [], [], set()
        for k, v in zip(e.keys, e.values):
            if not _is_str_const(k) or k.value in seen:
                _un("dict display: keys must be distinct string constants", e)
            seen.add(k.value)
            b, t, _ = self.tr(v, env, J)
            binds += b
            items.append("(%s, %s)" % (_coq_string(k.value), t))
        return binds, "(JDict [%s])" % "; ".join(items), J

    def seq_display(self, e, env, exp):
        want = exp[1] if exp is not None and exp[0] == "list" else None
        binds, terms, ty = [], [], ANY
        parts = []
        for el in e.elts:
            if isinstance(el, ast.Starred):
                _un("starred item in a display", el)
            b, t, t_ty = self.tr(el, env, want)
            binds += b
            parts.append((t, t_ty))
            ty = join(ty, t_ty)
        for t, t_ty in parts:
            terms.append(coerce(t, t_ty, ty)[0])
        return binds, "[%s]" % "; ".join(terms), L(ty)

    # .. operators ...................................................................................
    def binop(self, e, env):
        bl, tl, tyl = self.tr(e.left, env)
        br, tr_, tyr = self.tr(e.right, env)
        b = bl + br
        if isinstance(e.op, ast.Add):
            if tyl[0] == "list" and tyr[0] == "list":
                ty = join(tyl, tyr)
                return b, "(%s ++ %s)" % (coerce(tl, tyl, ty)[0], coerce(tr_, tyr, ty)[0]), ty
            if tyl[0] == "list" and tyr == J:
                tl, _ = coerce(tl, tyl, L(J))
                b, n = self.bind(b, "(py_list_add %s %s)" % (tl, tr_))
                return b, n, J
            if tyl == Z and tyr == Z:
                return b, "(%s + %s)" % (tl, tr_), Z
            if J in (tyl, tyr):
                tl, _ = coerce(tl, tyl, J)
                tr_, _ = coerce(tr_, tyr, J)
                b, n = self.bind(b, "(py_add %s %s)" % (tl, tr_))
                return b, n, J
        if isinstance(e.op, ast.Sub) and tyl == Z and tyr == Z:
            return b, "(%s - %s)" % (tl, tr_), Z
        if isinstance(e.op, ast.Mult) and tyl[0] == "list" and tyr == Z and isinstance(e.left, ast.List):
            return b, "(py_list_repeat %s %s)" % (tl, tr_), tyl
        if isinstance(e.op, ast.Div) and J in (tyl, tyr):
            tl, _ = coerce(tl, tyl, J)
            tr_, _ = coerce(tr_, tyr, J)
            b, n = self.bind(b, "(py_truediv %s %s)" % (tl, tr_))
            return b, n, J
        _un("binary operator on %r and %r not read" % (tyl, tyr), e)

    def as_bool(self, t, ty, node):
        if ty == BOOL:
            return t
        if ty == J:
            return "(json_truthy %s)" % t
        if ty[0] == "list" or ty == VELEMS:
            return "(py_truthy %s)" % t
        if ty == NONE:
            return "false"
        if ty[0] == "opt" and ty[1][0] in ("bm", "cube", "measures"):
            return "(negb (opt_is_none %s))" % t
        if ty == Z:
            return "(negb (%s =? 0))" % t
        _un("truth value of a %r" % (ty,), node)

    def truth(self, e, env):
        b, t, ty = self.tr(e, env)
        return b, self.as_bool(t, ty, e)

    def lazy_bool(self, e, env):
        """a later operand of and / or: a term of type pres bool"""
        b, t = self.truth(e, env)
        return self.wrap(b, "(POk %s)" % t), _monadic(b), self.wrap(b, t)

    def boolop(self, e, env, exp):
        is_or = isinstance(e.op, ast.Or)
        # `x or <default>` on values
        if is_or and len(e.values) == 2 and exp != BOOL:
            b0, t0, ty0 = self.tr(e.values[0], env)
            if ty0 == J:
                t1, ty1 = self.pure(e.values[1], env)
                if ty1 in (J, NONE):
                    return b0, "(py_or %s %s)" % (t0, coerce(t1, ty1, J)[0]), J
                _un("`or` between a value and a %r" % (ty1,), e)
            return self._boolop_from(b0, self.as_bool(t0, ty0, e), e, env)
        b0, t0 = self.truth(e.values[0], env)
        return self._boolop_from(b0, t0, e, env)

    def _boolop_from(self, b0, t0, e, env):
        is_or = isinstance(e.op, ast.Or)
        rest = [self.lazy_bool(v, env) for v in e.values[1:]]
        if not any(m for _, m, _ in rest):
            t = t0
            for _, _, p in rest:
                t = "(%s %s %s)" % ("orb" if is_or else "andb", t, p)
            return b0, t, BOOL
        # some later operand may raise: evaluate it only when it is reached
        term = rest[-1][0]
        for lz, _, _ in reversed(rest[:-1]):
            term = "(pbind %s (fun c => if c then %s else %s))" % (
                lz, "(POk true)" if is_or else term, term if is_or else "(POk false)")
        term = "(if %s then %s else %s)" % (t0, "(POk true)" if is_or else term, term if is_or else "(POk false)")
        b, n = self.bind(b0, term)
        return b, n, BOOL

    def compare(self, e, env):
        if len(e.ops) != 1:
            _un("chained comparison", e)
        op, lhs, rhs = e.ops[0], e.left, e.comparators[0]
        if isinstance(op, (ast.Is, ast.IsNot)):
            if not (isinstance(rhs, ast.Constant) and rhs.value is None):
                _un("`is` with something other than None", e)
            b, t, ty = self.tr(lhs, env)
            if ty == J:
                r = "(json_is_none %s)" % t
            elif ty[0] == "opt":
                r = "(opt_is_none %s)" % t
            elif ty == NONE:
                r = "true"
            else:
                r = "false"
            return b, r if isinstance(op, ast.Is) else "(negb %s)" % r, BOOL
        if isinstance(op, (ast.In, ast.NotIn)):
            bl, tl, tyl = self.tr(lhs, env)
            br, tr_, tyr = self.tr(rhs, env)
            if tyr[0] != "list":
                _un("`in` on a %r" % (tyr,), e)
            ety = join(tyl, tyr[1])
            tl, _ = coerce(tl, tyl, ety)
            tr_, _ = coerce(tr_, tyr, L(ety))
            r = "(json_in %s %s)" % (tl, tr_) if ety == J else "(py_in %s %s %s)" % (eqb_of(ety), tl, tr_)
            return bl + br, r if isinstance(op, ast.In) else "(negb %s)" % r, BOOL
        bl, tl, tyl = self.tr(lhs, env)
        br, tr_, tyr = self.tr(rhs, env)
        if isinstance(op, (ast.Eq, ast.NotEq)):
            if tyl == OPT(Z) and tyr == Z:
                r = "(opt_eq_Z %s %s)" % (tl, tr_)
            else:
                ty = join(tyl, tyr)
                r = "(%s %s %s)" % (eqb_of(ty), coerce(tl, tyl, ty)[0], coerce(tr_, tyr, ty)[0])
            return bl + br, r if isinstance(op, ast.Eq) else "(negb %s)" % r, BOOL
        cmpf = {ast.Lt: "Z.ltb", ast.LtE: "Z.leb", ast.Gt: "Z.gtb", ast.GtE: "Z.geb"}
        for k, f in cmpf.items():
            if isinstance(op, k):
                if tyl != Z or tyr != Z:
                    _un("ordering of a %r and a %r" % (tyl, tyr), e)
                return bl + br, "(%s %s %s)" % (f, tl, tr_), BOOL
        _un("comparison operator not read", e)

    @staticmethod
    def _plain_path(n):
        while isinstance(n, ast.Attribute):
            n = n.value
        return isinstance(n, ast.Name)

    def ifexp_narrow(self, e, env, exp):
        """`A if N is not None else B` / `B if N is None else A` with N Optional: A is read with N not None"""
        c = e.test
        if not (isinstance(c, ast.Compare) and len(c.ops) == 1 and isinstance(c.ops[0], (ast.Is, ast.IsNot))
                and isinstance(c.comparators[0], ast.Constant) and c.comparators[0].value is None
                and self._plain_path(c.left) and ast.dump(c.left) not in self.narrowed):
            return None
        bn, tn, tyn = self.tr(c.left, env)
        if tyn[0] != "opt":
            return None
        some, none = (e.body, e.orelse) if isinstance(c.ops[0], ast.IsNot) else (e.orelse, e.body)
        v = self.fresh()
        key = ast.dump(c.left)
        self.narrowed[key] = (v, tyn[1])
        try:
            b1, t1, ty1 = self.tr(some, env)
        finally:
            del self.narrowed[key]
        b2, t2, ty2 = self.tr(none, env)
        ty = join(ty1, ty2)
        if exp is not None and exp != ANY and exp[0] in ("opt", "json"):
            try:
                ty = join(ty, exp)
            except Unavailable:
                pass
        t1, _ = coerce(t1, ty1, ty)
        t2, _ = coerce(t2, ty2, ty)
        if _monadic(b1) or _monadic(b2):
            term = "(match %s with Some %s => %s | None => %s end)" % (
                tn, v, self.wrap(b1, "(POk %s)" % t1), self.wrap(b2, "(POk %s)" % t2))
            b, n = self.bind(bn, term)
            return b, n, ty
        return bn, "(match %s with Some %s => %s | None => %s end)" % (tn, v, self.wrap(b1, t1), self.wrap(b2, t2)), ty

    def ifexp(self, e, env, exp):
        r = self.ifexp_narrow(e, env, exp)
        if r is not None:
            return r
        bc, tc = self.truth(e.test, env)
        b1, t1, ty1 = self.tr(e.body, env)
        b2, t2, ty2 = self.tr(e.orelse, env)
        ty = join(ty1, ty2)
        if exp is not None and exp != ANY:
            try:
                ty = join(ty, exp) if exp[0] in ("opt", "json") else ty
            except Unavailable:
                pass
        t1, _ = coerce(t1, ty1, ty)
        t2, _ = coerce(t2, ty2, ty)
        if _monadic(b1) or _monadic(b2):
            term = "(if %s then %s else %s)" % (tc, self.wrap(b1, "(POk %s)" % t1), self.wrap(b2, "(POk %s)" % t2))
            b, n = self.bind(bc, term)
            return b, n, ty
        return bc, "(if %s then %s else %s)" % (tc, self.wrap(b1, t1), self.wrap(b2, t2)), ty

    # .. iteration ...................................................................................
    def iterable(self, e, env):
        """what a `for` / comprehension / tuple() iterates over: (binds, term of type list, item type)"""
        if isinstance(e, (ast.GeneratorExp, ast.ListComp)):
            b, t, ty = self.comp(e.elt, e.generators, env, None)
            return b, t, ty[1]
        if isinstance(e, ast.Call) and isinstance(e.func, ast.Name) and e.func.id not in env and not e.keywords:
            f, n = e.func.id, len(e.args)
            if f == "enumerate" and n == 1:
                b, t, ty = self.iterable(e.args[0], env)
                return b, "(py_enumerate %s)" % t, TUP(Z, ty)
            if f == "zip" and n == 2 and not any(isinstance(a, ast.Starred) for a in e.args):
                b1, t1, ty1 = self.iterable(e.args[0], env)
                b2, t2, ty2 = self.iterable(e.args[1], env)
                return b1 + b2, "(py_zip %s %s)" % (t1, t2), TUP(ty1, ty2)
            if f == "range" and n == 1:
                b, t, _ = self.tr(e.args[0], env, Z)
                return b, "(py_range %s)" % t, Z
            if f == "zip" and n == 1 and isinstance(e.args[0], ast.Starred):
                b, t, ty = self.iterable(e.args[0].value, env)
                if ty[0] != "list":
                    _un("zip(*..) of a sequence of %r" % (ty,), e)
                return b, "(py_zip_star %s)" % t, ty
        b, t, ty = self.tr(e, env)
        if ty[0] == "list":
            return b, t, ty[1]
        if ty == J:
            b, n = self.bind(b, "(py_iter %s)" % t)
            return b, n, J
        if ty == DIMS:
            return b, "(pds_items %s)" % t, DIM
        if ty == VELEMS:
            return b, t, Z
        if ty == GRID:
            return b, t, GRIDC
        _un("iteration over a %r" % (ty,), e)

    def pattern(self, target, ty, env):
        """(pattern text, is_tuple); binds the names in env"""
        if isinstance(target, ast.Name):
            if target.id != "_":
                env[target.id] = _Var(ty, lname(target.id))
            return lname(target.id), False
        if isinstance(target, ast.Tuple):
            if ty[0] != "tup" or len(ty[1]) != len(target.elts):
                _un("tuple target does not fit the item type %r" % (ty,), target)
            parts = [self.pattern(t, x, env)[0] for t, x in zip(target.elts, ty[1])]
            return "(%s)" % ", ".join(parts), True
        _un("assignment target not read", target)

    @staticmethod
    def binder(pat, is_tuple):
        return "'" + pat if is_tuple else pat

    def comp(self, elt, generators, env, exp_elem):
        g = generators[0]
        if g.is_async:
            _un("async comprehension", elt)
        bi, ti, tyi = self.iterable(g.iter, env)
        env2 = dict(env)
        pat, is_t = self.pattern(g.target, tyi, env2)
        bnd = self.binder(pat, is_t)
        src = ti
        binds = list(bi)
        if g.ifs:
            conds = [self.truth(c, env2) for c in g.ifs]
            if any(_monadic(b) for b, _ in conds):
                body = "(POk true)"
                for b, c in reversed(conds):
                    body = self.wrap(b, "(if %s then %s else (POk false))" % (c, body))
                binds, src = self.bind(binds, "(pfilterM (fun %s => %s) %s)" % (bnd, body, ti))
            else:
                c = None
                for b, c2 in conds:
                    c2 = self.wrap(b, c2)
                    c = c2 if c is None else "(andb %s %s)" % (c, c2)
                src = "(filter (fun %s => %s) %s)" % (bnd, c, ti)
        if len(generators) > 1:
            be, te, tye = self.comp(elt, generators[1:], env2, exp_elem)
            if _monadic(be):
                binds, n = self.bind(binds, "(pmapM (fun %s => %s) %s)" % (bnd, self.wrap(be, "(POk %s)" % te), src))
                return binds, "(List.concat %s)" % n, tye
            return binds, "(List.concat (map (fun %s => %s) %s))" % (bnd, self.wrap(be, te), src), tye
        be, te, tye = self.tr(elt, env2, exp_elem)
        if _monadic(be):
            binds, n = self.bind(binds, "(pmapM (fun %s => %s) %s)" % (bnd, self.wrap(be, "(POk %s)" % te), src))
            return binds, n, L(tye)
        body = self.wrap(be, te)
        if not is_t and body == pat:
            return binds, src, L(tye)
        return binds, "(map (fun %s => %s) %s)" % (bnd, body, src), L(tye)

    # .. calls .......................................................................................
    def bind_args(self, what, sig, e, env, types, skip=0):
        """the arguments of a call of a function with signature `sig` ([(parameter, default)]), typed by
        `types` {parameter: type}: (binds, [terms in parameter order])"""
        if any(isinstance(a, ast.Starred) for a in e.args) or any(k.arg is None for k in e.keywords):
            _un("%s(..) with * / ** arguments" % what, e)
        names = [p for p, _ in sig]
        args = list(e.args)[skip:]
        if len(args) > len(names):
            _un("%s(..): too many arguments" % what, e)
        given = {}
        order = []
        for p, a in zip(names, args):
            given[p] = a
            order.append(p)
        for k in e.keywords:
            if k.arg not in names or k.arg in given:
                _un("%s(..): keyword `%s` not read" % (what, k.arg), e)
            given[k.arg] = k.value
            order.append(k.arg)
        binds, terms = [], {}
        for p in order:  # Python evaluates the arguments in the order they are written
            if p not in types:
                _un("%s(..): parameter `%s` has no type in the translator's table" % (what, p), e)
            b, t, _ = self.tr(given[p], env, types[p])
            binds += b
            terms[p] = t
        for p, d in sig:
            if p in terms:
                continue
            if d is None:
                _un("%s(..): parameter `%s` is not given" % (what, p), e)
            if p not in types:
                _un("%s(..): parameter `%s` has no type in the translator's table" % (what, p), e)
            if not (isinstance(d, ast.Constant) and (d.value is None or isinstance(d.value, (int, bool)))
                    or isinstance(d, ast.Dict) and not d.keys):
                _un("%s(..): default of `%s` not read" % (what, p), e)
            t, _ = self.pure(d, {}, types[p])
            terms[p] = t
        return binds, [terms[p] for p in names]

    def construct(self, cls, e, env):
        info = self.dep(cls, "__init__")
        binds, args = self.bind_args(cls, info["signature"], e, env, CLASSES[cls][4])
        return binds, "(m_%s___init__ %s)" % (cname(cls), " ".join(args)), CLASSES[cls][0]

    def seq_of(self, a, env, exp_elem=None):
        """argument of tuple() / frozenset() / all(): (binds, term, list type)"""
        b, t, ty = self.iterable(a, env)
        return b, t, L(ty)

    def call(self, e, env, exp):
        f = e.func
        nargs = len(e.args)
        kw = {k.arg: k.value for k in e.keywords}
        if None in kw:
            _un("**kwargs", e)
        if isinstance(f, ast.Name) and f.id not in env:
            if f.id in CLASSES:
                return self.construct(f.id, e, env)
            if any(isinstance(a, ast.Starred) for a in e.args):
                _un("*args", e)
            if f.id in ("tuple", "list") and not kw:
                if nargs == 0:
                    return [], "[]", L(ANY)
                if nargs == 1:
                    return self.seq_of(e.args[0], env)
            if f.id == "frozenset" and nargs == 1 and not kw:
                b, t, ty = self.seq_of(e.args[0], env)
                return b, "(py_dedup %s %s)" % (eqb_of(ty[1]), t), ty
            if f.id == "len" and nargs == 1 and not kw:
                b, t, ty = self.read_whole(e.args[0], env)
                if ty[0] == "opt":
                    b, t = self.bind(b, "(pres_of_option EType %s)" % t)
                    ty = ty[1]
                if ty[0] == "list" or ty in (VELEMS, GRID):
                    return b, "(py_len %s)" % t, Z
                if ty == DIMS:
                    return b, "(py_len (pds_items %s))" % t, Z
                if ty == J:
                    b, n = self.bind(b, "(py_len_json %s)" % t)
                    return b, n, Z
                if ty == ARR:
                    b, n = self.bind(b, "(np_len %s)" % t)
                    return b, n, Z
                _un("len() of a %r" % (ty,), e)
            if f.id == "range" and nargs == 1 and not kw:
                b, t, _ = self.tr(e.args[0], env, Z)
                return b, "(py_range %s)" % t, L(Z)
            if f.id in ("enumerate", "zip") and not kw:
                b, t, ty = self.iterable(e, env)
                return b, t, L(ty)
            if f.id == "all" and nargs == 1 and not kw and isinstance(e.args[0], ast.GeneratorExp):
                return self.all_(e.args[0], env)
            if f.id == "isinstance" and nargs == 2 and not kw:
                b, t, ty = self.tr(e.args[0], env)
                t, _ = coerce(t, ty, J)
                c = e.args[1]
                names = tuple(x.id for x in c.elts) if isinstance(c, ast.Tuple) and all(
                    isinstance(x, ast.Name) for x in c.elts) else (c.id,) if isinstance(c, ast.Name) else None
                if names == ("dict",):
                    return b, "(json_is_dict %s)" % t, BOOL
                if names is not None and set(names) == {"int", "str"} and len(names) == 2:
                    return b, "(json_is_int_or_str %s)" % t, BOOL
                if names == ("str",):
                    return b, "(json_is_str %s)" % t, BOOL
                _un("isinstance(.., %s) not read" % T._src(c), e)
            if f.id == "dict" and nargs == 1:
                b, t, _ = self.tr(e.args[0], env, J)
                items = []
                for k in e.keywords:
                    bv, tv, _ = self.tr(k.value, env, J)
                    b += bv
                    items.append("(%s, %s)" % (_coq_string(k.arg), tv))
                b, n = self.bind(b, "(py_dict_copy_with %s [%s])" % (t, "; ".join(items)))
                return b, n, J
            if f.id == "CUBE_MEASURE" and nargs == 1 and not kw:
                b, t, _ = self.tr(e.args[0], env, J)
                table = "[%s]" % "; ".join(_coq_string(v) for v in self.family.mod.enums()["CM"].values())
                b, n = self.bind(b, "(cube_measure_of %s %s)" % (table, t))
                return b, n, CM
            _un("call of `%s` not read" % f.id, e)
        if isinstance(f, ast.Name) and f.id in env:
            v = env[f.id]
            if not v.gen or nargs or kw:
                _un("call of local `%s` not read" % f.id, e)
            b, n = self.bind([], v.coq)
            return b, n, v.ty
        if isinstance(f, ast.Attribute):
            return self.method_call(e, f, env, kw)
        _un("call not read", e)

    def all_(self, g, env):
        if len(g.generators) != 1 or g.generators[0].ifs:
            _un("all(..) over several `for` / with a condition", g)
        gen = g.generators[0]
        bi, ti, tyi = self.iterable(gen.iter, env)
        env2 = dict(env)
        pat, is_t = self.pattern(gen.target, tyi, env2)
        be, te = self.truth(g.elt, env2)
        if _monadic(be):
            b, n = self.bind(bi, "(pallM (fun %s => %s) %s)" % (self.binder(pat, is_t), self.wrap(be, "(POk %s)" % te), ti))
            return b, n, BOOL
        return bi, "(forallb (fun %s => %s) %s)" % (self.binder(pat, is_t), self.wrap(be, te), ti), BOOL

    def method_call(self, e, f, env, kw):
        o, nargs = f.value, len(e.args)
        starred = any(isinstance(a, ast.Starred) for a in e.args)
        if isinstance(o, ast.Name) and o.id not in env:
            # --- other modules -------------------------------------------------------------------
            if o.id == "json" and f.attr == "loads" and nargs == 1 and not kw and not starred:
                b, t, _ = self.tr(e.args[0], env, J)
                b, n = self.bind(b, "(py_json_loads X %s)" % t)
                return b, n, J
            if o.id == "Dimensions" and f.attr == "from_dicts" and nargs == 1 and not kw and not starred:
                b, t, _ = self.tr(e.args[0], env, J)
                b, n = self.bind(b, "(x_from_dicts X %s)" % t)
                return b, n, DIMS
            if o.id == "CubePartition" and f.attr == "factory":
                sig = self.family.mod.factory_signature()
                if [p for p, _ in sig] != [p for p, _ in FACTORY_FIELDS]:
                    _un("CubePartition.factory: parameters %r are not the ones of the translator's table"
                        % ([p for p, _ in sig],), e)
                b, args = self.bind_args("CubePartition.factory", sig, e, env, dict(FACTORY_FIELDS))
                return b, "(mkPyFactory %s)" % " ".join(args), FCALL
            if o.id == "CUBE_MEASURE" and f.attr == "NUMERIC_CUBE_MEASURES" and nargs == 0 and not kw:
                vals = self.family.mod.enums()["CM_NUMERIC"]
                return [], "[%s]" % "; ".join(_coq_string(v) for v in vals), L(CM)
            if o.id == "np":
                return self.numpy_call(e, f, env, kw)
            if o.id == "self" and self.name != "__init__":
                if starred or kw:
                    _un("self.%s(..) with keyword / starred arguments" % f.attr, e)
                return self.method_of([], "self", self.self_ty, f.attr, e, env)
        if starred:
            _un("*args", e)
        # "<sep>".join(<strings>)
        if _is_str_const(o) and f.attr == "join" and nargs == 1 and not kw:
            b, t, ty = self.seq_of(e.args[0], env)
            t, _ = coerce(t, ty, L(STR))
            return b, "(str_join %s %s)" % (_coq_string(o.value), t), STR
        # np.array(<list value>).flatten(): the items
        if f.attr == "flatten" and nargs == 0 and not kw and isinstance(o, ast.Call) \
                and isinstance(o.func, ast.Attribute) and isinstance(o.func.value, ast.Name) and o.func.value.id == "np" \
                and "np" not in env and o.func.attr == "array" and len(o.args) == 1 and not o.keywords \
                and not isinstance(o.args[0], ast.Starred):
            b, t, _ = self.tr(o.args[0], env, J)
            b, n = self.bind(b, "(np_array_flatten_items %s)" % t)
            return b, n, L(J)
        # <owned or not>.get(..) etc.: methods of values
        b, t, ty = self.tr(o, env)
        if ty[0] == "opt":
            b, t = self.bind(b, "(pres_of_option EAttr %s)" % t)
            ty = ty[1]
        if ty in _TYPE_CLASS or ty[0] == "bm":
            if kw:
                _un(".%s(..) with keyword arguments" % f.attr, e)
            return self.method_of(b, t, ty, f.attr, e, env)
        if ty == J:
            if f.attr == "get" and nargs in (1, 2) and not kw:
                if nargs == 2:
                    bd, td, _ = self.tr(e.args[1], env, J)
                else:
                    bd, td = [], "JNull"
                if _is_str_const(e.args[0]):
                    b2, n = self.bind(b + bd, "(py_get %s %s %s)" % (t, _coq_string(e.args[0].value), td))
                    return b2, n, J
                bk, tk, tyk = self.tr(e.args[0], env)
                if _monadic(bd):
                    _un(".get(k, default): the default may raise", e)
                tk, _ = coerce(tk, tyk, J)
                b2, n = self.bind(b + bk + bd, "(py_get_dyn %s %s %s)" % (t, tk, td))
                return b2, n, J
            if f.attr == "keys" and nargs == 0 and not kw:
                b2, n = self.bind(b, "(py_keys %s)" % t)
                return b2, n, L(STR)
            if f.attr == "title" and nargs == 0 and not kw:
                b2, n = self.bind(b, "(py_str_title %s)" % t)
                return b2, n, J
        if ty == L(CM) and f.attr == "intersection" and nargs == 1 and not kw:
            ba, ta, _ = self.tr(e.args[0], env, L(CM))
            return b + ba, "(filter (fun m => py_in String.eqb m %s) %s)" % (ta, t), L(CM)
        if ty == ARR:
            if f.attr == "flatten" and nargs == 0 and not kw:
                return b, "(np_flatten %s)" % t, ARR
            if f.attr == "reshape" and nargs == 1 and not kw:
                ba, ta, _ = self.tr(e.args[0], env, L(Z))
                b2, n = self.bind(b + ba, "(np_reshape %s %s)" % (t, ta))
                return b2, n, ARR
            if f.attr == "astype" and nargs == 1 and not kw and self.is_np_float64(e.args[0], env):
                return b, "(np_astype_f64 %s)" % t, ARR
        _un("method .%s() of a %r not read" % (f.attr, ty), e)

    def method_of(self, b, t, ty, attr, e, env):
        cls = _TYPE_CLASS.get(ty)
        classes = [cls] if cls else sorted(ty[1])
        params = None
        for c in classes:
            if attr not in MEMBERS[c]:
                _un("%s.%s() has no signature in the translator's table" % (c, attr), e)
            p = MEMBERS[c][attr][0]
            if params is not None and p != params:
                _un("the classes %r give .%s() different parameters" % (classes, attr), e)
            params = p
        if len(e.args) != len(params):
            _un(".%s(): %d argument(s) for %d parameter(s)" % (attr, len(e.args), len(params)), e)
        args = []
        for a, (_, pty) in zip(e.args, params):
            ba, ta, _ = self.tr(a, env, pty)
            b = b + ba
            args.append(ta)
        return self.member_get(b, t, ty, attr, e, args=tuple(args), want_kind="plain")

    @staticmethod
    def is_np_float64(a, env):
        return isinstance(a, ast.Attribute) and isinstance(a.value, ast.Name) and a.value.id == "np" \
            and "np" not in env and a.attr == "float64"

    def numpy_call(self, e, f, env, kw):
        nargs = len(e.args)
        if f.attr == "array" and nargs == 1 and set(kw) == {"dtype"} and self.is_np_float64(kw["dtype"], env) \
                and not isinstance(e.args[0], ast.Starred):
            a = e.args[0]
            if isinstance(a, ast.Call) and isinstance(a.func, ast.Name) and a.func.id in ("tuple", "list") \
                    and a.func.id not in env or isinstance(a, (ast.ListComp, ast.GeneratorExp)):
                b, t, ty = self.tr(a, env, L(J))
            else:
                b, t, ty = self.tr(a, env)
            if ty[0] == "list":
                t, _ = coerce(t, ty, L(J))
                b, n = self.bind(b, "(np_array_f64_list %s)" % t)
                return b, n, ARR
            if ty == J:
                b, n = self.bind(b, "(np_array_f64 %s)" % t)
                return b, n, ARR
            _un("np.array() of a %r" % (ty,), e)
        if f.attr == "prod" and nargs == 1 and not kw:
            b, t, _ = self.tr(e.args[0], env, L(Z))
            return b, "(np_prod %s)" % t, Z
        if f.attr == "ix_" and nargs == 1 and not kw and isinstance(e.args[0], ast.Starred):
            b, t, ty = self.seq_of(e.args[0].value, env)
            if ty not in (L(L(Z)), L(VELEMS)):
                _un("np.ix_(*..) of a %r" % (ty,), e)
            return b, "(np_ix_ %s)" % t, GRID
        _un("np.%s(..) not read" % f.attr, e)

    # -- statements ------------------------------------------------------------------------------
    @staticmethod
    def _is_doc(s):
        return isinstance(s, ast.Expr) and isinstance(s.value, ast.Constant) and isinstance(s.value.value, str)

    @staticmethod
    def _fork(env):
        out = {}
        for k, v in env.items():
            w = _Var(v.ty, v.coq, v.owned, v.gen, v.unbound)
            w.escaped, w.part_read = v.escaped, v.part_read
            out[k] = w
        return out

    def ret_term(self, t):
        return "(POk %s)" % t

    def block(self, stmts, env, k):
        """Coq term (of type pres ..) for `stmts`, then k(env) when control falls off the end"""
        if not stmts:
            if k is None:
                _un("control reaches the end of the function without `return`")
            return k(env)
        s, rest = stmts[0], list(stmts[1:])
        if self._is_doc(s) or isinstance(s, ast.Pass):
            return self.block(rest, env, k)
        if isinstance(s, ast.Return):
            if self.in_gen or s.value is None:
                _un("`return` in a generator / without value", s)
            b, t, _ = self.tr(s.value, env, self.ret)
            return self.wrap(b, self.ret_term(t))
        if isinstance(s, ast.Raise):
            return self.raise_(s)
        if isinstance(s, (ast.Assign, ast.AnnAssign)):
            return self.assign(s, rest, env, k)
        if isinstance(s, ast.Expr) and isinstance(s.value, ast.Yield):
            if not self.in_gen or s.value.value is None or "yield" not in env:
                _un("`yield` not read here", s)
            y = env["yield"]
            b, t, ty = self.tr(s.value.value, env)
            y.ty = L(join(y.ty[1], ty))
            return self.wrap(b, "(let %s := (%s ++ [%s]) in %s)" % (y.coq, y.coq, t, self.block(rest, env, k)))
        if isinstance(s, ast.Expr) and isinstance(s.value, ast.Call):
            return self.expr_stmt(s.value, rest, env, k)
        if isinstance(s, ast.If):
            bc, tc = self.truth(s.test, env)
            cont = lambda e2: self.block(rest, e2, k)  # noqa: E731  (the rest of the block, in both branches)
            return self.wrap(bc, "(if %s then %s else %s)" % (
                tc, self.block(list(s.body), self._fork(env), cont), self.block(list(s.orelse), self._fork(env), cont)))
        if isinstance(s, ast.For):
            return self.for_(s, rest, env, k)
        if isinstance(s, ast.FunctionDef):
            return self.localgen(s, rest, env, k)
        if isinstance(s, ast.Try):
            if rest:
                _un("statements after a try statement", rest[0])
            return self.try_(s, env)
        _un("statement %s not read" % type(s).__name__, s)

    def raise_(self, s):
        x = s.exc
        if s.cause is not None or x is None:
            _un("raise statement not read", s)
        name = x.func.id if isinstance(x, ast.Call) and isinstance(x.func, ast.Name) else \
            x.id if isinstance(x, ast.Name) else None
        if name not in EXN_COQ:
            _un("raise of `%s` not read" % name, s)
        return "(PErr %s)" % EXN_COQ[name]  # the message is not read

    @staticmethod
    def _fresh_value(v):
        """does this expression build an object nobody else holds?"""
        if isinstance(v, (ast.Dict, ast.List, ast.ListComp)):
            return True
        if isinstance(v, ast.BinOp) and isinstance(v.op, ast.Mult) and isinstance(v.left, ast.List):
            return True
        if isinstance(v, ast.Call) and isinstance(v.func, ast.Name) and v.func.id in ("dict", "list"):
            return True
        return False

    def assign(self, s, rest, env, k):
        if isinstance(s, ast.Assign):
            if len(s.targets) != 1:
                _un("multiple assignment", s)
            tg, v = s.targets[0], s.value
        else:
            tg, v = s.target, s.value
            if v is None:
                _un("annotation without value", s)
        if isinstance(tg, ast.Subscript):
            return self.store_item(tg, v, rest, env, k)
        if isinstance(tg, ast.Attribute):
            # <local array>.flags.writeable = False: no value changes
            if isinstance(tg.value, ast.Attribute) and tg.attr == "writeable" and tg.value.attr == "flags" \
                    and isinstance(tg.value.value, ast.Name) and tg.value.value.id in env \
                    and env[tg.value.value.id].ty == ARR and isinstance(v, ast.Constant) and v.value is False:
                return self.block(rest, env, k)
            _un("attribute assignment not read", s)
        if not isinstance(tg, ast.Name) or tg.id in ("_", "self", "yield", "X"):
            _un("assignment target not read", s)
        if tg.id in env and env[tg.id].gen:
            _un("`%s` is re-bound" % tg.id, s)
        b, t, ty = self.tr(v, env)
        if ty == NONE:
            t, ty = "JNull", J
        if tg.id in env and env[tg.id].unbound:
            var = env[tg.id]
            var.ty = ty if var.ty == ANY else join(var.ty, ty)
            return self.wrap(b, "(let %s := Some %s in %s)" % (var.coq, coerce(t, ty, var.ty)[0], self.block(rest, env, k)))
        env[tg.id] = _Var(ty, lname(tg.id), owned=self._fresh_value(v))
        return self.wrap(b + [("let", lname(tg.id), t)], self.block(rest, env, k))

    def owned_target(self, name, env, node, deep=False):
        if name not in env:
            _un("`%s` not read" % name, node)
        v = env[name]
        if not v.owned or v.escaped or v.unbound or (deep and v.part_read):
            _un("in-place edit of `%s`, an object the member does not own (or has already handed on)" % name, node)
        return v

    def store_item(self, tg, v, rest, env, k):
        """<owned local>[i] = v"""
        if not isinstance(tg.value, ast.Name):
            _un("in-place edit of an object the member does not own", tg)
        var = self.owned_target(tg.value.id, env, tg)
        if var.ty[0] == "list":
            bi, ti, tyi = self.tr(tg.slice, env)
            ti, _ = coerce(ti, tyi, J)
            bv, tv, tyv = self.tr(v, env)
            ety = join(var.ty[1], tyv)
            pre = []
            if ety != var.ty[1]:  # e.g. [0] * n, then values of the response are stored into it
                pre = [("let", var.coq, coerce(var.coq, var.ty, L(ety))[0])]
                var.ty = L(ety)
            term = "(py_list_setitem %s %s %s)" % (var.coq, ti, coerce(tv, tyv, ety)[0])
            return self.wrap(bi + bv + pre + [("bind", var.coq, term)], self.block(rest, env, k))
        if var.ty == J and _is_str_const(tg.slice):
            bv, tv, _ = self.tr(v, env, J)
            term = "(py_dict_setitem %s %s %s)" % (var.coq, _coq_string(tg.slice.value), tv)
            return self.wrap(bv + [("bind", var.coq, term)], self.block(rest, env, k))
        _un("item assignment on a %r not read" % (var.ty,), tg)

    def expr_stmt(self, c, rest, env, k):
        f = c.func
        if isinstance(f, ast.Attribute) and f.attr == "append" and len(c.args) == 1 and not c.keywords:
            # <owned list>.append(x)
            if isinstance(f.value, ast.Name):
                var = self.owned_target(f.value.id, env, c)
                if var.ty[0] != "list":
                    _un(".append on a %r" % (var.ty,), c)
                b, t, ty = self.tr(c.args[0], env)
                var.ty = L(join(var.ty[1], ty))
                return self.wrap(b, "(let %s := (%s ++ [%s]) in %s)" % (var.coq, var.coq, t, self.block(rest, env, k)))
            # <owned dict>[k1]..[kn].get(k, []).append(x)
            g = f.value
            if isinstance(g, ast.Call) and isinstance(g.func, ast.Attribute) and g.func.attr == "get" \
                    and len(g.args) == 2 and not g.keywords and _is_str_const(g.args[0]) \
                    and isinstance(g.args[1], ast.List) and not g.args[1].elts:
                path, node = [], g.func.value
                while isinstance(node, ast.Subscript) and _is_str_const(node.slice):
                    path.insert(0, node.slice.value)
                    node = node.value
                if isinstance(node, ast.Name):
                    var = self.owned_target(node.id, env, c, deep=True)
                    if var.ty != J:
                        _un("in-place edit below a %r" % (var.ty,), c)
                    b, t, _ = self.tr(c.args[0], env, J)
                    term = "(py_update_path %s [%s] (py_get_append %s %s))" % (
                        var.coq, "; ".join(_coq_string(p) for p in path), _coq_string(g.args[0].value), t)
                    return self.wrap(b + [("bind", var.coq, term)], self.block(rest, env, k))
            _un("in-place edit of an object the member does not own", c)
        if isinstance(f, ast.Attribute) and f.attr in ("insert", "extend", "update", "pop", "setdefault", "remove",
                                                       "clear", "sort", "reverse", "popitem"):
            _un("in-place edit (.%s) of an object the member does not own" % f.attr, c)
        _un("expression statement not read", c)

    # .. loops .......................................................................................
    def assigned_names(self, stmts):
        """(names a block may (re)bind or edit in place, names bound only inside an `if`)"""
        out, cond = [], []

        def add(n, in_if):
            if n not in out:
                out.append(n)
            if in_if and n not in cond:
                cond.append(n)

        def walk(ss, in_if):
            for s in ss:
                if isinstance(s, (ast.Assign, ast.AnnAssign)):
                    tg = s.targets[0] if isinstance(s, ast.Assign) else s.target
                    while isinstance(tg, (ast.Subscript, ast.Attribute)):
                        tg = tg.value
                    if isinstance(tg, ast.Name):
                        add(tg.id, in_if)
                elif isinstance(s, ast.Expr) and isinstance(s.value, ast.Yield):
                    add("yield", False)
                elif isinstance(s, ast.Expr) and isinstance(s.value, ast.Call):
                    n = s.value.func
                    while isinstance(n, (ast.Attribute, ast.Subscript, ast.Call)):
                        n = n.value if not isinstance(n, ast.Call) else n.func
                    if isinstance(n, ast.Name):
                        add(n.id, in_if)
                elif isinstance(s, ast.If):
                    walk(s.body, True)
                    walk(s.orelse, True)
                elif isinstance(s, ast.For):
                    walk(s.body, True)
                elif isinstance(s, (ast.Return, ast.Expr, ast.Pass, ast.Raise)):
                    pass
                else:
                    _un("statement %s not read" % type(s).__name__, s)

        walk(stmts, False)
        return out, cond

    def for_(self, s, rest, env, k):
        if s.orelse:
            _un("for ... else", s)
        if any(isinstance(n, (ast.Return, ast.Break, ast.Continue)) for x in s.body for n in ast.walk(x)):
            _un("return / break / continue inside a loop", s)
        bi, ti, tyi = self.iterable(s.iter, env)
        names, cond = self.assigned_names(s.body)
        # a name first bound under a condition inside the loop and read in a later round: unbound until then
        pre = []
        for n in cond:
            if n not in env:
                env[n] = _Var(ANY, lname(n), unbound=True)
                pre.append(("let", lname(n), "None"))
        state = [n for n in ("yield",) if n in names and n in env] + sorted(n for n in env if n in names and n != "yield")
        if not state:
            _un("a loop that changes nothing", s)
        for n in state:
            if env[n].escaped and env[n].owned:
                _un("in-place edit of `%s` after it was handed on" % n, s)
        pats = [env[n].coq for n in state]
        tup = pats[0] if len(pats) == 1 else "(%s)" % ", ".join(pats)
        pat = tup if len(pats) == 1 else "'" + tup
        widen = []
        for _ in range(2):  # a second reading when the body widens the type of a list it fills
            body_env = self._fork(env)
            ipat, is_t = self.pattern(s.target, tyi, body_env)
            body = self.block(list(s.body), body_env, lambda e2: "(POk %s)" % tup)
            changed = [n for n in state if env[n].ty != ANY and not env[n].unbound and body_env[n].ty != env[n].ty]
            if not changed:
                break
            for n in changed:
                widen.append(("let", env[n].coq, coerce(env[n].coq, env[n].ty, body_env[n].ty)[0]))
                env[n].ty = body_env[n].ty
        else:
            _un("the type of a local changes from one round of the loop to the next", s)
        pre = pre + widen
        for n in state:
            if body_env[n].escaped and body_env[n].owned:
                _un("`%s` is edited in place and handed on in the same loop" % n, s)
            env[n].ty = body_env[n].ty if env[n].ty == ANY else join(env[n].ty, body_env[n].ty)
        term = "(pbind (pfoldM (fun %s %s => %s) %s %s) (fun %s => %s))" % (
            pat, self.binder(ipat, is_t), body, ti, tup, pat, self.block(rest, env, k))
        return self.wrap(pre + bi, term)

    def localgen(self, s, rest, env, k):
        a = s.args
        if a.args or a.vararg or a.kwarg or a.kwonlyargs or a.posonlyargs or s.decorator_list:
            _un("local function with parameters / decorators", s)
        if s.name in env:
            _un("local function re-bound", s)
        if not any(isinstance(n, (ast.Yield, ast.YieldFrom)) for n in ast.walk(s)):
            _un("local function that is no generator", s)
        genv = self._fork(env)
        genv["yield"] = _Var(L(ANY), "y_out")
        self.in_gen += 1
        try:
            term = "(let y_out := [] in %s)" % self.block(list(s.body), genv, lambda e2: "(POk y_out)")
        finally:
            self.in_gen -= 1
        env[s.name] = _Var(genv["yield"].ty, lname(s.name), gen=True)
        return "(let %s := %s in %s)" % (lname(s.name), term, self.block(rest, env, k))

    def try_(self, s, env):
        """try: <block that returns> / except <Class>: <block that returns or raises> .. (in order)"""
        if s.orelse or s.finalbody or not s.handlers:
            _un("try statement not read", s)
        body = self.block(list(s.body), self._fork(env), None)
        term = "(PErr e)"
        for h in reversed(s.handlers):
            if h.name is not None or not isinstance(h.type, ast.Name):
                _un("except clause not read", h)
            hb = self.block(list(h.body), self._fork(env), None)
            if h.type.id == "Exception":
                term = hb
            elif h.type.id in EXN_COQ:
                term = "(if pyexn_eqb e %s then %s else %s)" % (EXN_COQ[h.type.id], hb, term)
            else:
                _un("except %s not read" % h.type.id, h)
        return "(py_try %s (fun e => %s))" % (body, term)

    # -- the member -----------------------------------------------------------------------------
    def translate_init(self):
        fn = self.fn
        sig = _signature(fn, "self")
        ptypes = CLASSES[self.cls][4]
        env = {}
        for p, _ in sig:
            if p not in ptypes:
                _un("__init__: parameter `%s` has no type in the translator's table" % p)
            env[p] = _Var(ptypes[p], lname(p))
        fields = {}
        attrs = {a: (proj, ty) for a, proj, ty in CLASSES[self.cls][3]}
        lets = []
        for s in fn.body:
            if self._is_doc(s) or isinstance(s, ast.Pass):
                continue
            if isinstance(s, ast.Assign) and len(s.targets) == 1 and isinstance(s.targets[0], ast.Attribute) \
                    and isinstance(s.targets[0].value, ast.Name) and s.targets[0].value.id == "self":
                attr = s.targets[0].attr
                if attr not in attrs or attr in fields:
                    _un("__init__ stores self.%s" % attr, s)
                t, _ = self.pure(s.value, env, attrs[attr][1])
                lets.append(("let", "f_%s" % attr, t))
                fields[attr] = True
                continue
            _un("__init__: statement not read", s)
        vals = []
        for a, _, _ in CLASSES[self.cls][3]:
            if a not in fields:
                _un("__init__ does not store self.%s" % a)
            vals.append("f_%s" % a)
        body = self.wrap(lets, "(%s %s)" % (CLASSES[self.cls][2], " ".join(vals)))
        binders = "".join(" (%s : %s)" % (lname(p), coq_ty(ptypes[p])) for p, _ in sig)
        self.signature = sig
        return "(fun%s => %s)" % (binders, body)

    def translate(self):
        fn = self.fn
        if self.name == "__init__":
            return self.translate_init()
        a = fn.args
        if a.vararg or a.kwarg or a.kwonlyargs or a.posonlyargs or a.defaults or a.kw_defaults:
            _un("parameter list not read")
        names = [x.arg for x in a.args]
        want = ["self"] + [p for p, _ in self.params]
        if names != want:
            _un("parameters %r, expected %r" % (names, want))
        if self.kind == "lazy" and self.params:
            _un("a property with parameters")
        env = {}
        for p, ty in self.params:
            env[p] = _Var(ty, lname(p))
        if any(isinstance(n, (ast.Yield, ast.YieldFrom)) for n in self._own_nodes(fn)):
            _un("a member that is a generator")
        body = self.block(list(fn.body), env, None)
        binders = "".join(" (%s : %s)" % (lname(p), coq_ty(ty)) for p, ty in self.params)
        return "(fun (X : pyext) (self : %s)%s => %s)" % (CLASSES[self.cls][1], binders, body)

    @staticmethod
    def _own_nodes(fn):
        stack = list(fn.body)
        while stack:
            n = stack.pop()
            if isinstance(n, (ast.FunctionDef, ast.Lambda)):
                continue
            yield n
            stack.extend(ast.iter_child_nodes(n))


def sig_type(cls, name, sig):
    params, ret = sig
    if name == "__init__":
        return " -> ".join([coq_ty(t) for _, t in params] + [CLASSES[cls][1]])
    return " -> ".join(["pyext", CLASSES[cls][1]] + [coq_ty(t) for _, t in params] + ["pres (%s)" % coq_ty(ret)])


class _Family(object):
    """all members of all classes, translated on demand in dependency order"""

    def __init__(self, mod):
        self.mod = mod
        self.done = {}      # (class, name) -> info dict | Unavailable
        self.sigs = {}
        self.order = []
        self.busy = set()

    def get(self, cls, name):
        key = (cls, name)
        if key in self.busy:
            _un("members read each other in a cycle (%s.%s)" % key)
        if key not in self.done:
            self.busy.add(key)
            try:
                self.done[key] = self._make(cls, name)
            except Unavailable as ex:
                self.done[key] = ex
            except Exception as ex:  # an AST shape the reader did not expect: fail closed for THIS member
                self.done[key] = Unavailable("not read (%s: %s)" % (type(ex).__name__, ex))
            finally:
                self.busy.discard(key)
            self.order.append(key)
        r = self.done[key]
        if isinstance(r, Unavailable):
            _un("reads %s.%s, which is not available" % key)
        return r

    def _make(self, cls, name):
        if cls not in CLASSES:
            _un("class not in the translator's table")
        if name == "__init__":
            sig = None
        elif name in MEMBERS.get(cls, {}):
            sig = MEMBERS[cls][name]
            self.sigs[(cls, name)] = sig
        else:
            _un("no signature for this member in the translator's table")
        owner, fn = self.mod.resolve(cls, name)
        if name == "__init__":
            # the signature of a constructor: the parameters of the source, typed by name
            if fn is not None:
                psig = _signature(fn, "self")
                ptypes = CLASSES[cls][4]
                if all(p in ptypes for p, _ in psig):
                    self.sigs[(cls, name)] = (tuple((p, ptypes[p]) for p, _ in psig), CLASSES[cls][0])
            if (cls, name) not in self.sigs:
                ptypes = CLASSES[cls][4]
                self.sigs[(cls, name)] = (tuple(ptypes.items()), CLASSES[cls][0])
            sig = self.sigs[(cls, name)]
        if fn is None:
            _un("not defined for this class")
        kind = _decorator_kind(fn)
        if name == "__init__" and kind != "plain":
            _un("decorated __init__")
        m = _Member(self, cls, name, fn, kind, sig)
        body = m.translate()
        info = {"kind": kind, "params": sig[0], "ret": sig[1], "owner": owner, "deps": list(m.deps), "body": body}
        if name == "__init__":
            info["signature"] = m.signature
        return info


HEADER = """(* GENERATED by harness/translate/x_cube.py from %s
   -- do not edit; rewritten (only when its text changes) on every check.
   One definition per (concrete class, member), inheritance flattened: [Some f] = what the source says,
   as a Gallina function over the Python-semantics combinators of Base/PyList.v, Base/PyJson.v and
   Model/PyCube.v ([X] = the other modules cube.py calls, [m_<Class>_<x>] = the generated function of
   the member it reads); [None] = the translator could not read the member or one it reads (it is
   then tied to the model by the correspondence check only). *)
From Coq Require Import List ZArith QArith String Bool.
From CC Require Import Base.XQ Base.PyList Base.PyJson Model.CubeCounts Model.DimType Model.PyCube.
Import ListNotations.
Local Close Scope Q_scope.
Local Open Scope Z_scope.

"""


def ident_of(cls, name):
    return "src_%s_%s" % (cname(cls), name)


def _generate(text, enums_text, cubepart_text, report):
    mod = _Module(text, enums_text, cubepart_text)
    fam = _Family(mod)
    for cls, name in EXPECTED:
        try:
            fam.get(cls, name)
        except Unavailable:
            pass
    out = []
    for cls, name in fam.order:
        what = "%s.%s" % (cls, name)
        r = fam.done[(cls, name)]
        if (cls, name) not in fam.sigs:
            if (cls, name) in EXPECTED:
                report["unavailable"].append({"method": "%s:%s" % (MODNAME, what), "reason": str(r)})
            out.append("(* %s not read: %s *)" % (what, T._coq_comment(str(r))))
            continue
        ident = ident_of(cls, name)
        ty = sig_type(cls, name, fam.sigs[(cls, name)])
        if isinstance(r, Unavailable):
            report["unavailable"].append({"method": "%s:%s" % (MODNAME, what), "reason": str(r)})
            out.append("(* %s not read: %s *)" % (what, T._coq_comment(str(r))))
            out.append("Definition %s : option (%s) := None." % (ident, ty))
            continue
        report["methods_translated"].append("%s:%s" % (MODNAME, what))
        out.append("(* %s.%s%s *)" % (r["owner"], name, "" if r["owner"] == cls else " as inherited by %s" % cls))
        head, foot = "", ""
        for dc, dn in r["deps"]:
            head += "  match %s with Some m_%s_%s =>\n" % (ident_of(dc, dn), cname(dc), dn)
            foot = " | None => None end" + foot
        out.append("Definition %s : option (%s) :=\n%s  Some %s%s." % (ident, ty, head, r["body"], foot))
    return HEADER % ("src/" + SRC) + "\n".join(out) + "\n"


def _fallback(ex):
    return "(* GENERATED by harness/translate/x_cube.py: the translator failed: %s *)\n" % T._coq_comment(repr(ex))


def regenerate(repo_src, gen_dir, report):
    """Adds Gen/CubeSrc.v; extends `report`."""
    report["x_cube_version"] = VERSION
    texts = {}
    for rel in (SRC, ENUMS, CUBEPART):
        try:
            with open(os.path.join(repo_src, rel), encoding="utf-8") as f:
                texts[rel] = f.read()
            report["files"].setdefault("src/" + rel, T._sha(texts[rel]))
        except (OSError, UnicodeDecodeError) as ex:
            texts[rel] = None
            report["files"].setdefault("src/" + rel, None)
            report["errors"].append("cannot read %s: %r" % (rel, ex))
    try:
        if texts[SRC] is None:
            raise Unavailable("source file not readable")
        out = _generate(texts[SRC], texts[ENUMS], texts[CUBEPART], report)
    except Exception as ex:  # SyntaxError of the source, a bug of ours: fail closed
        report["errors"].append("CubeSrc.v: %r" % (ex,))
        out = _fallback(ex)
    os.makedirs(gen_dir, exist_ok=True)
    changed = T._write_if_changed(os.path.join(gen_dir, "CubeSrc.v"), out)
    report["gen_files"]["Gen/CubeSrc.v"] = {"sha256": T._sha(out), "rewritten": changed}
    return report


if __name__ == "__main__":  # manual run: python -m harness.translate.x_cube <repo_src> <gen_dir>
    import json
    import sys

    rep = {"files": {}, "errors": [], "gen_files": {}, "methods_translated": [], "unavailable": []}
    regenerate(sys.argv[1], sys.argv[2], rep)
    json.dump(rep, sys.stdout, indent=1)
