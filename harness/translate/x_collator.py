"""Fourth source translator: the collators (src/cr/cube/collator.py) -> coq/Gen/CollatorSrc.v.

SHALLOW translation: every member of the three concrete collator classes (inheritance flattened, virtual
dispatch resolved per concrete class) is read with `ast` through a WHITELIST and written out as a Gallina
FUNCTION built only from the fixed library of Python-semantics combinators of coq/Base/PyList.v and
coq/Model/PyCollator.v.  Anything outside the whitelist makes THAT member `None` (+ `NOTE
translator-unavailable`), and every member that reads it `None` too; nothing is guessed or repaired.

    Definition src_<Class>_<member> : option (pycollator -> <params> -> <result>) :=
      match src_<Class>_<dep1> with Some m_<dep1> => ...       (the members `self.<dep>` it reads)
        Some (fun self <params> => <body>)
      | None => None end.

The translator is TYPE-directed by the signature table below (what a member takes / returns, whether it
may raise); the BODIES come from the source.  The types decide which equality `==` / `in` means
(`Z.eqb`, `ident_eqb`, ..), the coercions int -> element id (`IInt`), int -> order entry (`EBase`),
bogus id -> order entry (`EIns`), and which `sorted` is meant.  Python ints are `Z`; tuples of fixed
arity are Coq tuples; sequences, frozensets are lists; dicts are insertion-ordered association lists.
Exceptions: a member marked monadic returns `res T`; `d[k]`, `d.pop(k)`, `int(anchor)`,
`elements.get_by_id(id)`, `np.isnan(v)`, calls of monadic members and loops are sequenced with `bind`
in Python's evaluation order.  Loops (`for` with `append` / `yield` / `pop` / `continue`) become
`py_foldM` over the tuple of the locals the body mutates; `try: return A except TypeError: return B`
becomes `py_try_except`.

Proofs/GenAgreeCollator*.v prove, for all inputs, that each generated function is the corresponding
definition of Model/Collator.v.
"""
import ast
import os

from harness.translate import translate as T

VERSION = "x_collator.py/1"
SRC = "cr/cube/collator.py"
GEN_FILES = ("CollatorSrc.v",)
MODNAME = "collator"

CONCRETE = ("PayloadOrderCollator", "ExplicitOrderCollator", "SortByValueCollator")

TRUSTED_BASE = (
    "the collator members named by the C07_gen_* / C08_gen_* (collator section) / C09_gen_* (collator section) theorems "
    "are tied to the source text of collator.py by the SHALLOW whitelist translator harness/translate/x_collator.py: what "
    "is trusted is its reading of Python into the combinators of Base/PyList.v + Model/PyCollator.v (ints as Z; tuples / "
    "lists / frozensets as lists, a frozenset only asked for membership; dicts and OrderedDict as insertion-ordered "
    "association lists, a repeated key keeps its place and takes the later value; `sorted` of int triples = THE sorted "
    "permutation, of (value, idx) pairs = Model/Collator.v sort_vkeys; exceptions as the res monad in Python's evaluation "
    "order: KeyError of d[k] / pop / get_by_id, ValueError of int(anchor), TypeError of np.isnan on a label; loops as "
    "folds over the locals they mutate) and the per-member signature table of the translator (types only; bodies and "
    "the wiring between members come from the source); the dimension-side objects a collator reads are parameters "
    "(pydim / pyspec / pysub / elem records: Dimension.valid_elements, element_ids, subtotals, "
    "subtotals_in_payload_order, hidden_idxs, prune, order_spec, _Subtotal.anchor / insertion_id, Element.element_id / "
    "derived / anchor) instantiated by pydim_of with Model/Collator.v's reading of dimension.py, which stays tied by the "
    "correspondence only; an anchor dict's position other than 'before' is read as 'after', a bogus id 'ins_N' is the "
    "integer N")


class Unavailable(Exception):
    pass


def _un(msg, node=None):
    if node is not None and hasattr(node, "lineno"):
        msg = "%s (line %d)" % (msg, node.lineno)
    raise Unavailable(msg)


# ------------------------------------------------------------------------------------------------
# types
# ------------------------------------------------------------------------------------------------
Z = ("Z",)
BOOL = ("bool",)
STR = ("str",)
IDENT = ("ident",)
BOGUS = ("bogus",)
ENTRY = ("entry",)
FMT = ("fmt",)
ELEM = ("elem",)
DANCHOR = ("danchor",)
NANCHOR = ("nanchor",)
PYSUB = ("pysub",)
SVAL = ("sval",)
PYDIM = ("pydim",)
PYSPEC = ("pyspec",)
SELF = ("self",)
UNIT = ("unit",)
ANY = ("any",)


def L(t):
    return ("list", t)


def SET(t):
    return ("set", t)


def D(k, v):
    return ("dict", k, v)


def TUP(*ts):
    return ("tup", tuple(ts))


_COQ_ATOM = {
    "Z": "Z", "bool": "bool", "str": "string", "ident": "ident", "bogus": "Z", "entry": "entry",
    "fmt": "order_format", "elem": "elem", "danchor": "danchor", "nanchor": "nanchor", "pysub": "pysub",
    "sval": "sval", "pydim": "pydim", "pyspec": "pyspec", "self": "pycollator", "unit": "unit",
}


def coq_ty(t):
    k = t[0]
    if k in _COQ_ATOM:
        return _COQ_ATOM[k]
    if k in ("list", "set"):
        return "list (%s)" % coq_ty(t[1])
    if k == "dict":
        return "list (%s * %s)" % (coq_ty(t[1]), coq_ty(t[2]))
    if k == "tup":
        return "(%s)" % " * ".join(coq_ty(x) for x in t[1])
    _un("type without Coq rendering: %r" % (t,))


def eqb_of(t):
    k = t[0]
    if k in ("Z", "bogus"):
        return "Z.eqb"
    if k == "ident":
        return "ident_eqb"
    if k == "str":
        return "String.eqb"
    if k == "fmt":
        return "order_format_eqb"
    if k == "bool":
        return "Bool.eqb"
    _un("no equality for type %r" % (t,))


def join(a, b):
    """least common refinement of two types that differ only by unknown parts"""
    if a == b:
        return a
    if a == ANY:
        return b
    if b == ANY:
        return a
    if a[0] == b[0] and a[0] in ("list", "set"):
        return (a[0], join(a[1], b[1]))
    if a[0] == b[0] == "dict":
        return ("dict", join(a[1], b[1]), join(a[2], b[2]))
    if a[0] == b[0] == "tup" and len(a[1]) == len(b[1]):
        return ("tup", tuple(join(x, y) for x, y in zip(a[1], b[1])))
    _un("types do not agree: %r / %r" % (a, b))


def coerce(term, frm, to):
    """term of type frm used where `to` is expected"""
    if to is None or to == ANY or frm == to:
        return term, frm
    if frm == ANY:
        return term, to
    if frm == Z and to == IDENT:
        return "(IInt %s)" % term, IDENT
    if frm == Z and to == ENTRY:
        return "(EBase %s)" % term, ENTRY
    if frm == BOGUS and to == ENTRY:
        return "(EIns %s)" % term, ENTRY
    if frm[0] == "list" and to[0] == "list":
        if frm[1] == ANY:
            return term, to
        if frm[1] == Z and to[1] == ENTRY:
            return "(map EBase %s)" % term, to
        if frm[1] == Z and to[1] == IDENT:
            return "(map IInt %s)" % term, to
    try:
        return term, join(frm, to)
    except Unavailable:
        _un("a value of type %r is used where %r is expected" % (frm, to))


# ------------------------------------------------------------------------------------------------
# what the source may read
# ------------------------------------------------------------------------------------------------
# attributes __init__ stores on the collator
SELF_ATTRS = {
    "_dimension": ("pc_dimension", PYDIM),
    "_empty_idxs": ("pc_empty_idxs", L(Z)),
    "_format": ("pc_format", FMT),
    "_element_values": ("pc_element_values", L(SVAL)),
    "_subtotal_values": ("pc_subtotal_values", L(SVAL)),
}
# (type, attribute) -> (Coq function, type)
ATTRS = {
    (PYDIM, "valid_elements"): ("pd_valid_elements", L(ELEM)),
    (PYDIM, "element_ids"): ("pd_element_ids", L(IDENT)),
    (PYDIM, "subtotals"): ("pd_subtotals", L(PYSUB)),
    (PYDIM, "subtotals_in_payload_order"): ("pd_subtotals_in_payload_order", L(PYSUB)),
    (PYDIM, "hidden_idxs"): ("pd_hidden_idxs", L(Z)),
    (PYDIM, "prune"): ("pd_prune", BOOL),
    (PYDIM, "order_spec"): ("pd_order_spec", PYSPEC),
    (PYSPEC, "element_ids"): ("po_element_ids", L(IDENT)),
    (PYSPEC, "top_fixed_ids"): ("po_top_fixed_ids", L(IDENT)),
    (PYSPEC, "bottom_fixed_ids"): ("po_bottom_fixed_ids", L(IDENT)),
    (PYSPEC, "descending"): ("po_descending", BOOL),
    (PYSUB, "anchor"): ("ps_anchor", NANCHOR),
    (PYSUB, "insertion_id"): ("ps_insertion_id", Z),
    (L(PYSUB), "bogus_ids"): ("pysubs_bogus_ids", L(BOGUS)),
    (L(PYSUB), "insertion_ids"): ("pysubs_insertion_ids", L(Z)),
    (ELEM, "element_id"): ("e_id", IDENT),
    (ELEM, "derived"): ("e_derived", BOOL),
    (ELEM, "anchor"): ("py_elem_anchor", DANCHOR),
}
KEYS3 = L(TUP(Z, Z, Z))
# member -> (parameters after self, result type, may raise)
MEMBERS = {
    "_elements": ((), L(ELEM), False),
    "_element_ids": ((), L(IDENT), False),
    "_hidden_idxs": ((), SET(Z), False),
    "_order_mapping": ((), D(Z, BOGUS), False),
    "_order_spec": ((), PYSPEC, False),
    "_subtotals": ((), L(PYSUB), False),
    "_subtotals_bogus_ids": ((), L(BOGUS), False),
    "_display_order": ((), L(ENTRY), True),
    "_display_order_mapping": ((), D(Z, BOGUS), False),
    "_base_element_orderings": ((), KEYS3, True),
    "_derived_element_orderings": ((), KEYS3, True),
    "_element_order_descriptors": ((), L(TUP(Z, Z, IDENT)), True),
    "_element_positions_by_id": ((), D(IDENT, Z), True),
    "_insertion_orderings": ((), KEYS3, True),
    "_insertion_position": ((("subtotal", PYSUB),), TUP(Z, Z), True),
    "_derived_element_position": ((("element_id", IDENT),), TUP(Z, Z), True),
    "payload_order": ((), L(ENTRY), True),
    "_view_insertions_ordering": ((), KEYS3, True),
    "_body_idxs": ((), L(Z), True),
    "_bottom_fixed_idxs": ((), L(Z), True),
    "_top_fixed_idxs": ((), L(Z), True),
    "_bottom_subtotal_idxs": ((), L(Z), True),
    "_top_subtotal_idxs": ((), L(Z), True),
    "_subtotal_idxs": ((), L(Z), True),
    "_descending": ((), BOOL, False),
    "_is_nan": ((("value", SVAL),), BOOL, True),
    "_iter_fixed_idxs": ((("fixed_element_ids", L(IDENT)),), L(Z), True),
}
# the constructor and the public classmethod: their parameters are read from the source and typed by NAME
PARAM_TYPES = {
    "dimension": PYDIM,
    "empty_idxs": L(Z),
    "format": FMT,
    "element_values": L(SVAL),
    "subtotal_values": L(SVAL),
}
# field order of the record pycollator (Model/PyCollator.v) and what a class that does not store one holds
RECORD_FIELDS = ("_dimension", "_empty_idxs", "_format", "_element_values", "_subtotal_values")
RECORD_DEFAULT = {"_element_values": "[]", "_subtotal_values": "[]"}
SPECIAL = {"__init__": (SELF, False), "display_order": (L(ENTRY), True)}
SKIPPED = ()
_ANCHORED_PARAMS = ("dimension", "empty_idxs", "format")
SPECIAL_PARAMS = {
    "PayloadOrderCollator": _ANCHORED_PARAMS,
    "ExplicitOrderCollator": _ANCHORED_PARAMS,
    "SortByValueCollator": ("dimension", "element_values", "subtotal_values", "empty_idxs", "format"),
}
# the members the agreement lemmas name, per concrete class: each gets a definition on every run (`None`
# when the class no longer has it), so that Proofs/GenAgreeCollator*.v always compiles
_BASE_MEMBERS = ("__init__", "_elements", "_element_ids", "_hidden_idxs", "_subtotals_bogus_ids", "_order_mapping",
                 "_order_spec", "_subtotals")
_ANCHORED_MEMBERS = _BASE_MEMBERS + (
    "_element_order_descriptors", "_base_element_orderings", "_element_positions_by_id", "_insertion_position",
    "_insertion_orderings", "_derived_element_orderings", "_display_order_mapping", "_display_order", "display_order")
EXPECTED = {
    "PayloadOrderCollator": _ANCHORED_MEMBERS + ("_view_insertions_ordering", "payload_order"),
    "ExplicitOrderCollator": _ANCHORED_MEMBERS + ("_derived_element_position",),
    "SortByValueCollator": _BASE_MEMBERS + (
        "_descending", "_is_nan", "_subtotal_idxs", "_top_subtotal_idxs", "_iter_fixed_idxs", "_top_fixed_idxs",
        "_bottom_fixed_idxs", "_body_idxs", "_bottom_subtotal_idxs", "_display_order", "display_order"),
}

_COQ_KEYWORDS_OK = True  # every Python local is prefixed with `l_`, temporaries are `t<n>`


def lname(n):
    return "_" if n == "_" else "l_" + n


def _is_str_const(n):
    return isinstance(n, ast.Constant) and isinstance(n.value, str)


def _coq_string(s):
    if not all(32 <= ord(c) < 127 for c in s) or '"' in s:
        _un("string constant outside printable ASCII")
    return '"%s"%%string' % s


# ------------------------------------------------------------------------------------------------
# the source module
# ------------------------------------------------------------------------------------------------
class _Module(object):
    def __init__(self, text):
        tree = ast.parse(text)
        self.classes = {}
        for n in tree.body:
            if isinstance(n, ast.ClassDef):
                self.classes[n.name] = n

    def mro(self, cname):
        out = []
        seen = set()
        while cname in self.classes and cname not in seen:
            seen.add(cname)
            out.append(cname)
            c = self.classes[cname]
            if len(c.bases) == 0:
                break
            if len(c.bases) != 1 or not isinstance(c.bases[0], ast.Name):
                _un("class %s: bases not read" % cname)
            cname = c.bases[0].id
        return out

    def functions(self, cname):
        return [n for n in self.classes[cname].body if isinstance(n, ast.FunctionDef)]

    def resolve(self, concrete, member):
        """(defining class, FunctionDef) of `member` for an object of class `concrete`"""
        for c in self.mro(concrete):
            defs = [f for f in self.functions(c) if f.name == member]
            if len(defs) > 1:
                _un("%s.%s defined twice" % (c, member))
            if defs:
                return c, defs[0]
        return None, None

    def member_names(self, concrete):
        names = []
        for c in reversed(self.mro(concrete)):
            for f in self.functions(c):
                if f.name not in names:
                    names.append(f.name)
        return names


def _decorator_kind(fn):
    """'lazy' (lazyproperty / property), 'static', 'class', 'plain'; anything else is not read"""
    if not fn.decorator_list:
        return "plain"
    if len(fn.decorator_list) != 1 or not isinstance(fn.decorator_list[0], ast.Name):
        _un("decorators of %s not read" % fn.name)
    d = fn.decorator_list[0].id
    if d in ("lazyproperty", "property"):
        return "lazy"
    if d == "staticmethod":
        return "static"
    if d == "classmethod":
        return "class"
    _un("decorator @%s of %s not read" % (d, fn.name))


# ------------------------------------------------------------------------------------------------
# one member
# ------------------------------------------------------------------------------------------------
class _Var(object):
    def __init__(self, ty, coq, mutable=False, alias=None, gen=False):
        self.ty, self.coq, self.mutable, self.alias, self.gen = ty, coq, mutable, alias, gen


class _Member(object):
    """translation of one member of one concrete class"""

    def __init__(self, family, concrete, name, fn, kind, sig):
        self.family, self.concrete, self.name, self.fn, self.kind = family, concrete, name, fn, kind
        self.params, self.ret, self.monadic = sig
        self.deps = []
        self.ntemp = 0
        self.in_gen = 0

    # -- plumbing ------------------------------------------------------------------------------
    def fresh(self):
        self.ntemp += 1
        return "t%d" % self.ntemp

    def wrap(self, binds, body):
        for kind, pat, term in reversed(binds):
            if kind == "bind":
                if not self.monadic:
                    _un("an operation that may raise in a member declared pure")
                body = "(bind %s (fun %s => %s))" % (term, pat, body)
            else:
                body = "(let %s := %s in %s)" % (pat, term, body)
        return body

    def retn(self, term):
        return "(Ok %s)" % term if self.monadic else term

    def dep(self, name):
        info = self.family.get(name)  # raises Unavailable if that member is unavailable
        if name not in self.deps:
            self.deps.append(name)
        return info

    # -- patterns --------------------------------------------------------------------------------
    def pattern(self, target, ty, env):
        """(pattern text without the leading quote, is_tuple); binds the names in env"""
        if isinstance(target, ast.Name):
            if target.id != "_":
                env[target.id] = _Var(ty, lname(target.id))
            return lname(target.id), False
        if isinstance(target, ast.Tuple):
            if ty[0] != "tup" or len(ty[1]) != len(target.elts):
                _un("tuple target does not fit the element type %r" % (ty,), target)
            parts = [self.pattern(t, x, env)[0] for t, x in zip(target.elts, ty[1])]
            return "(%s)" % ", ".join(parts), True
        _un("assignment target not read", target)

    @staticmethod
    def binder(pat, is_tuple):
        return "'" + pat if is_tuple else pat

    # -- expressions -----------------------------------------------------------------------------
    def tr(self, e, env, exp=None):
        b, t, ty = self._tr(e, env, exp)
        if exp is not None:
            t, ty = coerce(t, ty, exp)
        return b, t, ty

    def pure(self, e, env, exp=None):
        b, t, ty = self.tr(e, env, exp)
        if any(k == "bind" for k, _, _ in b):
            _un("an operation that may raise where only a plain value is read", e)
        return self.wrap(b, t) if b else t, ty

    def _tr(self, e, env, exp):
        if isinstance(e, ast.Name):
            if e.id in env:
                v = env[e.id]
                if v.alias is not None or v.gen:
                    _un("local `%s` is not a plain value here" % e.id, e)
                return [], v.coq, v.ty
            _un("name `%s` not read" % e.id, e)
        if isinstance(e, ast.Constant):
            if isinstance(e.value, bool):
                return [], "true" if e.value else "false", BOOL
            if isinstance(e.value, int):
                return [], "(%d)" % e.value, Z
            if isinstance(e.value, str):
                return [], _coq_string(e.value), STR
            _un("constant %r not read" % (e.value,), e)
        if isinstance(e, ast.Attribute):
            return self.attribute(e, env)
        if isinstance(e, ast.Tuple):
            return self.tuple_(e, env, exp)
        if isinstance(e, ast.List):
            if e.elts:
                _un("non-empty list display", e)
            return [], "[]", L(ANY)
        if isinstance(e, ast.BinOp):
            return self.binop(e, env)
        if isinstance(e, ast.UnaryOp):
            if isinstance(e.op, ast.USub) and isinstance(e.operand, ast.Constant) \
                    and isinstance(e.operand.value, int) and not isinstance(e.operand.value, bool):
                return [], "(-%d)" % e.operand.value, Z
            if isinstance(e.op, ast.Not):
                b, t, ty = self.tr(e.operand, env, BOOL)
                return b, "(negb %s)" % t, BOOL
            _un("unary operator not read", e)
        if isinstance(e, ast.BoolOp):
            op = "andb" if isinstance(e.op, ast.And) else "orb"
            b0, t, _ = self.tr(e.values[0], env, BOOL)
            for v in e.values[1:]:
                t2, _ = self.pure(v, env, BOOL)  # short-circuit: a later operand must not raise
                t = "(%s %s %s)" % (op, t, t2)
            return b0, t, BOOL
        if isinstance(e, ast.Compare):
            return self.compare(e, env)
        if isinstance(e, ast.IfExp):
            return self.ifexp(e, env, exp)
        if isinstance(e, ast.Call):
            return self.call(e, env, exp)
        if isinstance(e, (ast.GeneratorExp, ast.ListComp)):
            return self.comp(e.elt, e.generators, env, exp[1] if exp and exp[0] == "list" else None)
        if isinstance(e, ast.DictComp):
            return self.dictcomp(e, env)
        if isinstance(e, ast.Subscript):
            bd, td, tyd = self.tr(e.value, env)
            if tyd[0] != "dict":
                _un("subscript of a %r" % (tyd,), e)
            bk, tk, _ = self.tr(e.slice, env, tyd[1])
            t = self.fresh()
            return bd + bk + [("bind", t, "(py_dict_getitem %s %s %s)" % (eqb_of(tyd[1]), td, tk))], t, tyd[2]
        _un("expression %s not read" % type(e).__name__, e)

    def attribute(self, e, env):
        v = e.value
        if isinstance(v, ast.Name) and v.id == "sys" and e.attr == "maxsize" and "sys" not in env:
            return [], "MAXSIZE", Z
        if isinstance(v, ast.Name) and v.id == "ORDER_FORMAT" and "ORDER_FORMAT" not in env:
            if e.attr in ("SIGNED_INDEXES", "BOGUS_IDS"):
                return [], e.attr, FMT
            _un("ORDER_FORMAT.%s" % e.attr, e)
        obj = self.collator_object(v, env)
        if obj is not None:
            bo, to = obj
            if e.attr in SELF_ATTRS:
                f, ty = SELF_ATTRS[e.attr]
                return bo, "(%s %s)" % (f, to), ty
            if e.attr in MEMBERS:
                info = self.dep(e.attr)
                if info["kind"] != "lazy":
                    _un("self.%s is a method, read as an attribute" % e.attr, e)
                if info["monadic"]:
                    t = self.fresh()
                    return bo + [("bind", t, "(m_%s %s)" % (e.attr, to))], t, info["ret"]
                return bo, "(m_%s %s)" % (e.attr, to), info["ret"]
            _un("self.%s not read" % e.attr, e)
        b, t, ty = self.tr(v, env)
        if (ty, e.attr) in ATTRS:
            f, rty = ATTRS[(ty, e.attr)]
            return b, "(%s %s)" % (f, t), rty
        _un("attribute .%s of a %r not read" % (e.attr, ty), e)

    def collator_object(self, v, env):
        """`self`, or `cls(<args>)` in a classmethod: (binds, Coq term of type pycollator); else None"""
        if isinstance(v, ast.Name) and v.id == "self" and self.kind in ("lazy", "plain") \
                and self.name != "__init__" and "self" not in env:
            return [], "self"
        if isinstance(v, ast.Call) and isinstance(v.func, ast.Name) and v.func.id == "cls" \
                and self.kind == "class" and "cls" not in env:
            if v.keywords or any(isinstance(a, ast.Starred) for a in v.args):
                _un("cls(..) with keyword / starred arguments", v)
            info = self.dep("__init__")
            if len(v.args) != len(info["params"]):
                _un("cls(..): %d argument(s) for %d parameter(s)" % (len(v.args), len(info["params"])), v)
            binds, args = [], []
            for a, (_, pty) in zip(v.args, info["params"]):
                b, t, _ = self.tr(a, env, pty)
                binds += b
                args.append(t)
            return binds, "(m___init__ %s)" % " ".join(args)
        return None

    def tuple_(self, e, env, exp):
        if not e.elts:
            return [], "[]", L(ANY)
        exps = exp[1] if exp is not None and exp[0] == "tup" else None
        binds, terms, tys = [], [], []
        for el in e.elts:
            if isinstance(el, ast.Starred):
                b, t, ty = self.tr(el.value, env)
                if ty[0] != "tup" or len(ty[1]) != 2:
                    _un("starred value is not a pair", el)
                if not t.isidentifier():
                    n = self.fresh()
                    b = b + [("let", n, t)]
                    t = n
                binds += b
                terms += ["(fst %s)" % t, "(snd %s)" % t]
                tys += list(ty[1])
            else:
                want = exps[len(tys)] if exps is not None and len(tys) < len(exps) else None
                b, t, ty = self.tr(el, env, want)
                binds += b
                terms.append(t)
                tys.append(ty)
        if len(terms) < 2:
            _un("tuple display of one item", e)
        return binds, "(%s)" % ", ".join(terms), TUP(*tys)

    def binop(self, e, env):
        bl, tl, tyl = self.tr(e.left, env)
        br, tr_, tyr = self.tr(e.right, env)
        if isinstance(e.op, ast.Add) and tyl[0] == "list" and tyr[0] == "list":
            return bl + br, "(%s ++ %s)" % (tl, tr_), join(tyl, tyr)
        if isinstance(e.op, (ast.Add, ast.Sub)) and tyl == Z and tyr == Z:
            return bl + br, "(%s %s %s)" % (tl, "+" if isinstance(e.op, ast.Add) else "-", tr_), Z
        _un("binary operator on %r and %r not read" % (tyl, tyr), e)

    def compare(self, e, env):
        if len(e.ops) != 1:
            _un("chained comparison", e)
        op, lhs, rhs = e.ops[0], e.left, e.comparators[0]
        if isinstance(op, (ast.Is, ast.IsNot)):
            if not (isinstance(rhs, ast.Constant) and rhs.value is None):
                _un("`is` with something other than None", e)
            b, t, ty = self.tr(lhs, env)
            if ty != DANCHOR:
                _un("`is None` on a %r" % (ty,), e)
            r = "(danchor_is_none %s)" % t
            return b, r if isinstance(op, ast.Is) else "(negb %s)" % r, BOOL
        if isinstance(op, (ast.In, ast.NotIn)):
            br, tr_, tyr = self.tr(rhs, env)
            if tyr[0] in ("set", "list"):
                bl, tl, _ = self.tr(lhs, env, tyr[1])
                r = "(py_in %s %s %s)" % (eqb_of(tyr[1]), tl, tr_)
            elif tyr[0] == "dict":
                bl, tl, _ = self.tr(lhs, env, tyr[1])
                r = "(py_dict_mem %s %s %s)" % (eqb_of(tyr[1]), tr_, tl)
            else:
                _un("`in` on a %r" % (tyr,), e)
            # Python evaluates the left operand first
            if any(k == "bind" for k, _, _ in bl) and any(k == "bind" for k, _, _ in br):
                pass  # both may raise: binds are emitted left operand first below
            return bl + br, r if isinstance(op, ast.In) else "(negb %s)" % r, BOOL
        if isinstance(op, (ast.Eq, ast.NotEq)):
            if _is_str_const(lhs) and not _is_str_const(rhs):
                lhs, rhs = rhs, lhs  # == on these domains is symmetric
            bl, tl, tyl = self.tr(lhs, env)
            if tyl in (NANCHOR, DANCHOR):
                if not _is_str_const(rhs):
                    _un("an anchor is compared with something other than a string constant", e)
                f = "nanchor_eq_str" if tyl == NANCHOR else "danchor_eq_str"
                r = "(%s %s %s)" % (f, tl, _coq_string(rhs.value))
                br = []
            else:
                br, tr_, tyr = self.tr(rhs, env)
                if tyl == Z and tyr == IDENT:
                    tl, tyl = coerce(tl, tyl, IDENT)
                elif tyl == IDENT and tyr == Z:
                    tr_, tyr = coerce(tr_, tyr, IDENT)
                if tyl != tyr:
                    _un("== between %r and %r" % (tyl, tyr), e)
                r = "(%s %s %s)" % (eqb_of(tyl), tl, tr_)
            return bl + br, r if isinstance(op, ast.Eq) else "(negb %s)" % r, BOOL
        cmpf = {ast.Lt: "Z.ltb", ast.LtE: "Z.leb", ast.Gt: "Z.gtb", ast.GtE: "Z.geb"}
        for k, f in cmpf.items():
            if isinstance(op, k):
                bl, tl, _ = self.tr(lhs, env, Z)
                br, tr_, _ = self.tr(rhs, env, Z)
                return bl + br, "(%s %s %s)" % (f, tl, tr_), BOOL
        _un("comparison operator not read", e)

    def branch(self, e, env, exp):
        """an expression evaluated only on one side of a condition: (term, type, raises)"""
        b, t, ty = self.tr(e, env, exp)
        return b, t, ty, any(k == "bind" for k, _, _ in b)

    def truth(self, e, env):
        """a condition: a bool, or a sequence (true when it is not empty)"""
        b, t, ty = self.tr(e, env)
        if ty == BOOL:
            return b, t
        if ty[0] == "list":
            return b, "(py_truthy %s)" % t
        _un("truth value of a %r" % (ty,), e)

    def ifexp(self, e, env, exp):
        bc, tc = self.truth(e.test, env)
        b1, t1, ty1, m1 = self.branch(e.body, env, exp)
        b2, t2, ty2, m2 = self.branch(e.orelse, env, exp)
        ty = join(ty1, ty2)
        if m1 or m2:
            n = self.fresh()
            term = "(if %s then %s else %s)" % (tc, self.wrap(b1, "(Ok %s)" % t1), self.wrap(b2, "(Ok %s)" % t2))
            return bc + [("bind", n, term)], n, ty
        return bc, "(if %s then %s else %s)" % (tc, self.wrap(b1, t1), self.wrap(b2, t2)), ty

    def comp(self, elt, generators, env, exp_elem):
        if len(generators) != 1 or generators[0].is_async:
            _un("comprehension with several `for`", elt)
        g = generators[0]
        bi, ti, tyi = self.tr(g.iter, env)
        if tyi[0] != "list":
            _un("iteration over a %r" % (tyi,), g.iter)
        env2 = dict(env)
        pat, is_t = self.pattern(g.target, tyi[1], env2)
        bnd = self.binder(pat, is_t)
        src = ti
        if g.ifs:
            conds = [self.pure(c, env2, BOOL)[0] for c in g.ifs]
            c = conds[0]
            for c2 in conds[1:]:
                c = "(andb %s %s)" % (c, c2)
            src = "(filter (fun %s => %s) %s)" % (bnd, c, ti)
        be, te, tye = self.tr(elt, env2, exp_elem)
        if any(k == "bind" for k, _, _ in be):
            n = self.fresh()
            term = "(py_mapM (fun %s => %s) %s)" % (bnd, self.wrap(be, "(Ok %s)" % te), src)
            return bi + [("bind", n, term)], n, L(tye)
        body = self.wrap(be, te)
        if not is_t and body == pat:
            return bi, src, L(tye)
        return bi, "(map (fun %s => %s) %s)" % (bnd, body, src), L(tye)

    def dictcomp(self, e, env):
        if len(e.generators) != 1:
            _un("dict comprehension with several `for`", e)
        g = e.generators[0]
        if g.ifs:
            _un("dict comprehension with a condition", e)
        bi, ti, tyi = self.tr(g.iter, env)
        if tyi[0] != "list":
            _un("iteration over a %r" % (tyi,), g.iter)
        env2 = dict(env)
        pat, is_t = self.pattern(g.target, tyi[1], env2)
        tk, tyk = self.pure(e.key, env2)
        tv, tyv = self.pure(e.value, env2)
        return bi, "(py_dict_of_pairs %s (map (fun %s => (%s, %s)) %s))" % (
            eqb_of(tyk), self.binder(pat, is_t), tk, tv, ti), D(tyk, tyv)

    def seq_arg(self, a, env, exp_elem=None):
        """argument of tuple() / frozenset() / sorted() ...: a sequence or a generator expression"""
        if isinstance(a, (ast.GeneratorExp, ast.ListComp)):
            return self.comp(a.elt, a.generators, env, exp_elem)
        return self.tr(a, env)

    def call(self, e, env, exp):
        f = e.func
        nargs = len(e.args)
        kw = {k.arg: k.value for k in e.keywords}
        if None in kw:
            _un("**kwargs", e)
        if any(isinstance(a, ast.Starred) for a in e.args):
            _un("*args", e)
        # --- builtins ---------------------------------------------------------------------------
        if isinstance(f, ast.Name) and f.id not in env:
            if f.id == "tuple" and not kw:
                if nargs == 0:
                    return [], "[]", L(ANY)
                if nargs == 1:
                    b, t, ty = self.seq_arg(e.args[0], env, exp[1] if exp and exp[0] == "list" else None)
                    if ty[0] == "list":
                        return b, t, ty
                    if ty[0] == "dict":
                        return b, "(py_dict_keys %s)" % t, L(ty[1])
                    _un("tuple() of a %r" % (ty,), e)
            if f.id == "frozenset" and nargs == 1 and not kw:
                b, t, ty = self.seq_arg(e.args[0], env)
                if ty[0] != "list":
                    _un("frozenset() of a %r" % (ty,), e)
                return b, "(py_frozenset %s)" % t, SET(ty[1])
            if f.id == "len" and nargs == 1 and not kw:
                b, t, ty = self.tr(e.args[0], env)
                if ty[0] not in ("list", "dict"):
                    _un("len() of a %r" % (ty,), e)
                return b, "(py_len %s)" % t, Z
            if f.id == "range" and nargs == 1 and not kw:
                b, t, _ = self.tr(e.args[0], env, Z)
                return b, "(py_range %s)" % t, L(Z)
            if f.id == "enumerate" and nargs == 1 and not kw:
                b, t, ty = self.seq_arg(e.args[0], env)
                if ty[0] != "list":
                    _un("enumerate() of a %r" % (ty,), e)
                return b, "(py_enumerate %s)" % t, L(TUP(Z, ty[1]))
            if f.id == "zip" and nargs == 2 and not kw:
                b1, t1, ty1 = self.tr(e.args[0], env)
                b2, t2, ty2 = self.tr(e.args[1], env)
                if ty1[0] != "list" or ty2[0] != "list":
                    _un("zip() of %r and %r" % (ty1, ty2), e)
                return b1 + b2, "(py_zip %s %s)" % (t1, t2), L(TUP(ty1[1], ty2[1]))
            if f.id == "sorted" and nargs == 1 and set(kw) <= {"reverse"}:
                b, t, ty = self.seq_arg(e.args[0], env)
                if ty == KEYS3 and not kw:
                    return b, "(py_sorted_keys %s)" % t, ty
                if ty in (L(TUP(SVAL, Z)), L(ANY), L(TUP(ANY, ANY))):
                    if "reverse" in kw:
                        br, tr_, _ = self.tr(kw["reverse"], env, BOOL)
                    else:
                        br, tr_ = [], "false"
                    return b + br, "(py_sorted_vals %s %s)" % (tr_, t), L(TUP(SVAL, Z))
                _un("sorted() of a %r" % (ty,), e)
            if f.id == "dict" and nargs == 1 and not kw:
                b, t, ty = self.seq_arg(e.args[0], env)
                if ty[0] != "list" or ty[1][0] != "tup" or len(ty[1][1]) != 2:
                    _un("dict() of a %r" % (ty,), e)
                k, v = ty[1][1]
                return b, "(py_dict_of_pairs %s %s)" % (eqb_of(k), t), D(k, v)
            if f.id == "int" and nargs == 1 and not kw:
                b, t, ty = self.tr(e.args[0], env)
                if ty != NANCHOR:
                    _un("int() of a %r" % (ty,), e)
                n = self.fresh()
                return b + [("bind", n, "(py_int_nanchor %s)" % t)], n, Z
            if f.id in env:
                pass
            else:
                _un("call of `%s` not read" % f.id, e)
        # --- a local generator function ----------------------------------------------------------
        if isinstance(f, ast.Name) and f.id in env:
            v = env[f.id]
            if not v.gen or nargs or kw:
                _un("call of local `%s` not read" % f.id, e)
            n = self.fresh()
            return [("bind", n, v.coq)], n, v.ty
        if isinstance(f, ast.Attribute):
            o = f.value
            # collections.OrderedDict(pairs), dict.fromkeys(keys), np.isnan(v)
            if isinstance(o, ast.Name) and o.id == "collections" and f.attr == "OrderedDict" \
                    and "collections" not in env and nargs == 1 and not kw:
                b, t, ty = self.seq_arg(e.args[0], env)
                if ty[0] != "list" or ty[1][0] != "tup" or len(ty[1][1]) != 2:
                    _un("OrderedDict() of a %r" % (ty,), e)
                k, v = ty[1][1]
                return b, "(py_dict_of_pairs %s %s)" % (eqb_of(k), t), D(k, v)
            if isinstance(o, ast.Name) and o.id == "dict" and f.attr == "fromkeys" \
                    and "dict" not in env and nargs == 1 and not kw:
                b, t, ty = self.seq_arg(e.args[0], env)
                if ty[0] != "list":
                    _un("dict.fromkeys() of a %r" % (ty,), e)
                return b, "(py_dict_fromkeys %s %s)" % (eqb_of(ty[1]), t), D(ty[1], UNIT)
            if isinstance(o, ast.Name) and o.id == "np" and f.attr == "isnan" \
                    and "np" not in env and nargs == 1 and not kw:
                b, t, ty = self.tr(e.args[0], env, SVAL)
                n = self.fresh()
                return b + [("bind", n, "(np_isnan %s)" % t)], n, BOOL
            # self.<method>(args)
            if isinstance(o, ast.Name) and o.id == "self" and self.kind in ("lazy", "plain") \
                    and self.name != "__init__" and "self" not in env and not kw:
                if f.attr not in MEMBERS:
                    _un("self.%s() not read" % f.attr, e)
                info = self.dep(f.attr)
                if info["kind"] not in ("plain", "static") or len(info["params"]) != nargs:
                    _un("self.%s: not a method of %d argument(s)" % (f.attr, nargs), e)
                binds, args = [], []
                for a, (_, pty) in zip(e.args, info["params"]):
                    b, t, _ = self.tr(a, env, pty)
                    binds += b
                    args.append(t)
                term = "(m_%s self %s)" % (f.attr, " ".join(args))
                if info["monadic"]:
                    n = self.fresh()
                    return binds + [("bind", n, term)], n, info["ret"]
                return binds, term, info["ret"]
            # methods of values
            b, t, ty = self.tr(o, env)
            if ty == DANCHOR and f.attr == "get" and nargs == 1 and not kw and _is_str_const(e.args[0]):
                key = e.args[0].value
                if key == "alias":
                    return b, "(danchor_get_ident %s %s)" % (t, _coq_string(key)), IDENT
                if key == "position":
                    return b, "(danchor_get_str %s %s)" % (t, _coq_string(key)), STR
                _un("anchor.get(%r)" % key, e)
            if ty == L(ELEM) and f.attr == "get_by_id" and nargs == 1 and not kw:
                ba, ta, _ = self.tr(e.args[0], env, IDENT)
                n = self.fresh()
                return b + ba + [("bind", n, "(elements_get_by_id %s %s)" % (t, ta))], n, ELEM
            if ty[0] == "dict" and f.attr == "items" and nargs == 0 and not kw:
                return b, "(py_dict_items %s)" % t, L(TUP(ty[1], ty[2]))
            _un("method .%s() of a %r not read" % (f.attr, ty), e)
        _un("call not read", e)

    # -- statements ------------------------------------------------------------------------------
    @staticmethod
    def _is_doc(s):
        return isinstance(s, ast.Expr) and isinstance(s.value, ast.Constant) and isinstance(s.value.value, str)

    def _resolve_recv(self, name, env, node):
        """locals a `<name>.append(..)` may mutate"""
        if name not in env:
            _un("`%s` not read" % name, node)
        v = env[name]
        if v.alias is not None:
            return list(v.alias)
        if v.mutable:
            return [name]
        _un("`%s` is not a local list" % name, node)

    def mutated(self, stmts, env):
        """names (in env) a block may rebind / mutate"""
        out = []

        def add(n):
            if n not in out:
                out.append(n)

        def walk(ss, aliases):
            for s in ss:
                if isinstance(s, (ast.Assign, ast.AnnAssign)):
                    tg = s.targets[0] if isinstance(s, ast.Assign) else s.target
                    if isinstance(s, ast.Assign) and len(s.targets) != 1:
                        _un("multiple assignment", s)
                    if not isinstance(tg, ast.Name):
                        _un("assignment target not read", s)
                    add(tg.id)
                    v = s.value
                    if isinstance(v, ast.Call) and isinstance(v.func, ast.Attribute) and v.func.attr == "pop" \
                            and isinstance(v.func.value, ast.Name):
                        add(v.func.value.id)
                    if isinstance(v, ast.IfExp) and isinstance(v.body, ast.Name) and isinstance(v.orelse, ast.Name):
                        aliases[tg.id] = (v.body.id, v.orelse.id)
                elif isinstance(s, ast.Expr) and isinstance(s.value, ast.Yield):
                    add("yield")
                elif isinstance(s, ast.Expr) and isinstance(s.value, ast.Call) \
                        and isinstance(s.value.func, ast.Attribute) and s.value.func.attr == "append" \
                        and isinstance(s.value.func.value, ast.Name):
                    r = s.value.func.value.id
                    for n in aliases.get(r, (r,)):
                        add(n)
                elif isinstance(s, ast.If):
                    walk(s.body, aliases)
                    walk(s.orelse, aliases)
                elif isinstance(s, ast.For):
                    walk(s.body, aliases)
                elif isinstance(s, (ast.Return, ast.Continue, ast.Expr, ast.Pass)):
                    pass
                else:
                    _un("statement %s not read" % type(s).__name__, s)

        aliases = {k: v.alias for k, v in env.items() if v.alias is not None}
        walk(stmts, aliases)
        # the yield accumulator first, then by name (so that re-ordering independent statements does not
        # change the generated state tuple); loop-local names (not in env) are dropped
        return [n for n in ("yield",) if n in out and n in env] + sorted(n for n in env if n in out and n != "yield")

    def state(self, names, env):
        pats = [env[n].coq for n in names]
        if not pats:
            _un("a loop / conditional block that changes nothing")
        if len(pats) == 1:
            return pats[0], pats[0]
        tup = "(%s)" % ", ".join(pats)
        return "'" + tup, tup

    @staticmethod
    def _always_returns(stmts):
        if not stmts:
            return False
        s = stmts[-1]
        if isinstance(s, ast.Return):
            return True
        if isinstance(s, ast.If):
            return _Member._always_returns(s.body) and _Member._always_returns(s.orelse)
        return False

    def block(self, stmts, env, tail):
        """Coq term for `stmts` then `tail(env)` (what happens when control falls off the end)"""
        if not stmts:
            if tail is None:
                _un("control reaches the end of the function without `return`")
            return tail(env)
        s, rest = stmts[0], list(stmts[1:])
        if self._is_doc(s) or isinstance(s, ast.Pass):
            return self.block(rest, env, tail)
        if isinstance(s, ast.Return):
            if rest:
                _un("statements after `return`", rest[0])
            if self.in_gen or s.value is None:
                _un("`return` in a generator / without value", s)
            b, t, _ = self.tr(s.value, env, self.ret)
            return self.wrap(b, self.retn(t))
        if isinstance(s, ast.Continue):
            if rest:
                _un("statements after `continue`", rest[0])
            if tail is None or not getattr(tail, "is_loop", False):
                _un("`continue` outside the body of a loop", s)
            return tail(env)
        if isinstance(s, (ast.Assign, ast.AnnAssign)):
            return self.assign(s, rest, env, tail)
        if isinstance(s, ast.Expr) and isinstance(s.value, ast.Yield):
            if not self.in_gen or s.value.value is None:
                _un("`yield` not read here", s)
            y = env["yield"]
            b, t, ty = self.tr(s.value.value, env)
            y.ty = L(join(y.ty[1], ty))
            return self.wrap(b, "(let %s := (%s ++ [%s]) in %s)" % (y.coq, y.coq, t, self.block(rest, env, tail)))
        if isinstance(s, ast.Expr) and isinstance(s.value, ast.Call):
            c = s.value
            if isinstance(c.func, ast.Attribute) and c.func.attr == "append" and isinstance(c.func.value, ast.Name) \
                    and len(c.args) == 1 and not c.keywords:
                return self.append(c, rest, env, tail)
            _un("expression statement not read", s)
        if isinstance(s, ast.If):
            return self.if_(s, rest, env, tail)
        if isinstance(s, ast.For):
            return self.for_(s, rest, env, tail)
        if isinstance(s, ast.FunctionDef):
            return self.localgen(s, rest, env, tail)
        if isinstance(s, ast.Try):
            return self.try_(s, rest, env)
        _un("statement %s not read" % type(s).__name__, s)

    def assign(self, s, rest, env, tail):
        if isinstance(s, ast.Assign):
            if len(s.targets) != 1:
                _un("multiple assignment", s)
            tg, v = s.targets[0], s.value
        else:
            tg, v = s.target, s.value  # the annotation is not read
            if v is None:
                _un("annotation without value", s)
        if not isinstance(tg, ast.Name) or tg.id in ("_", "self", "yield"):
            _un("assignment target not read", s)
        if tg.id in env and (env[tg.id].gen or env[tg.id].alias is not None):
            _un("`%s` is re-bound" % tg.id, s)
        # x = d.pop(k)
        if isinstance(v, ast.Call) and isinstance(v.func, ast.Attribute) and v.func.attr == "pop":
            o = v.func.value
            if not (isinstance(o, ast.Name) and o.id in env and env[o.id].ty[0] == "dict"
                    and len(v.args) == 1 and not v.keywords):
                _un(".pop() not read", s)
            d = env[o.id]
            bk, tk, _ = self.tr(v.args[0], env, d.ty[1])
            env[tg.id] = _Var(d.ty[2], lname(tg.id))
            term = "(py_dict_popitem %s %s %s)" % (eqb_of(d.ty[1]), d.coq, tk)
            return self.wrap(bk + [("bind", "'(%s, %s)" % (lname(tg.id), d.coq), term)], self.block(rest, env, tail))
        # g = A if c else B   with A, B local lists: g is an alias
        if isinstance(v, ast.IfExp) and isinstance(v.body, ast.Name) and isinstance(v.orelse, ast.Name) \
                and v.body.id in env and v.orelse.id in env \
                and env[v.body.id].mutable and env[v.orelse.id].mutable and v.body.id != v.orelse.id:
            bc, tc, _ = self.tr(v.test, env, BOOL)
            env[tg.id] = _Var(BOOL, lname(tg.id), alias=(v.body.id, v.orelse.id))
            return self.wrap(bc + [("let", lname(tg.id), tc)], self.block(rest, env, tail))
        b, t, ty = self.tr(v, env)
        is_new_list = isinstance(v, ast.List) and not v.elts
        if tg.id in env and env[tg.id].mutable and not is_new_list:
            _un("a local list is re-bound", s)
        env[tg.id] = _Var(ty, lname(tg.id), mutable=is_new_list)
        return self.wrap(b + [("let", lname(tg.id), t)], self.block(rest, env, tail))

    def append(self, c, rest, env, tail):
        recv = c.func.value.id
        names = self._resolve_recv(recv, env, c)
        b, t, ty = self.tr(c.args[0], env)
        for n in names:
            env[n].ty = L(join(env[n].ty[1], ty))
        if len(names) == 1:
            x = env[names[0]].coq
            return self.wrap(b, "(let %s := (%s ++ [%s]) in %s)" % (x, x, t, self.block(rest, env, tail)))
        a, o = env[names[0]].coq, env[names[1]].coq
        g = env[recv].coq
        term = "(let '(%s, %s) := (if %s then (%s ++ [%s], %s) else (%s, %s ++ [%s])) in %s)" % (
            a, o, g, a, t, o, a, o, t, self.block(rest, env, tail))
        return self.wrap(b, term)

    def if_(self, s, rest, env, tail):
        bc, tc, _ = self.tr(s.test, env, BOOL)
        # if c: <returns>            (no else)  -> if c then .. else <rest>
        if self._always_returns(s.body) and not s.orelse:
            return self.wrap(bc, "(if %s then %s else %s)" % (
                tc, self.block(s.body, dict(env), None), self.block(rest, env, tail)))
        if self._always_returns(s.body) and self._always_returns(s.orelse):
            if rest:
                _un("statements after an if/else that always returns", rest[0])
            return self.wrap(bc, "(if %s then %s else %s)" % (
                tc, self.block(s.body, dict(env), None), self.block(s.orelse, dict(env), None)))
        # if c: continue
        if len(s.body) == 1 and isinstance(s.body[0], ast.Continue) and not s.orelse:
            if tail is None or not getattr(tail, "is_loop", False):
                _un("`continue` outside the body of a loop", s)
            return self.wrap(bc, "(if %s then %s else %s)" % (tc, tail(env), self.block(rest, env, tail)))
        # a block that changes locals and falls through
        if not self.monadic:
            _un("a conditional block in a member declared pure", s)
        names = self.mutated(list(s.body) + list(s.orelse), env)
        pat, tup = self.state(names, env)

        def done(e):
            return "(Ok %s)" % tup

        e1, e2 = self._fork(env), self._fork(env)
        t1 = self.block(s.body, e1, done)
        t2 = self.block(s.orelse, e2, done)
        for n in names:
            env[n].ty = join(join(env[n].ty, e1[n].ty), e2[n].ty)
        return self.wrap(bc, "(bind (if %s then %s else %s) (fun %s => %s))" % (
            tc, t1, t2, pat, self.block(rest, env, tail)))

    @staticmethod
    def _fork(env):
        return {k: _Var(v.ty, v.coq, v.mutable, v.alias, v.gen) for k, v in env.items()}

    def for_(self, s, rest, env, tail):
        if s.orelse:
            _un("for ... else", s)
        if not self.monadic:
            _un("a loop in a member declared pure", s)
        bi, ti, tyi = self.tr(s.iter, env)
        if tyi[0] != "list":
            _un("iteration over a %r" % (tyi,), s.iter)
        names = self.mutated(s.body, env)
        pat, tup = self.state(names, env)
        body_env = self._fork(env)
        ipat, is_t = self.pattern(s.target, tyi[1], body_env)

        def done(e):
            return "(Ok %s)" % tup

        done.is_loop = True
        body = self.block(s.body, body_env, done)
        for n in names:
            env[n].ty = join(env[n].ty, body_env[n].ty)
        return self.wrap(bi, "(bind (py_foldM (fun %s %s => %s) %s %s) (fun %s => %s))" % (
            pat, self.binder(ipat, is_t), body, ti, tup, pat, self.block(rest, env, tail)))

    def localgen(self, s, rest, env, tail):
        a = s.args
        if a.args or a.vararg or a.kwarg or a.kwonlyargs or a.posonlyargs or s.decorator_list:
            _un("local function with parameters / decorators", s)
        if s.name in env:
            _un("local function re-bound", s)
        if not self.monadic:
            _un("a local generator in a member declared pure", s)
        has_yield = any(isinstance(n, (ast.Yield, ast.YieldFrom)) for n in ast.walk(s))
        if not has_yield:
            _un("local function that is no generator", s)
        genv = self._fork(env)
        genv["yield"] = _Var(L(ANY), "y_out", mutable=False)
        self.in_gen += 1
        try:
            term = "(let y_out := [] in %s)" % self.block(s.body, genv, lambda e: "(Ok y_out)")
        finally:
            self.in_gen -= 1
        env[s.name] = _Var(genv["yield"].ty, lname(s.name), gen=True)
        return "(let %s := %s in %s)" % (lname(s.name), term, self.block(rest, env, tail))

    def try_(self, s, rest, env):
        """try: return A / except TypeError: return B"""
        if rest or s.orelse or s.finalbody or len(s.handlers) != 1 or not self.monadic:
            _un("try statement not read", s)
        h = s.handlers[0]
        if not (isinstance(h.type, ast.Name) and h.type.id == "TypeError" and h.name is None):
            _un("except clause not read", s)
        if not (len(s.body) == 1 and isinstance(s.body[0], ast.Return)
                and len(h.body) == 1 and isinstance(h.body[0], ast.Return)):
            _un("try / except bodies other than a single return", s)
        return "(py_try_except %s TypeError %s)" % (
            self.block(s.body, dict(env), None), self.block(h.body, dict(env), None))

    # -- the member -----------------------------------------------------------------------------
    def init_fields(self, cname, fn, env, fields):
        """the attribute assignments of `cname.__init__` (and, through super().__init__, of its bases):
        list of ("let", name, term) that ends with every stored attribute bound to f_<attr>"""
        lets = []
        for s in fn.body:
            if self._is_doc(s) or isinstance(s, ast.Pass):
                continue
            if isinstance(s, ast.Assign) and len(s.targets) == 1 and isinstance(s.targets[0], ast.Attribute) \
                    and isinstance(s.targets[0].value, ast.Name) and s.targets[0].value.id == "self":
                attr = s.targets[0].attr
                if attr not in SELF_ATTRS or attr in fields:
                    _un("__init__ stores self.%s" % attr, s)
                t, _ = self.pure(s.value, env, SELF_ATTRS[attr][1])
                lets.append(("let", "f_%s" % attr, t))
                fields.add(attr)
                continue
            c = s.value if isinstance(s, ast.Expr) else None
            if isinstance(c, ast.Call) and isinstance(c.func, ast.Attribute) and c.func.attr == "__init__" \
                    and isinstance(c.func.value, ast.Call) and isinstance(c.func.value.func, ast.Name) \
                    and c.func.value.func.id == "super" and not c.keywords and not c.func.value.keywords:
                sargs = c.func.value.args
                if sargs and not (len(sargs) == 2 and isinstance(sargs[0], ast.Name) and sargs[0].id == cname
                                  and isinstance(sargs[1], ast.Name) and sargs[1].id == "self"):
                    _un("super(..) arguments not read", s)
                mro = self.family.mod.mro(cname)
                pname, pfn = None, None
                for b in mro[1:]:
                    defs = [f for f in self.family.mod.functions(b) if f.name == "__init__"]
                    if defs:
                        pname, pfn = b, defs[0]
                        break
                if pfn is None:
                    _un("super().__init__ without a base class constructor", s)
                pa = pfn.args
                if pa.vararg or pa.kwarg or pa.kwonlyargs or pa.posonlyargs or _decorator_kind(pfn) != "plain":
                    _un("%s.__init__: parameter list not read" % pname, s)
                pnames = [x.arg for x in pa.args][1:]
                if len(c.args) != len(pnames) or any(isinstance(x, ast.Starred) for x in c.args):
                    _un("super().__init__: every parameter must be passed positionally", s)
                penv = {}
                terms = []
                for pn, x in zip(pnames, c.args):
                    if pn not in PARAM_TYPES:
                        _un("%s.__init__: parameter `%s` has no type in the translator's table" % (pname, pn), s)
                    t, _ = self.pure(x, env, PARAM_TYPES[pn])
                    terms.append((pn, t))
                for pn, t in terms:  # simultaneous binding: evaluate all arguments first
                    lets.append(("let", "a_%s" % pn, t))
                for pn, _ in terms:
                    lets.append(("let", lname(pn), "a_%s" % pn))
                    penv[pn] = _Var(PARAM_TYPES[pn], lname(pn))
                lets += self.init_fields(pname, pfn, penv, fields)
                continue
            _un("__init__: statement not read", s)
        return lets

    def translate_init(self):
        fn = self.fn
        a = fn.args
        if a.vararg or a.kwarg or a.kwonlyargs or a.posonlyargs or a.kw_defaults:
            _un("parameter list not read")  # defaults are allowed: every caller read here passes all
        env = {}
        for p, ty in self.params:
            env[p] = _Var(ty, lname(p))
        fields = set()
        lets = self.init_fields(self.owner, fn, env, fields)
        vals = []
        for f in RECORD_FIELDS:
            if f in fields:
                vals.append("f_%s" % f)
            elif f in RECORD_DEFAULT:
                vals.append(RECORD_DEFAULT[f])
            else:
                _un("__init__ does not store self.%s" % f)
        body = self.wrap(lets, "(mkPyCollator %s)" % " ".join(vals))
        binders = "".join(" (%s : %s)" % (lname(p), coq_ty(ty)) for p, ty in self.params)
        return "(fun%s => %s)" % (binders, body)

    def translate(self):
        fn = self.fn
        if self.name == "__init__":
            return self.translate_init()
        a = fn.args
        if a.vararg or a.kwarg or a.kwonlyargs or a.posonlyargs or a.defaults or a.kw_defaults:
            _un("parameter list not read")
        names = [x.arg for x in a.args]
        first = {"static": [], "class": ["cls"]}.get(self.kind, ["self"])
        want = first + [p for p, _ in self.params]
        if names != want:
            _un("parameters %r, expected %r" % (names, want))
        if self.kind == "lazy" and self.params:
            _un("a property with parameters")
        env = {}
        for p, ty in self.params:
            env[p] = _Var(ty, lname(p))
        is_gen = any(isinstance(n, (ast.Yield, ast.YieldFrom)) for n in self._own_nodes(fn))
        if is_gen:
            if not self.monadic or self.ret[0] != "list":
                _un("a generator whose declared result is no sequence")
            env["yield"] = _Var(L(ANY), "y_out")
            self.in_gen += 1
            body = "(let y_out := [] in %s)" % self.block(fn.body, env, lambda e: "(Ok y_out)")
            self.in_gen -= 1
            coerce("y_out", env["yield"].ty, self.ret)
        else:
            body = self.block(fn.body, env, None)
        binders = "".join(" (%s : %s)" % (lname(p), coq_ty(ty)) for p, ty in self.params)
        if self.kind != "class":
            binders = " (self : pycollator)" + binders
        return "(fun%s => %s)" % (binders, body)

    @staticmethod
    def _own_nodes(fn):
        """nodes of fn outside nested function definitions"""
        stack = list(fn.body)
        while stack:
            n = stack.pop()
            if isinstance(n, (ast.FunctionDef, ast.Lambda)):
                continue
            yield n
            stack.extend(ast.iter_child_nodes(n))


def sig_type(sig, with_self=True):
    params, ret, monadic = sig
    r = coq_ty(ret)
    if monadic:
        r = "res (%s)" % r
    return " -> ".join((["pycollator"] if with_self else []) + [coq_ty(t) for _, t in params] + [r])


def special_sig(name, concrete):
    """signature of __init__ / display_order: the parameters of the table, typed by name"""
    ret, monadic = SPECIAL[name]
    return tuple((n, PARAM_TYPES[n]) for n in SPECIAL_PARAMS[concrete]), ret, monadic


class _Family(object):
    """the members of one concrete class, translated on demand in dependency order"""

    def __init__(self, mod, concrete):
        self.mod, self.concrete = mod, concrete
        self.done = {}      # name -> info dict | Unavailable
        self.sigs = {}      # name -> signature, once known
        self.order = []     # emission order
        self.busy = set()

    def get(self, name):
        if name in self.busy:
            _un("members read each other in a cycle (%s)" % name)
        if name not in self.done:
            self.busy.add(name)
            try:
                self.done[name] = self._make(name)
            except Unavailable as ex:
                self.done[name] = ex
            except Exception as ex:  # an AST shape the reader did not expect: fail closed for THIS member
                self.done[name] = Unavailable("not read (%s: %s)" % (type(ex).__name__, ex))
            finally:
                self.busy.discard(name)
            self.order.append(name)
        r = self.done[name]
        if isinstance(r, Unavailable):
            _un("reads %s.%s, which is not available" % (self.concrete, name))
        return r

    def _make(self, name):
        if name not in MEMBERS and name not in SPECIAL:
            _un("no signature for this member in the translator's table")
        sig = special_sig(name, self.concrete) if name in SPECIAL else MEMBERS[name]
        self.sigs[name] = sig
        owner, fn = self.mod.resolve(self.concrete, name)
        if fn is None:
            _un("not defined for this class")
        kind = _decorator_kind(fn)
        if (kind == "class") != (name == "display_order") or (name == "__init__" and kind != "plain"):
            _un("decorator of %s does not fit the translator's table" % name)
        if name in SPECIAL:
            got = tuple(x.arg for x in fn.args.args)[1:]
            if got != tuple(p for p, _ in sig[0]):
                _un("parameters %r, expected %r" % (got, tuple(p for p, _ in sig[0])))
        m = _Member(self, self.concrete, name, fn, kind, sig)
        m.owner = owner
        params, ret, monadic = sig
        # registered before the body is read so that the entry exists for the cycle check only
        body = m.translate()
        return {"kind": kind, "params": params, "ret": ret, "monadic": monadic, "owner": owner,
                "deps": list(m.deps), "body": body}


HEADER = """(* GENERATED by harness/translate/x_collator.py from %s
   -- do not edit; rewritten (only when its text changes) on every check.
   One definition per (concrete class, member), inheritance flattened: [Some f] = what the source says,
   as a Gallina function over the Python-semantics combinators of Base/PyList.v and Model/PyCollator.v
   ([m_<x>] = the generated function of the member `self.<x>` it reads); [None] = the translator could
   not read the member or one it reads (it is then tied to the model by the correspondence check only). *)
From Coq Require Import List ZArith String Bool.
From CC Require Import Base.SortX Base.PyList Spec.OrderSpec Model.Collator Model.PyCollator.
Import ListNotations.
Local Open Scope Z_scope.

"""


def _generate(text, report):
    mod = _Module(text)
    out = []
    for concrete in CONCRETE:
        out.append("(** * %s *)" % concrete)
        fam = _Family(mod, concrete)
        try:
            names = [n for n in mod.member_names(concrete) if n not in SKIPPED]
        except Unavailable as ex:
            report["unavailable"].append({"method": "%s:%s" % (MODNAME, concrete), "reason": str(ex)})
            out.append("(* %s *)" % T._coq_comment(str(ex)))
            names = []
        names += [n for n in EXPECTED[concrete] if n not in names]
        for name in names:
            try:
                fam.get(name)
            except Unavailable:
                pass
        for name in fam.order:
            what = "%s.%s" % (concrete, name)
            r = fam.done[name]
            if name not in fam.sigs:
                report["unavailable"].append({"method": "%s:%s" % (MODNAME, what), "reason": str(r)})
                out.append("(* %s not read: %s *)" % (what, T._coq_comment(str(r))))
                continue
            ident = "src_%s_%s" % (concrete, name)
            ty = sig_type(fam.sigs[name], with_self=name not in SPECIAL)
            if isinstance(r, Unavailable):
                report["unavailable"].append({"method": "%s:%s" % (MODNAME, what), "reason": str(r)})
                out.append("(* %s not read: %s *)" % (what, T._coq_comment(str(r))))
                out.append("Definition %s : option (%s) := None." % (ident, ty))
                continue
            report["methods_translated"].append("%s:%s" % (MODNAME, what))
            out.append("(* %s.%s *)" % (r["owner"], name))
            head, foot = "", ""
            for d in r["deps"]:
                head += "  match src_%s_%s with Some m_%s =>\n" % (concrete, d, d)
                foot = " | None => None end" + foot
            out.append("Definition %s : option (%s) :=\n%s  Some %s%s." % (ident, ty, head, r["body"], foot))
        out.append("")
    return HEADER % ("src/" + SRC) + "\n".join(out) + "\n"


def _fallback(ex):
    return "(* GENERATED by harness/translate/x_collator.py: the translator failed: %s *)\n" % T._coq_comment(repr(ex))


def regenerate(repo_src, gen_dir, report):
    """Adds Gen/CollatorSrc.v; extends `report`."""
    report["x_collator_version"] = VERSION
    p = os.path.join(repo_src, SRC)
    text = None
    try:
        with open(p, encoding="utf-8") as f:
            text = f.read()
        report["files"]["src/" + SRC] = T._sha(text)
    except (OSError, UnicodeDecodeError) as ex:
        report["files"].setdefault("src/" + SRC, None)
        report["errors"].append("cannot read %s: %r" % (SRC, ex))
    try:
        if text is None:
            raise Unavailable("source file not readable")
        out = _generate(text, report)
    except Exception as ex:  # SyntaxError of the source, a bug of ours: fail closed
        report["errors"].append("CollatorSrc.v: %r" % (ex,))
        out = _fallback(ex)
    os.makedirs(gen_dir, exist_ok=True)
    changed = T._write_if_changed(os.path.join(gen_dir, "CollatorSrc.v"), out)
    report["gen_files"]["Gen/CollatorSrc.v"] = {"sha256": T._sha(out), "rewritten": changed}
    return report


if __name__ == "__main__":  # manual run: python -m harness.translate.x_collator <repo_src> <gen_dir>
    import json
    import sys

    rep = {"files": {}, "errors": [], "gen_files": {}, "methods_translated": [], "unavailable": []}
    regenerate(sys.argv[1], sys.argv[2], rep)
    json.dump(rep, sys.stdout, indent=1)
