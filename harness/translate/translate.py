# -*- coding: utf-8 -*-
"""Source translator (DESIGN 2.4 (a)): reads the numpy one-liners of

    <repo>/src/cr/cube/matrix/cubemeasure.py
    <repo>/src/cr/cube/stripe/cubemeasure.py
    <repo>/src/cr/cube/enums.py, cubepart.py         (constants)

with Python's `ast` and writes them as terms of the deep-embedded tensor language `texp`
(coq/Base/Tensor.v) into coq/Gen/CubeCountsSrc.v, coq/Gen/StripeCountsSrc.v and
coq/Gen/Tables.v.  coq/Proofs/GenAgree.v then proves, for every (class, method), that the term
denotes the canonical definition of coq/Model/CubeCounts.v -- so the theorems of C01 / C02 /
C09 / C16 are about what the source says NOW.

Rules of the translator:

* WHITELIST.  Only the AST shapes listed in `_Tr.expr` / `_Tr.method` are read.  Anything else
  makes THAT method (and every method that inlines it) *unavailable*: the emitted definition
  is `None`, the report lists it under "unavailable" and `NOTE translator-unavailable
  <Class.method>` is printed.  The translator never guesses and never repairs.
* Inheritance is flattened (single inheritance only; a class with several bases or an unknown
  base is unavailable as a whole); `self.<lazyproperty>` is inlined with virtual dispatch
  from the class being translated; local names (`x = ...` followed by `return ...`) are inlined;
  `self.<attr>` is a leaf `Self "<attr>"` only if an `__init__` on the MRO assigns it from a
  parameter.
* Files are rewritten only if their text changed (so `make` has nothing to do on an unchanged tree).

`regenerate(repo_src, gen_dir)` is what harness/core.py::run_translator calls on every check.
"""
import ast
import hashlib
import os

VERSION = "translate.py/1"
_PRINTED = set()  # NOTE lines already printed by this process (a check may build more than once)

MATRIX = "cr/cube/matrix/cubemeasure.py"
STRIPE = "cr/cube/stripe/cubemeasure.py"
ENUMS = "cr/cube/enums.py"
CUBEPART = "cr/cube/cubepart.py"


class Unavailable(Exception):
    pass


def _un(msg, node=None):
    if node is not None and hasattr(node, "lineno"):
        msg = "%s (line %d: %s)" % (msg, node.lineno, _src(node))
    raise Unavailable(msg)


def _src(node):
    try:
        s = ast.unparse(node)
    except Exception:  # pragma: no cover
        s = "<%s>" % type(node).__name__
    s = " ".join(s.split())
    return s if len(s) <= 90 else s[:87] + "..."


# ------------------------------------------------------------------------------------
# Coq printing of texp
# ------------------------------------------------------------------------------------


def q(s):
    assert '"' not in s and "\\" not in s
    return '"%s"' % s


def coq_list(items):
    return "[" + "; ".join(items) + "]"


def p_ix(ix):
    k = ix[0]
    if k == "All":
        return "All"
    if k == "At":
        return "At %d" % ix[1]
    if k == "Range":
        return "Range %d %d" % (ix[1], ix[2])
    if k == "NewAxis":
        return "NewAxis"
    raise AssertionError(ix)


def p_texp(t):
    k = t[0]
    if k == "Self":
        return "Self %s" % q(t[1])
    if k in ("NoneVal", "Raise"):
        return k
    if k == "Index":
        return "Index (%s) %s" % (p_texp(t[1]), coq_list([p_ix(i) for i in t[2]]))
    if k == "TakeValid":
        return "TakeValid (%s) %d" % (p_texp(t[1]), t[2])
    if k == "SumAxes":
        return "SumAxes (%s) %s" % (p_texp(t[1]), coq_list(["%d" % a for a in t[2]]))
    if k == "SumAll":
        return "SumAll (%s)" % p_texp(t[1])
    if k == "BroadcastLike":
        return "BroadcastLike (%s) (%s)" % (p_texp(t[1]), p_texp(t[2]))
    if k == "RepeatLike":
        return "RepeatLike (%s) (%s) %d" % (p_texp(t[1]), p_texp(t[2]), t[3])
    if k == "TileRows":
        return "TileRows (%s) (%s)" % (p_texp(t[1]), p_texp(t[2]))
    if k == "Div":
        return "Div (%s) (%s)" % (p_texp(t[1]), p_texp(t[2]))
    if k == "EqZero":
        return "EqZero (%s)" % p_texp(t[1])
    raise AssertionError(t)


# ------------------------------------------------------------------------------------
# module model
# ------------------------------------------------------------------------------------


class _Class(object):
    def __init__(self, node):
        self.node = node
        self.name = node.name
        self.bases = node.bases
        self.methods = {}
        self.other = []
        for it in node.body:
            if isinstance(it, ast.FunctionDef):
                if it.name in self.methods:
                    self.other.append(it)  # duplicate definition: refuse the class
                self.methods[it.name] = it
            elif (
                isinstance(it, ast.Expr)
                and isinstance(it.value, ast.Constant)
                and isinstance(it.value.value, str)
            ):
                pass  # docstring
            else:
                self.other.append(it)


def _strip_doc(body):
    if (
        body
        and isinstance(body[0], ast.Expr)
        and isinstance(body[0].value, ast.Constant)
        and isinstance(body[0].value.value, str)
    ):
        return body[1:]
    return body


def _is_name(node, name):
    return isinstance(node, ast.Name) and node.id == name


def _is_attr(node, base, attr):
    return isinstance(node, ast.Attribute) and node.attr == attr and _is_name(node.value, base)


def _nat(node):
    """A literal natural number (bool excluded), else None."""
    if isinstance(node, ast.Constant) and type(node.value) is int and node.value >= 0:
        return node.value
    return None


def _is_DT(node, member=None):
    """DT.<member>"""
    if isinstance(node, ast.Attribute) and _is_name(node.value, "DT"):
        return node.attr if member is None else node.attr == member
    return None if member is None else False


class _Tr(object):
    """Translator of one module."""

    def __init__(self, text, path):
        self.path = path
        self.mod = ast.parse(text)
        self.classes = {}
        self.dup = set()
        for node in self.mod.body:
            if isinstance(node, ast.ClassDef):
                if node.name in self.classes:
                    self.dup.add(node.name)
                self.classes[node.name] = _Class(node)
        self._imports_ok = self._check_imports()

    # -- the names `np`, `DT`, `lazyproperty` must be what we think they are
    def _check_imports(self):
        np_ok = dt_ok = lp_ok = False
        for node in self.mod.body:
            # anything but imports, classes and the docstring at module level (an assignment, a
            # function, `_X.counts = ...` patched on after the class) may change what the classes mean
            if not (
                isinstance(node, (ast.Import, ast.ImportFrom, ast.ClassDef))
                or (
                    isinstance(node, ast.Expr)
                    and isinstance(node.value, ast.Constant)
                    and isinstance(node.value.value, str)
                )
            ):
                return False
            if isinstance(node, ast.Import):
                for a in node.names:
                    if a.name == "numpy" and a.asname == "np":
                        np_ok = True
                    elif (a.asname or a.name) in ("np", "DT", "lazyproperty"):
                        return False
            elif isinstance(node, ast.ImportFrom):
                for a in node.names:
                    nm = a.asname or a.name
                    if node.module == "cr.cube.enums" and a.name == "DIMENSION_TYPE" and nm == "DT":
                        dt_ok = True
                    elif node.module == "cr.cube.util" and a.name == "lazyproperty" and nm == "lazyproperty":
                        lp_ok = True
                    elif nm in ("np", "DT", "lazyproperty"):
                        return False
            elif isinstance(node, (ast.Assign, ast.AugAssign, ast.AnnAssign, ast.FunctionDef)):
                # a module-level rebinding of one of the names would change their meaning
                names = []
                if isinstance(node, ast.FunctionDef):
                    names = [node.name]
                else:
                    for t in getattr(node, "targets", [getattr(node, "target", None)]):
                        if isinstance(t, ast.Name):
                            names.append(t.id)
                if any(n in ("np", "DT", "lazyproperty") for n in names):
                    return False
        return np_ok and dt_ok and lp_ok

    # -- inheritance
    def mro(self, cname):
        out = []
        seen = set()
        while True:
            if cname in seen or cname in self.dup or cname not in self.classes:
                _un("class %s: unknown, duplicated or cyclic base" % cname)
            seen.add(cname)
            c = self.classes[cname]
            if c.other:
                _un("class %s has class-level statements that are not read" % cname, c.other[0])
            if c.node.decorator_list or c.node.keywords:
                _un("class %s is decorated / has class keywords" % cname, c.node)
            for m in c.methods:
                if m.startswith("__") and m.endswith("__") and m != "__init__":
                    _un("class %s defines %s (attribute access may not be plain)" % (cname, m))
            out.append(c)
            bases = c.bases
            if len(bases) == 0 or (len(bases) == 1 and _is_name(bases[0], "object")):
                return out
            if len(bases) != 1 or not isinstance(bases[0], ast.Name):
                _un("class %s: multiple / computed bases" % cname)
            cname = bases[0].id

    def subclasses(self, root):
        """names of the classes below `root`, by the base NAMES alone (no validity checks: a class
        the translator refuses must still be listed, so that its methods are reported unavailable)"""
        out = []
        for name in self.classes:
            seen, cur = set(), name
            while cur in self.classes and cur not in seen:
                seen.add(cur)
                nxt = [b.id for b in self.classes[cur].bases if isinstance(b, ast.Name)]
                if root in nxt:
                    out.append(name)
                    break
                cur = nxt[0] if len(nxt) == 1 else None
        return out

    def is_leaf(self, cname):
        for c in self.classes.values():
            if len(c.bases) >= 1 and any(_is_name(b, cname) for b in c.bases):
                return False
        return True

    def resolve(self, cname, mname):
        for c in self.mro(cname):
            if mname in c.methods:
                return c.methods[mname]
        return None

    def fields(self, cname):
        """attributes set by an __init__ on the MRO as `self._x = <parameter>`; every __init__
        body must consist of such assignments and the super().__init__ call only."""
        out = {}
        for c in self.mro(cname):
            init = c.methods.get("__init__")
            if init is None:
                continue
            params = [a.arg for a in init.args.args]
            if (
                not params
                or params[0] != "self"
                or init.args.vararg
                or init.args.kwarg
                or init.args.kwonlyargs
                or init.args.defaults
                or init.decorator_list
            ):
                _un("%s.__init__: signature not read" % c.name, init)
            for st in _strip_doc(init.body):
                if (
                    isinstance(st, ast.Assign)
                    and len(st.targets) == 1
                    and isinstance(st.targets[0], ast.Attribute)
                    and _is_name(st.targets[0].value, "self")
                    and isinstance(st.value, ast.Name)
                    and st.value.id in params[1:]
                ):
                    out.setdefault(st.targets[0].attr, (c.name, st.value.id))
                elif self._is_super_init(st, c.name):
                    pass
                else:
                    _un("%s.__init__: statement not read" % c.name, st)
        return out

    @staticmethod
    def _is_super_init(st, cname):
        if not (isinstance(st, ast.Expr) and isinstance(st.value, ast.Call)):
            return False
        f = st.value.func
        if not (isinstance(f, ast.Attribute) and f.attr == "__init__" and isinstance(f.value, ast.Call)):
            return False
        s = f.value
        if not _is_name(s.func, "super") or s.keywords:
            return False
        if len(s.args) == 0:
            return True
        return len(s.args) == 2 and _is_name(s.args[0], cname) and _is_name(s.args[1], "self")

    # -- one method
    def method(self, cname, mname, stack=()):
        if not self._imports_ok:
            _un("module-level statements other than the expected imports and classes (np, DT, lazyproperty "
                "must be numpy, enums.DIMENSION_TYPE, util.lazyproperty; nothing else at module level)")
        if (cname, mname) in stack:
            _un("%s.%s refers to itself" % (cname, mname))
        fn = self.resolve(cname, mname)
        if fn is None:
            _un("%s has no attribute %s" % (cname, mname))
        decs = fn.decorator_list
        if not (len(decs) == 1 and _is_name(decs[0], "lazyproperty")):
            _un("%s.%s is not a plain @lazyproperty" % (cname, mname), fn)
        a = fn.args
        if [x.arg for x in a.args] != ["self"] or a.vararg or a.kwarg or a.kwonlyargs or a.defaults:
            _un("%s.%s: signature not read" % (cname, mname), fn)
        body = _strip_doc(fn.body)
        stack = stack + ((cname, mname),)
        if len(body) == 1 and isinstance(body[0], ast.Raise):
            r = body[0]
            if (
                r.cause is None
                and isinstance(r.exc, ast.Call)
                and _is_name(r.exc.func, "NotImplementedError")
            ):
                return ("Raise",)
            _un("raise of something else than NotImplementedError(...)", r)
        env = {}
        for st in body[:-1]:
            if (
                isinstance(st, ast.Assign)
                and len(st.targets) == 1
                and isinstance(st.targets[0], ast.Name)
                and st.targets[0].id not in ("self", "np", "DT")
            ):
                env[st.targets[0].id] = self.expr(st.value, cname, env, stack)
            else:
                _un("statement not read", st)
        if not body or not isinstance(body[-1], ast.Return) or body[-1].value is None:
            _un("%s.%s does not end in `return <expr>`" % (cname, mname), fn)
        rv = body[-1].value
        if isinstance(rv, ast.Constant) and rv.value is None:
            return ("NoneVal",)
        return self.expr(rv, cname, env, stack)

    # -- expressions
    def expr(self, e, cname, env, stack):
        # local name
        if isinstance(e, ast.Name):
            if e.id in env:
                return env[e.id]
            _un("name not bound in the method", e)
        # self.<field> / self.<lazyproperty>
        if isinstance(e, ast.Attribute) and _is_name(e.value, "self"):
            if "self" in env:
                _un("self rebound", e)
            flds = self.fields(cname)
            if e.attr in flds:
                if self.resolve(cname, e.attr) is not None:
                    _un("attribute is both a field and a method", e)
                return ("Self", e.attr)
            if self.resolve(cname, e.attr) is not None:
                return self.method(cname, e.attr, stack)
            _un("unknown attribute of self", e)
        # e[...]
        if isinstance(e, ast.Subscript):
            base = self.expr(e.value, cname, env, stack)
            sl = e.slice
            if isinstance(sl, ast.Index):  # pragma: no cover  (python < 3.9)
                sl = sl.value
            d = self.valid_idxs(sl, cname, stack)
            if d is not None:
                return ("TakeValid", base, d)
            items = sl.elts if isinstance(sl, ast.Tuple) else [sl]
            if not items:
                _un("empty index", e)
            return ("Index", base, [self.ix(i) for i in items])
        if isinstance(e, ast.Call):
            return self.call(e, cname, env, stack)
        if isinstance(e, ast.BinOp) and isinstance(e.op, ast.Div):
            return ("Div", self.expr(e.left, cname, env, stack), self.expr(e.right, cname, env, stack))
        if (
            isinstance(e, ast.Compare)
            and len(e.ops) == 1
            and isinstance(e.ops[0], ast.Eq)
            and _nat(e.comparators[0]) == 0
        ):
            return ("EqZero", self.expr(e.left, cname, env, stack))
        _un("expression outside the sub-language", e)

    def ix(self, i):
        if isinstance(i, ast.Constant) and i.value is None:
            return ("NewAxis",)
        k = _nat(i)
        if k is not None:
            return ("At", k)
        if isinstance(i, ast.Slice) and i.step is None:
            if i.lower is None and i.upper is None:
                return ("All",)
            lo = 0 if i.lower is None else _nat(i.lower)
            hi = None if i.upper is None else _nat(i.upper)
            if lo is not None and hi is not None and lo <= hi:
                return ("Range", lo, hi)
        _un("index outside the sub-language (only k, :, a:b, None with literal naturals)", i)

    def valid_idxs(self, sl, cname, stack):
        """`self.<p>` where p is `np.ix_(self._dimensions[-d].valid_elements.element_idxs)`:
        returns d, else None."""
        if not (isinstance(sl, ast.Attribute) and _is_name(sl.value, "self")):
            return None
        fn = self.resolve(cname, sl.attr)
        if fn is None or sl.attr in self.fields(cname):
            return None
        decs = fn.decorator_list
        if not (len(decs) == 1 and _is_name(decs[0], "lazyproperty")):
            _un("index helper is not a plain @lazyproperty", fn)
        body = _strip_doc(fn.body)
        if len(body) == 1 and isinstance(body[0], ast.Return):
            c = body[0].value
            if (
                isinstance(c, ast.Call)
                and _is_attr(c.func, "np", "ix_")
                and len(c.args) == 1
                and not c.keywords
            ):
                a = c.args[0]
                # self._dimensions[-d].valid_elements.element_idxs
                if (
                    isinstance(a, ast.Attribute)
                    and a.attr == "element_idxs"
                    and isinstance(a.value, ast.Attribute)
                    and a.value.attr == "valid_elements"
                    and isinstance(a.value.value, ast.Subscript)
                ):
                    sub = a.value.value
                    idx = sub.slice
                    if (
                        _is_attr(sub.value, "self", "_dimensions")
                        and "_dimensions" in self.fields(cname)
                        and isinstance(idx, ast.UnaryOp)
                        and isinstance(idx.op, ast.USub)
                        and _nat(idx.operand) in (1, 2)
                    ):
                        return _nat(idx.operand)
        _un("index helper outside the sub-language", fn)

    def like(self, e, cname, env, stack):
        """`<x>.shape` -> texp of x"""
        if isinstance(e, ast.Attribute) and e.attr == "shape":
            return self.expr(e.value, cname, env, stack)
        _un("expected <expr>.shape", e)

    def call(self, e, cname, env, stack):
        f = e.func
        if not (isinstance(f, ast.Attribute) and _is_name(f.value, "np")):
            _un("call outside the sub-language", e)
        if "np" in env:
            _un("np rebound", e)
        if any(isinstance(a, ast.Starred) for a in e.args) or any(k.arg is None for k in e.keywords):
            _un("star arguments", e)
        kw = dict((k.arg, k.value) for k in e.keywords)
        if f.attr == "sum":
            if len(e.args) != 1 or set(kw) - {"axis"}:
                _un("np.sum with arguments other than (x, axis=...)", e)
            x = self.expr(e.args[0], cname, env, stack)
            if "axis" not in kw or (isinstance(kw["axis"], ast.Constant) and kw["axis"].value is None):
                return ("SumAll", x)
            ax = kw["axis"]
            if _nat(ax) is not None:
                return ("SumAxes", x, [_nat(ax)])
            if isinstance(ax, ast.Tuple) and ax.elts and all(_nat(a) is not None for a in ax.elts):
                axes = [_nat(a) for a in ax.elts]
                if len(set(axes)) != len(axes):
                    _un("repeated axis", e)
                return ("SumAxes", x, axes)
            _un("axis is not a literal natural / tuple of literal naturals", e)
        if f.attr == "broadcast_to":
            if len(e.args) != 2 or kw:
                _un("np.broadcast_to with other than 2 positional arguments", e)
            return (
                "BroadcastLike",
                self.expr(e.args[0], cname, env, stack),
                self.like(e.args[1], cname, env, stack),
            )
        if f.attr == "repeat":
            if len(e.args) != 2 or kw:
                _un("np.repeat with other than 2 positional arguments", e)
            n = e.args[1]
            if isinstance(n, ast.Subscript) and _nat(n.slice) is not None:
                return (
                    "RepeatLike",
                    self.expr(e.args[0], cname, env, stack),
                    self.like(n.value, cname, env, stack),
                    _nat(n.slice),
                )
            _un("np.repeat count is not <expr>.shape[k]", e)
        if f.attr == "tile":
            if len(e.args) != 2 or kw:
                _un("np.tile with other than 2 positional arguments", e)
            return (
                "TileRows",
                self.expr(e.args[0], cname, env, stack),
                self.tile_reps(e.args[1], cname, env, stack),
            )
        _un("numpy function outside the sub-language", e)

    def tile_reps(self, r, cname, env, stack):
        """(<x>.shape[0], 1, 1), possibly through one `self.<lazyproperty>` -> texp of x"""
        if isinstance(r, ast.Attribute) and _is_name(r.value, "self"):
            fn = self.resolve(cname, r.attr)
            if fn is None or r.attr in self.fields(cname):
                _un("tile repetitions: unknown helper", r)
            decs = fn.decorator_list
            body = _strip_doc(fn.body)
            if not (
                len(decs) == 1
                and _is_name(decs[0], "lazyproperty")
                and len(body) == 1
                and isinstance(body[0], ast.Return)
                and body[0].value is not None
            ):
                _un("tile repetitions helper outside the sub-language", fn)
            r = body[0].value
            env = {}
        if (
            isinstance(r, ast.Tuple)
            and len(r.elts) == 3
            and _nat(r.elts[1]) == 1
            and _nat(r.elts[2]) == 1
            and isinstance(r.elts[0], ast.Subscript)
            and _nat(r.elts[0].slice) == 0
        ):
            return self.like(r.elts[0].value, cname, env, stack)
        _un("tile repetitions are not (<x>.shape[0], 1, 1)", r)

    # ---------------------------------------------------------------------------------
    # classmethods with a fixed, recognised shape
    # ---------------------------------------------------------------------------------

    def _classmethod(self, cname, mname, params):
        fn = self.resolve(cname, mname)
        if fn is None:
            _un("%s.%s missing" % (cname, mname))
        decs = fn.decorator_list
        a = fn.args
        if not (
            len(decs) == 1
            and _is_name(decs[0], "classmethod")
            and [x.arg for x in a.args] == params
            and not (a.vararg or a.kwarg or a.kwonlyargs or a.defaults)
        ):
            _un("%s.%s: decorator / signature not read" % (cname, mname), fn)
        if not self._imports_ok:
            _un("module imports are not the expected ones")
        return _strip_doc(fn.body)

    def slice_idx_expr(self, cname):
        """_BaseCubeMeasure._slice_idx_expr -> Coq term of type slice_rule"""
        body = self._classmethod(cname, "_slice_idx_expr", ["cls", "cube", "slice_idx"])
        rules = []
        for st in body[:-1]:
            if not (
                isinstance(st, ast.If)
                and not st.orelse
                and len(st.body) == 1
                and isinstance(st.body[0], ast.Return)
            ):
                _un("_slice_idx_expr: statement not read", st)
            rules.append((self._scond(st.test), self._s_(st.body[0].value)))
        if not body or not isinstance(body[-1], ast.Return):
            _un("_slice_idx_expr: no final return")
        dflt = self._s_(body[-1].value)
        return "(%s, %s)" % (
            coq_list(["(%s, %s)" % (c, coq_list(s)) for c, s in rules]),
            coq_list(dflt),
        )

    @staticmethod
    def _scond(t):
        if isinstance(t, ast.Compare) and len(t.ops) == 1:
            l, op, r = t.left, t.ops[0], t.comparators[0]
            if isinstance(op, ast.Lt) and _is_attr(l, "cube", "ndim") and _nat(r) is not None:
                return "NdimLt %d" % _nat(r)
            if (
                isinstance(op, ast.Eq)
                and isinstance(l, ast.Subscript)
                and _is_attr(l.value, "cube", "dimension_types")
                and _nat(l.slice) == 0
                and _is_DT(r, "MR")
            ):
                return "Dim0IsMR"
        _un("_slice_idx_expr: condition not read", t)

    @staticmethod
    def _s_(v):
        """np.s_[...]"""
        if not (isinstance(v, ast.Subscript) and _is_attr(v.value, "np", "s_")):
            _un("_slice_idx_expr: return value is not np.s_[...]", v)
        sl = v.slice
        items = sl.elts if isinstance(sl, ast.Tuple) else [sl]
        out = []
        for i in items:
            if isinstance(i, ast.Slice) and i.lower is None and i.upper is None and i.step is None:
                out.append("SAll")
            elif _is_name(i, "slice_idx"):
                out.append("SSliceIdx")
            elif _nat(i) is not None:
                out.append("SAt %d" % _nat(i))
            else:
                _un("_slice_idx_expr: index not read", i)
        return out

    def _sliced(self, e, env):
        """<x>[cls._slice_idx_expr(cube, slice_idx)] or <x> -> Coq term of type fsrc"""
        if isinstance(e, ast.Subscript):
            s = e.slice
            if (
                isinstance(s, ast.Call)
                and _is_attr(s.func, "cls", "_slice_idx_expr")
                and len(s.args) == 2
                and not s.keywords
                and _is_name(s.args[0], "cube")
                and _is_name(s.args[1], "slice_idx")
            ):
                return "FSliced (%s)" % self._fsrc(e.value, env)
            _un("factory: subscript other than [cls._slice_idx_expr(cube, slice_idx)]", e)
        return self._fsrc(e, env)

    @staticmethod
    def _fsrc(e, env):
        if isinstance(e, ast.Name):
            if e.id in env:
                return env[e.id]
            return "FParam %s" % q(e.id)
        if isinstance(e, ast.Attribute) and _is_name(e.value, "cube"):
            return "FCube %s" % q(e.attr)
        _un("factory: constructor argument not read", e)

    def _binds(self, cname_for_init, call, env, factory_params):
        """constructor call -> [(attribute, source)] using the __init__ of the class family"""
        if call.keywords or any(isinstance(a, ast.Starred) for a in call.args):
            _un("factory: constructor call not read", call)
        flds = self.fields(cname_for_init)
        # parameter order of the most derived __init__
        init = self.resolve(cname_for_init, "__init__")
        params = [a.arg for a in init.args.args][1:]
        if len(params) != len(call.args):
            _un("factory: constructor arity", call)
        # every parameter must reach exactly the fields that name it, through super().__init__ too:
        # we only accept families whose __init__ chain passes parameters on under the SAME name
        for c in self.mro(cname_for_init):
            ini = c.methods.get("__init__")
            if ini is None:
                continue
            for st in _strip_doc(ini.body):
                if isinstance(st, ast.Expr):
                    sup = st.value
                    sup_params = None
                    for c2 in self.mro(c.name)[1:]:
                        if "__init__" in c2.methods:
                            sup_params = [a.arg for a in c2.methods["__init__"].args.args][1:]
                            break
                    if sup_params is None or sup.keywords or [
                        a.id if isinstance(a, ast.Name) else None for a in sup.args
                    ] != sup_params:
                        _un("factory: super().__init__ renames parameters", st)
        out = []
        for attr in sorted(flds):
            _c, p = flds[attr]
            if p not in params:
                _un("factory: field %s comes from a parameter the constructor does not have" % attr)
            arg = call.args[params.index(p)]
            for n in ast.walk(arg):
                if isinstance(n, ast.Name) and n.id not in factory_params and n.id not in env:
                    _un("factory: name not bound", arg)
            out.append("(%s, %s)" % (q(attr), self._sliced(arg, env)))
        return coq_list(out)

    def _same_init(self, base, names):
        """all the classes share the __init__ of `base` (none overrides it)"""
        for n in names:
            if n not in self.classes:
                _un("factory names unknown class %s" % n)
            m = self.mro(n)
            if not any(c.name == base for c in m):
                _un("factory: %s is not a %s" % (n, base))
            for c in m:
                if c.name == base:
                    break
                if "__init__" in c.methods:
                    _un("factory: %s overrides __init__" % c.name)

    def counts_factory(self, base="_BaseCubeCounts"):
        """_BaseCubeCounts.factory -> (typestr rule, dict dispatch, binds) as Coq terms"""
        params = ["cls", "counts", "diff_nans", "cube", "dimensions", "slice_idx"]
        body = self._classmethod(base, "factory", params)
        if len(body) != 3:
            _un("%s.factory: expected 3 statements" % base)
        s0, s1, s2 = body
        # dimension_type_strings = tuple("MR" if dim_type == DT.MR else "ARR" if dim_type in
        #     DT.ARRAY_TYPES else "CAT" for dim_type in cube.dimension_types[-2:])
        ok = (
            isinstance(s0, ast.Assign)
            and len(s0.targets) == 1
            and isinstance(s0.targets[0], ast.Name)
            and isinstance(s0.value, ast.Call)
            and _is_name(s0.value.func, "tuple")
            and len(s0.value.args) == 1
            and not s0.value.keywords
            and isinstance(s0.value.args[0], ast.GeneratorExp)
        )
        if not ok:
            _un("%s.factory: type-string statement not read" % base, s0)
        tvar = s0.targets[0].id
        g = s0.value.args[0]
        if len(g.generators) != 1:
            _un("%s.factory: generator not read" % base, s0)
        comp = g.generators[0]
        it = comp.iter
        ok = (
            isinstance(comp.target, ast.Name)
            and not comp.ifs
            and not comp.is_async
            and isinstance(it, ast.Subscript)
            and _is_attr(it.value, "cube", "dimension_types")
            and isinstance(it.slice, ast.Slice)
            and isinstance(it.slice.lower, ast.UnaryOp)
            and isinstance(it.slice.lower.op, ast.USub)
            and _nat(it.slice.lower.operand) == 2
            and it.slice.upper is None
            and it.slice.step is None
        )
        if not ok:
            _un("%s.factory: generator not over cube.dimension_types[-2:]" % base, s0)
        v = comp.target.id
        rules = []
        e = g.elt
        while isinstance(e, ast.IfExp):
            t = e.test
            if not (isinstance(e.body, ast.Constant) and isinstance(e.body.value, str)):
                _un("%s.factory: type string not a literal" % base, e)
            if not (isinstance(t, ast.Compare) and len(t.ops) == 1 and _is_name(t.left, v)):
                _un("%s.factory: type test not read" % base, t)
            m = _is_DT(t.comparators[0])
            if m is None:
                _un("%s.factory: type test not against DT.<x>" % base, t)
            if isinstance(t.ops[0], ast.Eq):
                rules.append("(TIs %s, %s)" % (q(m), q(e.body.value)))
            elif isinstance(t.ops[0], ast.In):
                rules.append("(TIn %s, %s)" % (q(m), q(e.body.value)))
            else:
                _un("%s.factory: type test operator" % base, t)
            e = e.orelse
        if not (isinstance(e, ast.Constant) and isinstance(e.value, str)):
            _un("%s.factory: default type string not a literal" % base, e)
        typestr = "(%s, %s)" % (coq_list(rules), q(e.value))
        # CubeCountsCls = {...}.get(dimension_type_strings, _CatXCatCubeCounts)
        ok = (
            isinstance(s1, ast.Assign)
            and len(s1.targets) == 1
            and isinstance(s1.targets[0], ast.Name)
            and isinstance(s1.value, ast.Call)
            and isinstance(s1.value.func, ast.Attribute)
            and s1.value.func.attr == "get"
            and isinstance(s1.value.func.value, ast.Dict)
            and len(s1.value.args) == 2
            and not s1.value.keywords
            and _is_name(s1.value.args[0], tvar)
            and isinstance(s1.value.args[1], ast.Name)
        )
        if not ok:
            _un("%s.factory: dispatch statement not read" % base, s1)
        cvar = s1.targets[0].id
        d = s1.value.func.value
        entries = []
        names = [s1.value.args[1].id]
        seen = set()
        for k, val in zip(d.keys, d.values):
            ok = (
                isinstance(k, ast.Tuple)
                and len(k.elts) == 2
                and all(isinstance(x, ast.Constant) and isinstance(x.value, str) for x in k.elts)
                and isinstance(val, ast.Name)
            )
            if not ok:
                _un("%s.factory: dict entry not read" % base, k if k is not None else d)
            key = (k.elts[0].value, k.elts[1].value)
            if key in seen:
                _un("%s.factory: repeated dict key" % base, k)
            seen.add(key)
            entries.append("((%s, %s), %s)" % (q(key[0]), q(key[1]), q(val.id)))
            names.append(val.id)
        dispatch = "(%s, %s)" % (coq_list(entries), q(s1.value.args[1].id))
        self._same_init(base, names)
        # return CubeCountsCls(dimensions, counts[cls._slice_idx_expr(cube, slice_idx)], diff_nans)
        if not (
            isinstance(s2, ast.Return)
            and isinstance(s2.value, ast.Call)
            and _is_name(s2.value.func, cvar)
        ):
            _un("%s.factory: return statement not read" % base, s2)
        binds = self._binds(base, s2.value, {}, params)
        return typestr, dispatch, binds, names

    def cond_factory(self, base, cube_attr=None):
        """factories of the shape
             [if cube.<m> is None: raise ValueError(...)]
             dimension_types = cube.dimension_types[-2:]
             [local = cube.<attr>]
             Cls = A if dimension_types == (DT.MR, DT.MR) else B if dimension_types[0] == DT.MR
                   else C if dimension_types[1] == DT.MR else D
             return Cls(dimensions, <x>[cls._slice_idx_expr(cube, slice_idx)])
        -> (cond dispatch, binds, class names, guards)"""
        params = ["cls", "cube", "dimensions", "slice_idx"]
        body = list(self._classmethod(base, "factory", params))
        guards = []
        while body and isinstance(body[0], ast.If):
            st = body.pop(0)
            t = st.test
            ok = (
                not st.orelse
                and len(st.body) == 1
                and isinstance(st.body[0], ast.Raise)
                and isinstance(t, ast.Compare)
                and len(t.ops) == 1
                and isinstance(t.ops[0], ast.Is)
                and isinstance(t.left, ast.Attribute)
                and _is_name(t.left.value, "cube")
                and isinstance(t.comparators[0], ast.Constant)
                and t.comparators[0].value is None
            )
            if not ok:
                _un("%s.factory: guard not read" % base, st)
            guards.append(t.left.attr)
        env = {}
        dvar = None
        cvar = None
        dispatch = None
        names = []
        for st in body[:-1]:
            if not (
                isinstance(st, ast.Assign) and len(st.targets) == 1 and isinstance(st.targets[0], ast.Name)
            ):
                _un("%s.factory: statement not read" % base, st)
            tgt, val = st.targets[0].id, st.value
            if (
                isinstance(val, ast.Subscript)
                and _is_attr(val.value, "cube", "dimension_types")
                and isinstance(val.slice, ast.Slice)
                and isinstance(val.slice.lower, ast.UnaryOp)
                and isinstance(val.slice.lower.op, ast.USub)
                and _nat(val.slice.lower.operand) == 2
                and val.slice.upper is None
                and val.slice.step is None
            ):
                dvar = tgt
            elif isinstance(val, ast.Attribute) and _is_name(val.value, "cube"):
                env[tgt] = "FCube %s" % q(val.attr)
            elif isinstance(val, ast.IfExp) and dvar is not None:
                cvar = tgt
                rules = []
                e = val
                while isinstance(e, ast.IfExp):
                    if not isinstance(e.body, ast.Name):
                        _un("%s.factory: class not a name" % base, e)
                    rules.append("(%s, %s)" % (self._dcond(e.test, dvar), q(e.body.id)))
                    names.append(e.body.id)
                    e = e.orelse
                if not isinstance(e, ast.Name):
                    _un("%s.factory: default class not a name" % base, e)
                names.append(e.id)
                dispatch = "(%s, %s)" % (coq_list(rules), q(e.id))
            else:
                _un("%s.factory: statement not read" % base, st)
        last = body[-1] if body else None
        if not (
            dispatch
            and isinstance(last, ast.Return)
            and isinstance(last.value, ast.Call)
            and _is_name(last.value.func, cvar)
        ):
            _un("%s.factory: return statement not read" % base, last)
        self._same_init(base, names)
        binds = self._binds(base, last.value, env, params)
        return dispatch, binds, names, guards

    @staticmethod
    def _dcond(t, dvar):
        if isinstance(t, ast.Compare) and len(t.ops) == 1 and isinstance(t.ops[0], ast.Eq):
            l, r = t.left, t.comparators[0]
            if (
                _is_name(l, dvar)
                and isinstance(r, ast.Tuple)
                and len(r.elts) == 2
                and all(_is_DT(x, "MR") for x in r.elts)
            ):
                return "BothMR"
            if isinstance(l, ast.Subscript) and _is_name(l.value, dvar) and _is_DT(r, "MR"):
                if _nat(l.slice) == 0:
                    return "RowsMR"
                if _nat(l.slice) == 1:
                    return "ColsMR"
        _un("factory: dispatch condition not read", t)

    def stripe_counts_factory(self, base="_BaseCubeCounts"):
        """stripe _BaseCubeCounts.factory: if-chain -> Coq term of type stripe_dispatch"""
        params = ["cls", "counts", "rows_dimension", "ca_as_0th", "slice_idx"]
        body = self._classmethod(base, "factory", params)
        rules = []
        names = []

        def ctor(call):
            if not (
                isinstance(call, ast.Call)
                and isinstance(call.func, ast.Name)
                and len(call.args) == 2
                and not call.keywords
                and _is_name(call.args[0], "rows_dimension")
            ):
                _un("stripe factory: constructor call not read", call)
            a = call.args[1]
            if _is_name(a, "counts"):
                sliced = "false"
            elif isinstance(a, ast.Subscript) and _is_name(a.value, "counts") and _is_name(a.slice, "slice_idx"):
                sliced = "true"
            else:
                _un("stripe factory: counts argument not read", a)
            names.append(call.func.id)
            return "(%s, %s)" % (q(call.func.id), sliced)

        for st in body[:-1]:
            if not (
                isinstance(st, ast.If)
                and not st.orelse
                and len(st.body) == 1
                and isinstance(st.body[0], ast.Return)
            ):
                _un("stripe factory: statement not read", st)
            t = st.test
            if _is_name(t, "ca_as_0th"):
                c = "StCaAs0th"
            elif (
                isinstance(t, ast.Compare)
                and len(t.ops) == 1
                and isinstance(t.ops[0], ast.Eq)
                and _is_attr(t.left, "rows_dimension", "dimension_type")
                and _is_DT(t.comparators[0]) is not None
            ):
                c = "StDimIs %s" % q(_is_DT(t.comparators[0]))
            else:
                _un("stripe factory: condition not read", t)
            rules.append("(%s, %s)" % (c, ctor(st.body[0].value)))
        if not body or not isinstance(body[-1], ast.Return):
            _un("stripe factory: no final return")
        dflt = ctor(body[-1].value)
        self._same_init(base, names)
        flds = self.fields(base)
        if flds.get("_counts", (None, None))[1] != "counts" or [
            a.arg for a in self.resolve(base, "__init__").args.args
        ] != ["self", "rows_dimension", "counts"]:
            _un("stripe factory: __init__ of the family not read")
        return "(%s, %s)" % (coq_list(rules), dflt), names


# ------------------------------------------------------------------------------------
# emission
# ------------------------------------------------------------------------------------


def _ident(cname, mname):
    return "%s_%s" % (cname.lstrip("_"), mname)


HEADER = """(* GENERATED by harness/translate/translate.py from %s
   -- do not edit; rewritten (only when its text changes) on every check.
   One definition per (class, method): [Some <texp>] = what the source says, read through the
   whitelist of the translator; [None] = the translator could not read the method (it is then
   tied to the model by the correspondence check only). *)
From Coq Require Import List String.
From CC Require Import Base.Tensor.
Import ListNotations.
Local Open Scope string_scope.

"""


class _Emitter(object):
    def __init__(self, prefix, modname, tr, report):
        self.prefix = prefix
        self.modname = modname
        self.tr = tr
        self.report = report
        self.lines = []
        self.table = {}

    def unavailable(self, what, reason):
        self.report["unavailable"].append({"method": "%s:%s" % (self.modname, what), "reason": reason})

    def methods_of(self, cname):
        names = []
        for c in self.tr.mro(cname):
            for m, fn in c.methods.items():
                if m in ("__init__",) or m in names:
                    continue
                if any(_is_name(d, "classmethod") or _is_name(d, "staticmethod") for d in fn.decorator_list):
                    continue
                names.append(m)
        return sorted(names)

    def emit_class(self, cname, helpers=()):
        try:
            mnames = self.methods_of(cname)
        except Unavailable as ex:
            # the class is refused as a whole: every member found on its chain of bases is unavailable
            self.lines.append("(* class %s: not read: %s *)" % (cname, _coq_comment(str(ex))))
            names, seen, cur = [], set(), cname
            while cur in self.tr.classes and cur not in seen:
                seen.add(cur)
                c = self.tr.classes[cur]
                for m, fn in c.methods.items():
                    if m.startswith("__") or m in names or m in helpers:
                        continue
                    if any(_is_name(d, "classmethod") or _is_name(d, "staticmethod") for d in fn.decorator_list):
                        continue
                    names.append(m)
                nxt = [b.id for b in c.bases if isinstance(b, ast.Name)]
                cur = nxt[0] if len(nxt) == 1 else None
            for m in sorted(names):
                ident = "%s%s" % (self.prefix, _ident(cname, m))
                self.unavailable("%s.%s" % (cname, m), str(ex))
                self.lines.append("Definition %s : option texp := None." % ident)
                self.table.setdefault(cname, []).append((m, ident))
            self.lines.append("")
            return
        for m in mnames:
            if m in helpers:
                self.report["helpers_inlined"].append("%s:%s.%s" % (self.modname, cname, m))
                continue
            ident = "%s%s" % (self.prefix, _ident(cname, m))
            try:
                t = self.tr.method(cname, m)
                term = "Some (%s)" % p_texp(t)
                self.report["methods_translated"].append("%s:%s.%s" % (self.modname, cname, m))
            except Unavailable as ex:
                term = "None"
                self.unavailable("%s.%s" % (cname, m), str(ex))
                self.lines.append("(* %s.%s not read: %s *)" % (cname, m, _coq_comment(str(ex))))
            self.lines.append("Definition %s : option texp := %s." % (ident, term))
            self.table.setdefault(cname, []).append((m, ident))
        self.lines.append("")

    def emit_opt(self, ident, ty, thunk, what):
        try:
            term = "Some (%s)" % thunk()
            self.report["methods_translated"].append("%s:%s" % (self.modname, what))
        except Unavailable as ex:
            term = "None"
            self.unavailable(what, str(ex))
            self.lines.append("(* %s not read: %s *)" % (what, _coq_comment(str(ex))))
        self.lines.append("Definition %s%s : option (%s) := %s." % (self.prefix, ident, ty, term))

    def emit_table(self, ident):
        rows = []
        for cname in sorted(self.table):
            ms = coq_list(["(%s, %s)" % (q(m), i) for m, i in self.table[cname]])
            rows.append("  (%s, %s)" % (q(cname), ms))
        self.lines.append("(* class name |-> method name |-> term (for the dispatch lemmas) *)")
        self.lines.append(
            "Definition %s%s : list (string * list (string * option texp)) :=\n [%s]."
            % (self.prefix, ident, ";\n".join(rows).lstrip())
        )


def _coq_comment(s):
    return s.replace("(*", "( *").replace("*)", "* )")


def _family(tr, base):
    """leaf classes below `base`, in source order"""
    subs = set(tr.subclasses(base))
    return [n for n in tr.classes if n in subs and tr.is_leaf(n)]


def _gen_matrix(text, report):
    tr = _Tr(text, MATRIX)
    em = _Emitter("src_", "matrix", tr, report)
    L = em.lines
    L.append("(** * _BaseCubeMeasure._slice_idx_expr *)")
    em.emit_opt(
        "slice_idx_expr", "slice_rule", lambda: tr.slice_idx_expr("_BaseCubeMeasure"),
        "_BaseCubeMeasure._slice_idx_expr",
    )
    L.append("")
    L.append("(** * the count classes *)")
    for cname in _family(tr, "_BaseCubeCounts"):
        em.emit_class(cname)
    for base in ("_BaseCubeMeans", "_BaseCubeMedians", "_BaseCubeStdDev", "_BaseCubeSums"):
        L.append("(** * %s *)" % base)
        for cname in _family(tr, base):
            em.emit_class(cname)
    L.append("(** * _BaseUnconditionalCubeCounts *)")
    for cname in _family(tr, "_BaseUnconditionalCubeCounts"):
        em.emit_class(cname, helpers=("_valid_row_idxs",))
    L.append("(** * _BaseCubeOverlaps *)")
    for cname in _family(tr, "_BaseCubeOverlaps"):
        em.emit_class(cname, helpers=("tile_repetitions",))
    em.emit_table("methods")
    L.append("")
    L.append("(** * factories *)")

    cf = {}

    def counts_factory():
        if "v" not in cf:
            try:
                cf["v"] = tr.counts_factory()
            except Unavailable as ex:
                cf["v"] = ex
        if isinstance(cf["v"], Unavailable):
            raise cf["v"]
        return cf["v"]

    em.emit_opt("CubeCounts_typestr", "typestr_rule", lambda: counts_factory()[0],
                "_BaseCubeCounts.factory[type strings]")
    em.emit_opt("CubeCounts_dispatch", "dict_dispatch", lambda: counts_factory()[1],
                "_BaseCubeCounts.factory[dispatch]")
    em.emit_opt("CubeCounts_binds", "list (string * fsrc)", lambda: counts_factory()[2],
                "_BaseCubeCounts.factory[constructor arguments]")
    for base, short in (
        ("_BaseCubeMeans", "CubeMeans"),
        ("_BaseCubeMedians", "CubeMedians"),
        ("_BaseCubeStdDev", "CubeStdDev"),
        ("_BaseCubeSums", "CubeSums"),
        ("_BaseUnconditionalCubeCounts", "UnconditionalCubeCounts"),
    ):
        memo = {}

        def fac(base=base, memo=memo):
            if "v" not in memo:
                try:
                    memo["v"] = tr.cond_factory(base)
                except Unavailable as ex:
                    memo["v"] = ex
            if isinstance(memo["v"], Unavailable):
                raise memo["v"]
            return memo["v"]

        em.emit_opt("%s_dispatch" % short, "cond_dispatch", lambda fac=fac: fac()[0],
                    "%s.factory[dispatch]" % base)
        em.emit_opt("%s_binds" % short, "list (string * fsrc)", lambda fac=fac: fac()[1],
                    "%s.factory[constructor arguments]" % base)
    return HEADER % ("src/" + MATRIX) + "\n".join(L) + "\n"


def _gen_stripe(text, report):
    tr = _Tr(text, STRIPE)
    em = _Emitter("ssrc_", "stripe", tr, report)
    L = em.lines
    for base in ("_BaseCubeCounts", "_BaseCubeMeans", "_BaseCubeMedians", "_BaseCubeStdDev", "_BaseCubeSums"):
        L.append("(** * %s *)" % base)
        for cname in _family(tr, base):
            em.emit_class(cname)
    em.emit_table("methods")
    L.append("")
    em.emit_opt("CubeCounts_dispatch", "stripe_dispatch", lambda: tr.stripe_counts_factory()[0],
                "_BaseCubeCounts.factory")
    return HEADER % ("src/" + STRIPE) + "\n".join(L) + "\n"


# ------------------------------------------------------------------------------------
# constants
# ------------------------------------------------------------------------------------


def _gen_tables(enums_text, cubepart_text, report):
    L = []

    def opt(ident, ty, thunk, what):
        try:
            term = "Some (%s)" % thunk()
            report["methods_translated"].append("tables:%s" % what)
        except Unavailable as ex:
            term = "None"
            report["unavailable"].append({"method": "tables:%s" % what, "reason": str(ex)})
            L.append("(* %s not read: %s *)" % (what, _coq_comment(str(ex))))
        L.append("Definition tbl_%s : option (%s) := %s." % (ident, ty, term))

    def z975():
        mod = ast.parse(cubepart_text)
        found = []
        for node in ast.walk(mod):
            tg = []
            if isinstance(node, ast.Assign):
                tg = node.targets
            elif isinstance(node, (ast.AugAssign, ast.AnnAssign)):
                tg = [node.target]
            for t in tg:
                for n in ast.walk(t):
                    if isinstance(n, ast.Name) and n.id == "Z_975":
                        found.append(node)
        if len(found) != 1 or found[0] not in mod.body or not isinstance(found[0], ast.Assign):
            _un("Z_975 is not assigned exactly once at module level")
        v = found[0].value
        if not (isinstance(v, ast.Constant) and type(v.value) is float):
            _un("Z_975 is not a float literal", v)
        # the literal as a decimal fraction (exactly the digits of the source)
        seg = ast.get_source_segment(cubepart_text, v)
        if seg is None or not all(ch in "0123456789." for ch in seg) or seg.count(".") != 1:
            _un("Z_975 literal is not plain decimal digits", v)
        ip, fp = seg.split(".")
        num = int(ip + fp)
        den = 10 ** len(fp)
        return "%d # %d" % (num, den)

    def dt_class():
        mod = ast.parse(enums_text)
        cls = [n for n in mod.body if isinstance(n, ast.ClassDef) and n.name == "DIMENSION_TYPE"]
        if len(cls) != 1:
            _un("enums.DIMENSION_TYPE not found exactly once")
        members = {}
        sets = {}
        for st in cls[0].body:
            if isinstance(st, ast.Expr) and isinstance(st.value, ast.Constant):
                continue
            if not (isinstance(st, ast.Assign) and len(st.targets) == 1 and isinstance(st.targets[0], ast.Name)):
                _un("DIMENSION_TYPE: statement not read", st)
            nm, v = st.targets[0].id, st.value
            if nm in members or nm in sets:
                _un("DIMENSION_TYPE: %s assigned twice" % nm, st)
            if (
                isinstance(v, ast.Call)
                and _is_name(v.func, "_DimensionType")
                and len(v.args) == 1
                and not v.keywords
                and isinstance(v.args[0], ast.Constant)
                and isinstance(v.args[0].value, str)
            ):
                members[nm] = v.args[0].value
            elif isinstance(v, ast.Name) and v.id in members:
                members[nm] = members[v.id]
            elif (
                isinstance(v, ast.Call)
                and _is_name(v.func, "frozenset")
                and len(v.args) == 1
                and not v.keywords
                and isinstance(v.args[0], ast.Tuple)
                and all(isinstance(x, ast.Name) and x.id in members for x in v.args[0].elts)
            ):
                sets[nm] = sorted(set(members[x.id] for x in v.args[0].elts))
            else:
                _un("DIMENSION_TYPE: value not read", st)
        return members, sets

    memo = {}

    def dt():
        if "v" not in memo:
            try:
                memo["v"] = dt_class()
            except Unavailable as ex:
                memo["v"] = ex
        if isinstance(memo["v"], Unavailable):
            raise memo["v"]
        return memo["v"]

    opt("Z_975", "Q", z975, "cubepart.Z_975")
    L.append("(* DIMENSION_TYPE: member / alias name |-> the _DimensionType name it denotes *)")
    opt(
        "DT_members", "list (string * string)",
        lambda: coq_list(["(%s, %s)" % (q(k), q(v)) for k, v in sorted(dt()[0].items())]),
        "enums.DIMENSION_TYPE members",
    )
    L.append("(* DIMENSION_TYPE subsets: name |-> sorted member names *)")
    opt(
        "DT_sets", "list (string * list string)",
        lambda: coq_list(["(%s, %s)" % (q(k), coq_list([q(x) for x in v])) for k, v in sorted(dt()[1].items())]),
        "enums.DIMENSION_TYPE subsets",
    )
    hdr = HEADER % ("src/%s, src/%s" % (ENUMS, CUBEPART))
    hdr = hdr.replace("From Coq Require Import List String.", "From Coq Require Import List String QArith.")
    hdr = hdr.replace("Local Open Scope string_scope.", "Local Open Scope string_scope.\nLocal Open Scope Q_scope.")
    return hdr + "\n".join(L) + "\n"


# ------------------------------------------------------------------------------------
# entry point
# ------------------------------------------------------------------------------------


def _sha(text):
    return hashlib.sha256(text.encode("utf-8")).hexdigest()


def _write_if_changed(path, text):
    old = None
    if os.path.exists(path):
        with open(path, encoding="utf-8") as f:
            old = f.read()
    if old == text:
        return False
    tmp = path + ".tmp"
    with open(tmp, "w", encoding="utf-8") as f:
        f.write(text)
    os.replace(tmp, path)
    return True


def _fallback(what, ex):
    """A generator that crashed must not take the check down: emit a file whose definitions are
    missing, so that GenAgree (which names them) does not build -> reported as a broken obligation."""
    return HEADER % what + "(* translator failed: %s *)\n" % _coq_comment(repr(ex))


def regenerate(repo_src, gen_dir, quiet=False):
    report = {
        "available": True,
        "version": VERSION,
        "repo_src": repo_src,
        "files": {},
        "methods_translated": [],
        "unavailable": [],
        "helpers_inlined": [],
        "gen_files": {},
        "errors": [],
    }
    texts = {}
    for rel in (MATRIX, STRIPE, ENUMS, CUBEPART):
        p = os.path.join(repo_src, rel)
        try:
            with open(p, encoding="utf-8") as f:
                texts[rel] = f.read()
            report["files"]["src/" + rel] = _sha(texts[rel])
        except (OSError, UnicodeDecodeError) as ex:
            texts[rel] = None
            report["files"]["src/" + rel] = None
            report["errors"].append("cannot read %s: %r" % (rel, ex))
    outs = {}
    jobs = (
        ("CubeCountsSrc.v", lambda: _gen_matrix(texts[MATRIX], report), "src/" + MATRIX),
        ("StripeCountsSrc.v", lambda: _gen_stripe(texts[STRIPE], report), "src/" + STRIPE),
        ("Tables.v", lambda: _gen_tables(texts[ENUMS], texts[CUBEPART], report), "src/" + ENUMS),
    )
    for name, job, what in jobs:
        try:
            outs[name] = job()
        except Exception as ex:  # SyntaxError of the source, missing file, a bug of ours
            report["errors"].append("%s: %r" % (name, ex))
            outs[name] = _fallback(what, ex)
    os.makedirs(gen_dir, exist_ok=True)
    for name, text in sorted(outs.items()):
        changed = _write_if_changed(os.path.join(gen_dir, name), text)
        report["gen_files"]["Gen/" + name] = {"sha256": _sha(text), "rewritten": changed}
    # the second-order measure formulas (matrix/measure.py, stripe/measure.py, cubepart.py MoE):
    # harness/translate/measures.py -> Gen/MeasureSrc.v, StripeMeasureSrc.v, PartMeasureSrc.v
    try:
        from harness.translate import measures

        measures.regenerate(repo_src, gen_dir, report)
    except Exception as ex:  # a bug of ours: fail closed (files without definitions)
        report["errors"].append("measures: %r" % (ex,))
        for name in ("MeasureSrc.v", "StripeMeasureSrc.v", "PartMeasureSrc.v"):
            text = "(* GENERATED: the measure translator failed: %s *)\n" % _coq_comment(repr(ex))
            changed = _write_if_changed(os.path.join(gen_dir, name), text)
            report["gen_files"]["Gen/" + name] = {"sha256": _sha(text), "rewritten": changed}
    # the subtotal strategies (matrix/subtotals.py, stripe/insertion.py):
    # harness/translate/subtotals.py -> Gen/SubtotalsSrc.v, StripeInsertionSrc.v
    try:
        from harness.translate import subtotals

        subtotals.regenerate(repo_src, gen_dir, report)
    except Exception as ex:  # a bug of ours: fail closed (files without definitions)
        report["errors"].append("subtotals: %r" % (ex,))
        for name in ("SubtotalsSrc.v", "StripeInsertionSrc.v"):
            text = "(* GENERATED: the subtotal-strategy translator failed: %s *)\n" % _coq_comment(repr(ex))
            changed = _write_if_changed(os.path.join(gen_dir, name), text)
            report["gen_files"]["Gen/" + name] = {"sha256": _sha(text), "rewritten": changed}
    # further translators: every module harness/translate/x_<name>.py with
    #   GEN_FILES = ("<Name>Src.v", ...)  and  regenerate(repo_src, gen_dir, report)
    # is called here in sorted order, with the same crash-safe convention (a bug of ours leaves
    # files without definitions, so the obligations that mention them break: fail closed).
    import glob
    import importlib

    for path in sorted(glob.glob(os.path.join(os.path.dirname(os.path.abspath(__file__)), "x_*.py"))):
        modname = os.path.splitext(os.path.basename(path))[0]
        gen_files = ()
        try:
            mod = importlib.import_module("harness.translate." + modname)
            gen_files = tuple(getattr(mod, "GEN_FILES", ()))
            mod.regenerate(repo_src, gen_dir, report)
        except Exception as ex:
            report["errors"].append("%s: %r" % (modname, ex))
            for name in gen_files:
                text = "(* GENERATED: translator %s failed: %s *)\n" % (modname, _coq_comment(repr(ex)))
                changed = _write_if_changed(os.path.join(gen_dir, name), text)
                report["gen_files"]["Gen/" + name] = {"sha256": _sha(text), "rewritten": changed}
    report["n_translated"] = len(report["methods_translated"])
    report["n_unavailable"] = len(report["unavailable"])
    if not quiet:
        notes = []
        for u in report["unavailable"]:
            mod, _, what = u["method"].partition(":")
            notes.append("NOTE translator-unavailable %s (%s) [%s]" % (what, mod, u["reason"]))
        for e in report["errors"]:
            notes.append("NOTE translator-error %s" % e)
        for n in notes:
            if n not in _PRINTED:
                _PRINTED.add(n)
                print(n)
    return report


if __name__ == "__main__":  # manual run: python -m harness.translate.translate <repo_src> <gen_dir>
    import json
    import sys

    rep = regenerate(sys.argv[1], sys.argv[2])
    json.dump(rep, sys.stdout, indent=1)
