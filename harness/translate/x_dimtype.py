"""Source translator for the part of src/cr/cube/dimension.py the `dimension` translator left to the
correspondence -> coq/Gen/DimTypeSrc.v   (workstream `dimtype`).

It is x_dimension.py's SHALLOW technique and x_dimension.py's reader: this module loads a PRIVATE copy of
harness/translate/x_dimension.py (the file itself is not edited and the copy x_dimension's own plugin run uses
is not touched), extends the copy's signature tables by the members below and subclasses its reader by the few
AST shapes these members need.  Members x_dimension.py already writes to Gen/DimensionSrc.v are NOT written
again: Gen/DimTypeSrc.v imports Gen/DimensionSrc.v and refers to them as `src_<Class>_<member>`.

    Dimensions      dimension_type (classmethod), from_dicts (classmethod), apparent_dimensions,
                    dimension_order, shape
    Dimension       __init__ (the object as constructed), apply_transforms, alias, name, description,
                    shape, smoothing_dict, selected_categories, element_labels, element_aliases,
                    subtotal_labels, subtotal_aliases
    Element         label, alias, _str_representation_for
    _ElementTransforms   name
    _Subtotal       label, alias

Additional shapes (everything else is x_dimension.py's whitelist):
  * `raise NotImplementedError(<constant / f-string of local names>)`        -> Err NotImplementedError
  * `[..] == [..]` between lists (both read as JSON lists, == by value)
  * `x[<n>:]` on a sequence the function computed itself                      -> py_slice_from
  * `type(v).__name__`                                                         -> pj_type_name
  * `getattr(o, k) if k == "<c>" else e`                                       -> o.<c> under that test
  * `"<sep>".join(<list>)`                                                     -> pj_str_join
  * a call of an OPAQUE value (the label formatter)                            -> the outcome Unmodelled
  * `self.__class__(<items>)` in a tuple subclass                              -> the sequence of the items
  * a nested `def f():` without parameters, called as `f()`: its body is read at the call, in the
    environment of the call (a closure sees the variables as they are when it runs)
  * `self.<attr> = <param> or {}` in an __init__
  * a list of objects the function has just constructed (`xs = [Cls(..) for ..]`, bound once): `for x in xs`
    walks the POSITIONS of the list, `x` reads the object as it is NOW (`pl_getitem xs i`), `x is not y` between
    two such loop variables compares positions (the objects of the list are pairwise distinct: each was created
    by its own constructor call), `x.<stored attribute> = v` replaces the record at that position
    (`py_list_set`).  This is how Dimensions.from_dicts promotes CA_SUBVAR to MR_SUBVAR in place.

A Dimension OBJECT is the record of what __init__ stores (`pydimobj`); the two lazyproperties `_dimension_dict`
/ `_dimension_transforms_dict` (outputs of _ElementIdShim, the first of which edits the response in place and
is therefore not expressible by value) are read through the environment `X : pyshimenv` every member of
`Dimensions` takes first: `dim_view X o` is the record x_dimension.py's Dimension members are stated on.
"""
import ast
import importlib.util
import os
import re

from harness.translate import translate as T

VERSION = "x_dimtype.py/1"
GEN_FILES = ("DimTypeSrc.v",)
MODNAME = "dimtype"

TRUSTED_BASE = (
    "the members of dimension.py named by the C01_gen_dimtype_* / C14_gen_dimtype_* / C20_gen_dimtype_* / "
    "C05_gen_dimtype_* theorems (Dimensions.dimension_type / from_dicts / apparent_dimensions / dimension_order / "
    "shape, Elements.from_typedef with a typedef `order` list, for MR_SUBVAR and DATETIME, Elements._hidden_transforms, "
    "Element.numeric_value / label / alias, Dimension.numeric_values / name / description / alias / element_labels / "
    "element_aliases / subtotal_labels / subtotal_aliases / selected_categories / smoothing_dict / apply_transforms / "
    "shape) are tied to the source text by harness/translate/x_dimtype.py, which runs a private copy of the reader "
    "of harness/translate/x_dimension.py (same trusted reading of Python into Base/PyList.v + Base/PyDict.v + "
    "Model/PyDimension.v) extended by Model/PyDimType.v: `raise` as Err, list == list by value, x[n:], "
    "type(v).__name__, `sep.join`, a call of the opaque label formatter = the outcome Unmodelled (labels of "
    "numeric / datetime / text elements are NOT described), a parameterless nested def read at its call, and "
    "the object-list idiom of Dimensions.from_dicts (a list of objects the function has just constructed is "
    "walked by position, `is not` between two of its loop variables compares positions, an attribute "
    "assignment replaces the record at that position).  A Dimension object is the record of what __init__ "
    "stores; its lazyproperties _dimension_dict / _dimension_transforms_dict are the fields of the environment "
    "X (pyshimenv) as FUNCTIONS of the stored attributes - the lazyproperty cache (a shim created before the "
    "promotion keeps the type CA_SUBVAR) and the in-place edit of the response by shimmed_dimension_dict are not "
    "described.  Abstractions from JSON to the hand-written models: rdim_abs / rtype_of / rcat_of (Model/DimType.v), "
    "edef_abs (Model/TypedefOrder.v), raw_window (Model/Smoothing.v window_of), Model/DimValues.v (numeric values, "
    "labels) in Proofs/GenAgreeDimType*.v")


def _load_private_reader():
    path = os.path.join(os.path.dirname(os.path.abspath(__file__)), "x_dimension.py")
    spec = importlib.util.spec_from_file_location("harness.translate._x_dimension_private_for_dimtype", path)
    mod = importlib.util.module_from_spec(spec)
    spec.loader.exec_module(mod)
    return mod


XD = _load_private_reader()
Unavailable = XD.Unavailable
_un = XD._un
JV, Z, BOOL, STR, DT, OPAQUE, ANY, NONE = XD.JV, XD.Z, XD.BOOL, XD.STR, XD.DT, XD.OPAQUE, XD.ANY, XD.NONE
L, D = XD.L, XD.D
ELEMENT, XFORMS, SUBTOTAL, SUBTOTALS, DIMENSION = XD.ELEMENT, XD.XFORMS, XD.SUBTOTAL, XD.SUBTOTALS, XD.DIMENSION
DIMOBJ = ("obj", "DimensionObj")
DIMENSIONS = L(DIMOBJ)
ENV = "X"                       # the shim environment every member of a class in NEED_ENV takes first
NEED_ENV = ("Dimensions",)

OLD_SIGS = dict(XD.SIGS)        # what x_dimension.py writes to Gen/DimensionSrc.v

# --- the private copy's tables, extended ---------------------------------------------------------------
XD.CLASSES["DimensionObj"] = ("pydimobj", "mkPyDimObj", (
    ("_unshimmed_dimension_dict", "do_unshimmed_dimension_dict", JV),
    ("dimension_type", "do_dimension_type", DT),
    ("_unshimmed_dimension_transforms_dict", "do_unshimmed_dimension_transforms_dict", JV)))
XD.SEQ_CLASSES["Dimensions"] = DIMENSIONS
PSEUDO = {"DimensionObj": "Dimension"}     # record class -> the class of the source it is an object of
SETTERS = {("DimensionObj", "dimension_type"): "set_do_dimension_type",
           ("DimensionObj", "_unshimmed_dimension_dict"): "set_do_unshimmed_dimension_dict",
           ("DimensionObj", "_unshimmed_dimension_transforms_dict"): "set_do_unshimmed_dimension_transforms_dict"}

NEW_SIGS = {
    # Dimensions(tuple)
    ("Dimensions", "dimension_type"): ((("dimension_dict", JV),), DT),
    ("Dimensions", "from_dicts"): ((("dicts", JV),), DIMENSIONS),
    ("Dimensions", "apparent_dimensions"): ((), DIMENSIONS),
    ("Dimensions", "dimension_order"): ((), L(Z)),
    ("Dimensions", "shape"): ((), L(Z)),
    # Dimension, the object as constructed
    ("DimensionObj", "apply_transforms"): ((("dimension_transforms", JV),), DIMOBJ),
    # Dimension, on the record x_dimension.py's members are stated on
    ("Dimension", "alias"): ((), JV),
    ("Dimension", "name"): ((), JV),
    ("Dimension", "description"): ((), JV),
    ("Dimension", "shape"): ((), Z),
    ("Dimension", "smoothing_dict"): ((), JV),
    ("Dimension", "selected_categories"): ((), L(JV)),
    ("Dimension", "element_labels"): ((), L(JV)),
    ("Dimension", "element_aliases"): ((), L(JV)),
    ("Dimension", "subtotal_labels"): ((), L(JV)),
    ("Dimension", "subtotal_aliases"): ((), L(JV)),
    # Element / _ElementTransforms / _Subtotal
    ("Element", "_str_representation_for"): ((("key", STR),), JV),
    ("Element", "label"): ((), JV),
    ("Element", "alias"): ((), JV),
    ("_ElementTransforms", "name"): ((), JV),
    ("_Subtotal", "label"): ((), JV),
    ("_Subtotal", "alias"): ((), JV),
}
XD.SIGS.update(NEW_SIGS)
EXPECTED = tuple(NEW_SIGS) + (("DimensionObj", "__init__"),)

RAISES = {"NotImplementedError": "NotImplementedError"}


def _ident_of(cname, member):
    return "src_%s_%s" % (PSEUDO.get(cname, cname) if cname else "fn", member)


def _mname_of(cname, member):
    return "m_%s_%s" % (PSEUDO.get(cname, cname) if cname else "fn", member)


XD.ident_of = _ident_of
XD.mname_of = _mname_of


class _Module2(XD._Module):
    def __init__(self, text):
        XD._Module.__init__(self, text)
        for pseudo, real in PSEUDO.items():
            if real in self.classes:
                self.classes[pseudo] = self.classes[real]


def _is_name(n, name=None):
    return isinstance(n, ast.Name) and (name is None or n.id == name)


_Base = XD._Member


class _Member2(_Base):
    def __init__(self, *a):
        _Base.__init__(self, *a)
        self.local_fns = {}      # nested parameterless defs: name -> FunctionDef
        self.objlists = set()    # locals bound (once) to a list of objects this function constructed
        self.itemrefs = {}       # loop variable over such a list -> (list name, index term)
        self.in_local_fn = 0

    # -- the environment -------------------------------------------------------------------------------
    def has_env(self):
        return self.cname in NEED_ENV

    def need_env(self, node, what):
        if not self.has_env():
            _un("%s needs the shim environment, which only the members of %s take" % (what, "/".join(NEED_ENV)), node)
        return ENV

    # -- expressions -------------------------------------------------------------------------------------
    def _tr(self, e, env, exp):
        if isinstance(e, ast.Name) and e.id in self.itemrefs and e.id in env:
            lst, idx = self.itemrefs[e.id]
            if lst not in env:
                _un("the list `%s` is no longer bound" % lst, e)
            n = self.fresh()
            return [("bind", n, "(pl_getitem %s %s)" % (env[lst].coq, idx))], n, env[e.id].ty
        if isinstance(e, ast.Attribute) and e.attr == "__name__" and isinstance(e.value, ast.Call) \
                and _is_name(e.value.func, "type") and "type" not in env \
                and "type" not in self.reg.mod.toplevel_names and len(e.value.args) == 1 and not e.value.keywords:
            b, t, ty = self.tr(e.value.args[0], env)
            if ty not in (JV, NONE):
                _un("type(..).__name__ of a %r" % (ty,), e)
            return b, "(pj_type_name %s)" % t, STR
        return _Base._tr(self, e, env, exp)

    def ifexp(self, e, env, exp):
        # getattr(o, k) if k == "<c>" else e2
        b, t = e.body, e.test
        if isinstance(b, ast.Call) and _is_name(b.func, "getattr") and "getattr" not in env \
                and "getattr" not in self.reg.mod.toplevel_names and len(b.args) == 2 and not b.keywords \
                and isinstance(b.args[1], ast.Name) and isinstance(t, ast.Compare) and len(t.ops) == 1 \
                and isinstance(t.ops[0], ast.Eq) and _is_name(t.left, b.args[1].id) \
                and XD._is_str_const(t.comparators[0]) and t.comparators[0].value.isidentifier() \
                and b.args[1].id in env and env[b.args[1].id].ty == STR:
            attr = ast.copy_location(ast.Attribute(value=b.args[0], attr=t.comparators[0].value, ctx=ast.Load()), b)
            e2 = ast.copy_location(ast.IfExp(test=t, body=attr, orelse=e.orelse), e)
            return _Base.ifexp(self, e2, env, exp)
        return _Base.ifexp(self, e, env, exp)

    def peek_type(self, e, env):
        """static type of an expression (translated on a copy of the environment; nothing is kept)"""
        save = self.ntemp
        try:
            return self.tr(e, self._fork(env))[2]
        finally:
            self.ntemp = save

    def _jdict_only(self, ty, node, what):
        # the reader writes pd_contains / pd_getitem / pd_get for every dict with JSON keys; they are typed on
        # dicts whose VALUES are JSON values too
        if ty[0] == "dict" and ty[1] == JV and ty[2] not in (JV, ANY):
            _un("%s on a dict whose values are no JSON values" % what, node)

    def compare(self, e, env):
        if len(e.ops) == 1 and isinstance(e.ops[0], (ast.In, ast.NotIn)):
            self._jdict_only(self.peek_type(e.comparators[0], env), e, "`in`")
        if len(e.ops) == 1:
            op, lhs, rhs = e.ops[0], e.left, e.comparators[0]
            # x is not y between two loop variables over one list of freshly constructed objects
            if isinstance(op, (ast.Is, ast.IsNot)) and _is_name(lhs) and _is_name(rhs) \
                    and lhs.id in self.itemrefs and rhs.id in self.itemrefs and lhs.id in env and rhs.id in env:
                (l1, i1), (l2, i2) = self.itemrefs[lhs.id], self.itemrefs[rhs.id]
                if l1 != l2:
                    _un("`is` between items of two different lists", e)
                r = "(Z.eqb %s %s)" % (i1, i2)
                return [], r if isinstance(op, ast.Is) else "(negb %s)" % r, BOOL
            if isinstance(op, (ast.Eq, ast.NotEq)):
                save = self.ntemp
                bl, tl, tyl = self.tr(lhs, env)
                br, tr_, tyr = self.tr(rhs, env)
                if tyl[0] == "list" and tyr[0] == "list" and ANY not in (tyl[1], tyr[1]):
                    tl2, tr2 = XD.to_jv(tl, tyl), XD.to_jv(tr_, tyr)
                    if tl2 is None or tr2 is None:
                        _un("== between %r and %r" % (tyl, tyr), e)
                    r = "(jv_eqb %s %s)" % (tl2, tr2)
                    return bl + br, r if isinstance(op, ast.Eq) else "(negb %s)" % r, BOOL
                self.ntemp = save
        return _Base.compare(self, e, env)

    def subscript(self, e, env):
        s = e.slice
        if not isinstance(s, ast.Slice):
            self._jdict_only(self.peek_type(e.value, env), e, "subscript")
        if isinstance(s, ast.Slice) and s.upper is None and s.step is None and isinstance(s.lower, ast.Constant) \
                and isinstance(s.lower.value, int) and not isinstance(s.lower.value, bool) and s.lower.value >= 0:
            bd, td, tyd = self.tr(e.value, env)
            if tyd[0] != "list" or tyd[1] == ANY:
                _un("slice of a %r" % (tyd,), e)
            return bd, "(py_slice_from %s (%d))" % (td, s.lower.value), tyd
        return _Base.subscript(self, e, env)

    def getattr_(self, b, t, ty, attr, node):
        if ty == DIMOBJ:
            for pyattr, proj, fty in XD.CLASSES["DimensionObj"][2]:
                if pyattr == attr:
                    self.reg.check_field("DimensionObj", attr)
                    return b, "(%s %s)" % (proj, t), fty
            if ("DimensionObj", attr) in XD.SIGS:
                return _Base.getattr_(self, b, t, ty, attr, node)
            # a member stated on the record of the two shimmed dicts: through the environment's view
            if ("Dimension", attr) in XD.SIGS:
                x = self.need_env(node, "Dimension.%s of a Dimension object" % attr)
                info = self.dep("Dimension", attr)
                if info["kind"] != "lazy":
                    _un("Dimension.%s is a method, read as an attribute" % attr, node)
                n = self.fresh()
                return b + [("bind", n, "(%s (dim_view %s %s))" % (_mname_of("Dimension", attr), x, t))], n, info["ret"]
            _un("attribute .%s of a Dimension object not read" % attr, node)
        if ty[0] != "obj" and ty in XD.SEQ_CLASSES.values():
            cname = [c for c, s in XD.SEQ_CLASSES.items() if s == ty][0]
            if cname in NEED_ENV and (cname, attr) in XD.SIGS:
                x = self.need_env(node, "%s.%s" % (cname, attr))
                info = self.dep(cname, attr)
                if info["kind"] != "lazy":
                    _un("%s.%s is a method, read as an attribute" % (cname, attr), node)
                n = self.fresh()
                return b + [("bind", n, "(%s %s %s)" % (_mname_of(cname, attr), x, t))], n, info["ret"]
        return _Base.getattr_(self, b, t, ty, attr, node)

    def call_member(self, cname, name, recv_binds, recv, e, env):
        if cname in NEED_ENV:
            x = self.need_env(e, "%s.%s" % (cname, name))
            info = self.dep(cname, name)
            params = [(p, t, None) for p, t in info["params"]]
            b, args = self.args_of(e, params, env, "%s.%s" % (cname, name))
            n = self.fresh()
            term = "(%s %s%s%s)" % (_mname_of(cname, name), x, " " + recv if recv is not None else "",
                                    "".join(" " + a for a in args))
            return recv_binds + b + [("bind", n, term)], n, info["ret"]
        return _Base.call_member(self, cname, name, recv_binds, recv, e, env)

    def construct(self, cname, e, env):
        if cname == "Dimension":
            cname = "DimensionObj"
        return _Base.construct(self, cname, e, env)

    def call(self, e, env, exp):
        f = e.func
        if isinstance(f, ast.Attribute) and f.attr == "get" and not isinstance(f.value, ast.Constant) \
                and self.self_object(f.value, env) is None and not (_is_name(f.value) and f.value.id not in env):
            self._jdict_only(self.peek_type(f.value, env), e, ".get()")
        # f() of a nested parameterless def: its body, read here
        if _is_name(f) and f.id in self.local_fns and f.id not in env:
            if e.args or e.keywords:
                _un("arguments in a call of the local function `%s`" % f.id, e)
            return self.local_call(self.local_fns[f.id], env, e)
        # self.__class__(<items>) in a tuple subclass
        if isinstance(f, ast.Attribute) and f.attr == "__class__" and self.self_object(f.value, env) is not None \
                and self.cname in XD.SEQ_CLASSES:
            for n in self.reg.mod.classes:
                if n != self.cname and self.cname in self.reg.bases_of(n):
                    _un("class %s has a subclass: self.__class__ is not known" % self.cname, e)
            return self.construct(self.cname, e, env)
        # "<sep>".join(xs)
        if isinstance(f, ast.Attribute) and f.attr == "join" and XD._is_str_const(f.value) \
                and len(e.args) == 1 and not e.keywords:
            b, t, ty = self.seq_arg(e.args[0], env, JV)
            t, ty = XD.coerce(t, ty, L(JV))
            n = self.fresh()
            return b + [("bind", n, "(pj_str_join %s %s)" % (XD._coq_string(f.value.value), t))], n, STR
        # a call of an opaque value (the label formatter): its arguments are evaluated, the outcome is not described
        if isinstance(f, ast.Attribute) and not isinstance(f.value, ast.Constant):
            so = self.self_object(f.value, env)
            if so is not None and so[1][0] == "obj":
                fields = XD.CLASSES[so[1][1]][2]
                if any(pyattr == f.attr and proj is None for pyattr, proj, _ in fields):
                    if e.keywords or any(isinstance(a, ast.Starred) for a in e.args):
                        _un("keyword / starred arguments in a call of an opaque value", e)
                    binds = []
                    for a in e.args:
                        b, t, ty = self.tr(a, env)
                        binds += b
                    n = self.fresh()
                    return binds + [("bind", n, "(py_call_opaque jv)")], n, JV
        return _Base.call(self, e, env, exp)

    def local_call(self, fn, env, node):
        if self.in_local_fn:
            _un("a local function called inside a local function", node)
        e2 = self._fork(env)
        for n in ast.walk(fn):
            if isinstance(n, ast.Name) and isinstance(n.ctx, (ast.Store, ast.Del)) and n.id in env:
                _un("the local function `%s` binds `%s`, a name of the enclosing function" % (fn.name, n.id), n)
            if isinstance(n, (ast.Yield, ast.YieldFrom, ast.Nonlocal, ast.Global, ast.Lambda)) or \
                    (isinstance(n, ast.FunctionDef) and n is not fn):
                _un("the local function `%s`: %s" % (fn.name, type(n).__name__), n)
        saved = (self.ret, self.ret_wrap, self.loop_k, self.in_gen)
        self.ret, self.ret_wrap, self.loop_k, self.in_gen = JV, [], [], 0
        self.in_local_fn += 1
        try:
            body = self.block(list(fn.body), e2, None)
        finally:
            self.in_local_fn -= 1
            self.ret, self.ret_wrap, self.loop_k, self.in_gen = saved
        n = self.fresh()
        return [("bind", n, body)], n, JV

    # -- statements -------------------------------------------------------------------------------------------
    @staticmethod
    def _always_returns(stmts):
        if stmts and isinstance(stmts[-1], ast.Raise):
            return True
        if not stmts:
            return False
        s = stmts[-1]
        if isinstance(s, ast.Return):
            return True
        if isinstance(s, ast.If):
            return _Member2._always_returns(s.body) and _Member2._always_returns(s.orelse)
        if isinstance(s, ast.Try):
            return _Member2._always_returns(s.body) and all(_Member2._always_returns(h.body) for h in s.handlers) \
                and not s.orelse and not s.finalbody
        return False

    @staticmethod
    def _has_jump(stmts):
        for s in stmts:
            for n in ast.walk(s):
                if isinstance(n, (ast.Return, ast.Continue, ast.Break, ast.Yield, ast.YieldFrom, ast.Try, ast.Raise)):
                    return True
        return False

    def block(self, stmts, env, k):
        if stmts:
            s, rest = stmts[0], list(stmts[1:])
            if isinstance(s, ast.Raise):
                return self.raise_(s, rest, env)
            if isinstance(s, ast.FunctionDef):
                return self.local_def(s, rest, env, k)
            if isinstance(s, ast.Assign) and len(s.targets) == 1 and isinstance(s.targets[0], ast.Attribute):
                return self.setattr_(s, rest, env, k)
        return _Base.block(self, stmts, env, k)

    def raise_(self, s, rest, env):
        if rest:
            _un("statements after `raise`", rest[0])
        if s.cause is not None or s.exc is None:
            _un("`raise` without an exception / with a cause", s)
        exc = s.exc
        args = []
        if isinstance(exc, ast.Call):
            if exc.keywords:
                _un("keyword arguments of an exception", s)
            args, exc = exc.args, exc.func
        if not (_is_name(exc) and exc.id in RAISES and exc.id not in env and exc.id not in self.reg.mod.toplevel_names):
            _un("`raise` of something other than %s" % "/".join(sorted(RAISES)), s)
        # the message: constants and f-strings over plain locals (formatting a value read from JSON raises nothing)
        for a in args:
            if isinstance(a, ast.Constant):
                continue
            if isinstance(a, ast.JoinedStr) and all(
                    isinstance(v, ast.Constant) or (isinstance(v, ast.FormattedValue) and _is_name(v.value)
                                                    and v.value.id in env and v.value.id not in self.itemrefs
                                                    and v.conversion == -1 and v.format_spec is None
                                                    and env[v.value.id].ty in (JV, STR, Z, BOOL, DT))
                    for v in a.values):
                continue
            _un("exception message not read", a)
        return "(Err %s)" % RAISES[exc.id]

    def local_def(self, s, rest, env, k):
        a = s.args
        if s.decorator_list or a.args or a.vararg or a.kwarg or a.kwonlyargs or a.posonlyargs or a.defaults \
                or a.kw_defaults:
            _un("nested def `%s` with parameters / decorators" % s.name, s)
        if s.name in env or s.name in self.local_fns or s.name in self.reg.mod.toplevel_names or self.in_local_fn:
            _un("nested def `%s` shadows another name" % s.name, s)
        # the name may only be CALLED, and is never rebound
        for later in rest:
            for n in ast.walk(later):
                if isinstance(n, ast.Name) and n.id == s.name and not isinstance(n.ctx, ast.Load):
                    _un("`%s` is rebound" % s.name, n)
        uses = [n for later in rest for n in ast.walk(later) if isinstance(n, ast.Name) and n.id == s.name]
        calls = [n.func for later in rest for n in ast.walk(later) if isinstance(n, ast.Call) and _is_name(n.func, s.name)]
        if len(uses) != len(calls):
            _un("the local function `%s` is used other than by calling it" % s.name, s)
        self.local_fns[s.name] = s
        try:
            return self.block(rest, env, k)
        finally:
            del self.local_fns[s.name]

    # X.attr = v where X is a loop variable over a list of objects this function constructed
    def setattr_(self, s, rest, env, k):
        tg = s.targets[0]
        if not (_is_name(tg.value) and tg.value.id in self.itemrefs and tg.value.id in env):
            _un("attribute assignment on something other than an object this function constructed", s)
        lst, idx = self.itemrefs[tg.value.id]
        oty = env[tg.value.id].ty
        if oty[0] != "obj" or (oty[1], tg.attr) not in SETTERS:
            _un("attribute assignment .%s not read" % tg.attr, s)
        fty = [f for f in XD.CLASSES[oty[1]][2] if f[0] == tg.attr][0][2]
        bv, tv, tyv = self.tr(s.value, env, fty)
        self.escape(s.value, env)
        if lst not in env or not env[lst].fresh:
            return self.wrap(bv, "(bind (Err MutatesCaller) (fun _ : unit => %s))" % self.block(rest, env, k))
        lc = env[lst].coq
        n = self.fresh()
        binds = bv + [("bind", n, "(pl_getitem %s %s)" % (lc, idx)),
                      ("let", lc, "(py_list_set %s %s (%s %s %s))" % (lc, idx, SETTERS[(oty[1], tg.attr)], n, tv))]
        return self.wrap(binds, self.block(rest, env, k))

    def assign(self, s, rest, env, k):
        if isinstance(s, ast.Assign) and len(s.targets) == 1 and isinstance(s.targets[0], ast.Name):
            name, v = s.targets[0].id, s.value
            if name in self.itemrefs or name in self.local_fns:
                _un("`%s` is rebound" % name, s)
            self.objlists.discard(name)
            if isinstance(v, ast.ListComp) and isinstance(v.elt, ast.Call) and _is_name(v.elt.func) \
                    and v.elt.func.id in self.reg.mod.classes and v.elt.func.id not in env \
                    and (v.elt.func.id in XD.CLASSES or v.elt.func.id in PSEUDO.values()) \
                    and self._bound_once(name):
                self._objlist_reads_ok(name, s)
                self.objlists.add(name)
        return _Base.assign(self, s, rest, env, k)

    def _objlist_reads_ok(self, name, stmt):
        """`name` is bound (by the top-level statement `stmt`) to a list of freshly constructed objects.  While
        attribute assignments on its items are still to come, the list may only be read as the `iter` of a `for`
        statement: an item copied out earlier (by value) would not see the later assignment."""
        body = list(self.fn.body)
        if stmt not in body:
            _un("a list of constructed objects bound inside a block", stmt)
        start = body.index(stmt)
        last = start
        for k in range(start + 1, len(body)):
            for n in ast.walk(body[k]):
                if isinstance(n, ast.Attribute) and isinstance(n.ctx, (ast.Store, ast.Del)):
                    last = k
        for k in range(start + 1, last + 1):
            iters = set()
            for n in ast.walk(body[k]):
                if isinstance(n, ast.For) and _is_name(n.iter, name):
                    iters.add(id(n.iter))
            for n in ast.walk(body[k]):
                if _is_name(n, name) and id(n) not in iters:
                    _un("`%s` (a list of objects whose attributes are assigned later) is read other than by a `for`"
                        % name, n)

    def _bound_once(self, name):
        n = 0
        for x in ast.walk(self.fn):
            if isinstance(x, ast.Name) and x.id == name and isinstance(x.ctx, (ast.Store, ast.Del)):
                n += 1
            if isinstance(x, ast.arg) and x.arg == name:
                n += 1
        return n == 1

    def mutated(self, stmts, env):
        """x_dimension's `mutated` + `X.attr = v` on a loop variable over an object list (changes the list)"""
        extra = []
        plain = []

        def strip(ss):
            out = []
            for s in ss:
                if isinstance(s, ast.Assign) and len(s.targets) == 1 and isinstance(s.targets[0], ast.Attribute):
                    t = s.targets[0]
                    if _is_name(t.value) and t.value.id in self.itemrefs:
                        lst = self.itemrefs[t.value.id][0]
                        if lst in env and lst not in extra:
                            extra.append(lst)
                        out.append(ast.copy_location(ast.Pass(), s))
                        continue
                    _un("attribute assignment target not read", s)
                if isinstance(s, ast.Raise):
                    out.append(ast.copy_location(ast.Pass(), s))
                    continue
                if isinstance(s, ast.If):
                    s2 = ast.copy_location(ast.If(test=s.test, body=strip(s.body) or [ast.Pass()],
                                                  orelse=strip(s.orelse)), s)
                    out.append(s2)
                    continue
                if isinstance(s, ast.For):
                    # an inner loop over an object list: its variable is an item reference while its body is read
                    if _is_name(s.iter) and s.iter.id in self.objlists and _is_name(s.target):
                        had = s.target.id in self.itemrefs
                        old = self.itemrefs.get(s.target.id)
                        self.itemrefs[s.target.id] = (s.iter.id, "i_" + s.target.id)
                        try:
                            body = strip(s.body)
                        finally:
                            if had:
                                self.itemrefs[s.target.id] = old
                            else:
                                del self.itemrefs[s.target.id]
                        # the loop variable itself is not a piece of state
                        s2 = ast.copy_location(ast.For(target=ast.Name(id="_", ctx=ast.Store()), iter=s.iter,
                                                       body=body or [ast.Pass()], orelse=s.orelse), s)
                    else:
                        s2 = ast.copy_location(ast.For(target=s.target, iter=s.iter, body=strip(s.body) or [ast.Pass()],
                                                       orelse=s.orelse), s)
                    out.append(s2)
                    continue
                if isinstance(s, ast.Try):
                    s2 = ast.copy_location(ast.Try(body=strip(s.body), handlers=[
                        ast.copy_location(ast.ExceptHandler(type=h.type, name=h.name, body=strip(h.body)), h)
                        for h in s.handlers], orelse=s.orelse, finalbody=s.finalbody), s)
                    out.append(s2)
                    continue
                if isinstance(s, ast.FunctionDef):
                    _un("nested def inside a block that changes locals", s)
                out.append(s)
            return out

        plain = _Base.mutated(self, strip(list(stmts)), env)
        names = [n for n in plain if n == "yield"] + sorted(set([n for n in plain if n != "yield"] + extra))
        return names

    def for_(self, s, rest, env, k):
        if not (_is_name(s.iter) and s.iter.id in self.objlists and s.iter.id in env):
            return _Base.for_(self, s, rest, env, k)
        lst = s.iter.id
        if s.orelse:
            _un("for ... else", s)
        for n in ast.walk(s):
            if isinstance(n, (ast.Return, ast.Break)):
                _un("`return` / `break` inside a loop", n)
        if not _is_name(s.target) or s.target.id in env or s.target.id in self.itemrefs or s.target.id in ("_", "self", "cls"):
            _un("loop variable over a list of constructed objects not read", s)
        lv = env[lst]
        if lv.ty[0] != "list" or lv.ty[1][0] != "obj":
            _un("`%s` is no list of objects" % lst, s)
        var, idx = s.target.id, "i_" + s.target.id
        # the positions of the list as it is when the loop starts (attribute assignments do not change its length)
        ti = "(py_range (py_len %s))" % lv.coq
        self.itemrefs[var] = (lst, idx)
        try:
            menv = self._fork(env)
            menv[var] = XD._Var(lv.ty[1], "_")
            names = self.mutated(s.body, menv)
            pat, tup = self.state(names, env)
            for attempt in (0, 1):
                body_env = self._fork(env)
                body_env[var] = XD._Var(lv.ty[1], "_")

                def done(e):
                    return "(Ok %s)" % self.state(names, e)[1]

                save = self.ntemp
                self.loop_k.append(done)
                try:
                    body = self.block(list(s.body), body_env, done)
                finally:
                    self.loop_k.pop()
                changed = any(body_env[n].ty != env[n].ty for n in names)
                self.merge_env(env, names, body_env)
                if not changed:
                    break
                if attempt == 0:
                    self.ntemp = save
            else:
                _un("the types of the loop state do not settle", s)
        finally:
            del self.itemrefs[var]
        return "(bind (py_foldM (fun %s %s => %s) %s %s) (fun %s => %s))" % (
            pat, idx, body, ti, tup, pat, self.block(rest, env, k))

    # -- __init__ with `self.x = p or {}` -----------------------------------------------------------------------
    def translate_init(self):
        fn = self.fn
        pnames = [x.arg for x in fn.args.args][1:]
        rewritten = {}
        body = []
        for s in fn.body:
            v = getattr(s, "value", None)
            if isinstance(s, ast.Assign) and len(s.targets) == 1 and isinstance(s.targets[0], ast.Attribute) \
                    and _is_name(s.targets[0].value, "self") and isinstance(v, ast.BoolOp) \
                    and isinstance(v.op, ast.Or) and len(v.values) == 2 and _is_name(v.values[0]) \
                    and v.values[0].id in pnames and isinstance(v.values[1], ast.Dict) and not v.values[1].keys:
                rewritten[v.values[0].id] = True
                s = ast.copy_location(ast.Assign(targets=s.targets, value=v.values[0]), s)
            body.append(s)
        if not rewritten:
            return _Base.translate_init(self)
        fn2 = ast.copy_location(ast.FunctionDef(name=fn.name, args=fn.args, body=body, decorator_list=fn.decorator_list,
                                                returns=fn.returns), fn)
        self.fn = fn2
        try:
            term = _Base.translate_init(self)
        finally:
            self.fn = fn
        # (fun (l_a : A) .. => (mk l_a ..)): `p or {}` on the stored parameters (which are JSON values)
        m = re.match(r"^\(fun(.*) => \((\w+) (.*)\)\)$", term)
        if not m:
            _un("__init__: constructor term not recognised")
        args = m.group(3).split(" ")
        for p in rewritten:
            ptys = [t for q, t, _ in self.init_params if q == p]
            if ptys != [JV] or XD.lname(p) not in args:
                _un("__init__: `%s or {}` on a parameter that is no JSON value" % p)
            i = args.index(XD.lname(p))
            args[i] = "(if (jv_truthy %s) then %s else (JDict []))" % (XD.lname(p), XD.lname(p))
        return "(fun%s => (%s %s))" % (m.group(1), m.group(2), " ".join(args))

    def translate(self):
        if self.name == "__init__":
            return self.translate_init()
        term = _Base.translate(self)
        if self.has_env():
            if not term.startswith("(fun (_ : unit) =>") and not term.startswith("(fun "):
                _un("member term not recognised")
            if term.startswith("(fun (_ : unit) =>"):
                term = "(fun (%s : pyshimenv) =>" % ENV + term[len("(fun (_ : unit) =>"):]
            else:
                term = "(fun (%s : pyshimenv)" % ENV + term[len("(fun"):]
        return term


def _sig_type(cname, kind, params, ret, is_init=False):
    t = _orig_sig_type(cname, kind, params, ret, is_init)
    if cname in NEED_ENV and not is_init:
        t = "pyshimenv -> " + (t[len("unit -> "):] if t.startswith("unit -> ") else t)
    return t


_orig_sig_type = XD.sig_type
XD.sig_type = _sig_type
XD._Member = _Member2   # the registry of the private copy builds members of the extended reader


class _Registry2(XD._Registry):
    def bases_of(self, cname):
        try:
            return self.mod.bases(cname)
        except Unavailable:
            return ["?"]

    def _check_field(self, cname, attr):
        if cname in PSEUDO:
            real = PSEUDO[cname]
            # stores to the attribute on `self` anywhere in the class: only __init__ may do that; stores on OTHER
            # objects (from_dicts: dim.dimension_type = ..) are read where they stand
            if real not in self.mod.classes:
                return "class %s not found" % real
            stores = []
            for fn in self.mod.functions(real):
                for n in ast.walk(fn):
                    if isinstance(n, ast.Attribute) and n.attr == attr and isinstance(n.ctx, (ast.Store, ast.Del)) \
                            and isinstance(n.value, ast.Name) and n.value.id == "self":
                        stores.append(fn.name)
            if stores != ["__init__"]:
                return "%s: self.%s is not stored exactly once, by __init__" % (real, attr)
            return True
        return XD._Registry._check_field(self, cname, attr)

    def _make(self, cname, name):
        info = XD._Registry._make(self, cname, name)
        return info


HEADER = """(* GENERATED by harness/translate/x_dimtype.py from %s
   -- do not edit; rewritten (only when its text changes) on every check.
   The members of dimension.py x_dimension.py does not write to Gen/DimensionSrc.v: [Some f] = what the source
   says, as a Gallina function over the Python-semantics combinators of Base/PyList.v, Base/PyDict.v,
   Model/PyDimension.v and Model/PyDimType.v ([m_<Class>_<x>] = the generated function of the member it reads -
   from this file or from Gen/DimensionSrc.v -, [X] = the environment of the members of Dimensions: what the two
   lazyproperties _dimension_dict / _dimension_transforms_dict of a Dimension object evaluate to); [None] = the
   translator could not read the member or one it reads. *)
From Coq Require Import List ZArith String Bool.
From CC Require Import Base.XQ Base.Ident Base.PyList Base.PyDict Model.DimType Model.PyDimension Model.PyDimType
  Gen.DimensionSrc.
Import ListNotations.
Local Close Scope Q_scope.
Local Open Scope Z_scope.

"""

_DEF_RE = re.compile(r"^Definition\s+(\w+)\s*:\s*option\s*\((.*?)\)\s*:=", re.M)


def _old_definitions(gen_dir):
    """identifier -> Coq type of every definition of the Gen/DimensionSrc.v this run's x_dimension.py wrote"""
    try:
        with open(os.path.join(gen_dir, "DimensionSrc.v"), encoding="utf-8") as f:
            text = f.read()
    except OSError:
        return {}
    return {m.group(1): " ".join(m.group(2).split()) for m in _DEF_RE.finditer(text)}


def _generate(text, enums_text, report, old_defs):
    mod = _Module2(text)
    reg = _Registry2(mod, XD._Enums(enums_text))
    for cname, name in EXPECTED:
        try:
            reg.get(cname, name)
        except Unavailable:
            pass
    out = []
    emitted = set()

    def is_old(key):
        if key[0] == "#":
            return ("src_" + key[1]) in old_defs
        return key in OLD_SIGS or (key[1] == "__init__" and _ident_of(*key) in old_defs)

    for key in reg.order:
        if key[0] == "#":
            ident_ = "src_" + key[1]
            if ident_ in old_defs:
                continue
            r = reg.consts[key[1]]
            kind = "list dtype" if key[1].startswith("DT_") else "list (string * string)"
            if isinstance(r, Unavailable):
                report["unavailable"].append({"method": "%s:%s" % (MODNAME, key[1]), "reason": str(r)})
                out.append("(* %s not read: %s *)" % (key[1], T._coq_comment(str(r))))
                out.append("Definition %s : option (%s) := None." % (ident_, kind))
            else:
                out.append("Definition %s : option (%s) := Some %s." % (ident_, r[0], r[1]))
            emitted.add(ident_)
            continue
        cname, name = key
        ident_ = _ident_of(cname, name)
        if is_old(key):
            continue                      # x_dimension.py's: defined in Gen/DimensionSrc.v
        pcls = PSEUDO.get(cname, cname)
        what = "%s.%s" % (pcls, name) if cname else name
        r = reg.done[key]
        if key not in reg.types:
            report["unavailable"].append({"method": "%s:%s" % (MODNAME, what), "reason": str(r)})
            out.append("(* %s not read: %s *)" % (what, T._coq_comment(str(r))))
            continue
        ty = reg.types[key]
        if not isinstance(r, Unavailable):
            # every member of Gen/DimensionSrc.v this one reads must be defined there, with the type this reader
            # gives it (x_dimension.py read the same text in the same run)
            for d in r["deps"]:
                di = ("src_" + d[1]) if d[0] == "#" else _ident_of(*d)
                if di in emitted:
                    continue
                want = reg.consts[d[1]][0] if d[0] == "#" else reg.types.get(d)
                if di not in old_defs:
                    r = Unavailable("reads %s, which Gen/DimensionSrc.v does not define" % di)
                    break
                if want is not None and " ".join(want.split()) != old_defs[di]:
                    r = Unavailable("reads %s, which Gen/DimensionSrc.v defines with another type" % di)
                    break
        if isinstance(r, Unavailable):
            report["unavailable"].append({"method": "%s:%s" % (MODNAME, what), "reason": str(r)})
            out.append("(* %s not read: %s *)" % (what, T._coq_comment(str(r))))
            out.append("Definition %s : option (%s) := None." % (ident_, ty))
            emitted.add(ident_)
            continue
        report["methods_translated"].append("%s:%s" % (MODNAME, what))
        out.append("(* %s *)" % what)
        head, foot = "", ""
        for d in r["deps"]:
            if d[0] == "#":
                head += "  match src_%s with Some c_%s =>\n" % (d[1], d[1])
            else:
                head += "  match %s with Some %s =>\n" % (_ident_of(*d), _mname_of(*d))
            foot = " | None => None end" + foot
        out.append("Definition %s : option (%s) :=\n%s  Some %s%s." % (ident_, ty, head, r["body"], foot))
        emitted.add(ident_)
    return HEADER % ("src/" + XD.SRC + ", src/" + XD.ENUMS) + "\n".join(out) + "\n"


def _fallback(ex):
    return "(* GENERATED by harness/translate/x_dimtype.py: the translator failed: %s *)\n" % T._coq_comment(repr(ex))


def regenerate(repo_src, gen_dir, report):
    """Adds Gen/DimTypeSrc.v; extends `report`."""
    report["x_dimtype_version"] = VERSION
    texts = {}
    for rel in (XD.SRC, XD.ENUMS):
        p = os.path.join(repo_src, rel)
        try:
            with open(p, encoding="utf-8") as f:
                texts[rel] = f.read()
            sha = T._sha(texts[rel])
            if report["files"].get("src/" + rel) not in (None, sha):
                raise Unavailable("%s changed while the translators ran" % rel)
            report["files"]["src/" + rel] = sha
        except (OSError, UnicodeDecodeError) as ex:
            report["files"].setdefault("src/" + rel, None)
            report["errors"].append("cannot read %s: %r" % (rel, ex))
    try:
        if XD.SRC not in texts or XD.ENUMS not in texts:
            raise Unavailable("source file not readable")
        out = _generate(texts[XD.SRC], texts[XD.ENUMS], report, _old_definitions(gen_dir))
    except Exception as ex:  # SyntaxError of the source, a bug of ours: fail closed
        report["errors"].append("DimTypeSrc.v: %r" % (ex,))
        out = _fallback(ex)
    os.makedirs(gen_dir, exist_ok=True)
    changed = T._write_if_changed(os.path.join(gen_dir, "DimTypeSrc.v"), out)
    report["gen_files"]["Gen/DimTypeSrc.v"] = {"sha256": T._sha(out), "rewritten": changed}
    return report


if __name__ == "__main__":  # manual run: python -m harness.translate.x_dimtype <repo_src> <gen_dir>
    import json
    import sys

    rep = {"files": {}, "errors": [], "gen_files": {}, "methods_translated": [], "unavailable": []}
    XDpub = importlib.import_module("harness.translate.x_dimension")
    XDpub.regenerate(sys.argv[1], sys.argv[2], rep)
    regenerate(sys.argv[1], sys.argv[2], rep)
    json.dump(rep, sys.stdout, indent=1)
