# -*- coding: utf-8 -*-
"""Fourth source translator (round 3, workstream `bases`): reads the BASE measures and MARGINALS

    <repo>/src/cr/cube/matrix/measure.py      _Column/_Row/_Table(Un)WeightedBases, _ColumnSquaredBases
                                              (the four blocks of each), the marginals
                                              _MarginWeightedBase / _MarginUnweightedBase /
                                              _MarginSquaredBase / _MarginTableBase /
                                              _MarginTableProportion, the table values _TableBase /
                                              _TableBasesRange, and the pass-through measures
                                              _UnweightedCounts / _Means / _Medians / _Sums / _StdDev
    <repo>/src/cr/cube/stripe/measure.py      _UnweightedBases / _WeightedBases / _UnweightedCounts /
                                              _WeightedCounts / _Means / _Medians / _Sums / _StdDev
    <repo>/src/cr/cube/min_base_size_mask.py  MinBaseSizeMask.row_mask / column_mask / table_mask

with Python's `ast`, THROUGH THE WIRING of SecondOrderMeasures / StripeMeasures, and writes them as

    coq/Gen/BasesSrc.v          terms of `bexp` (coq/Base/BasesExp.v: numpy values with NUMERIC shapes,
    coq/Gen/StripeBasesSrc.v    integer indexing that must be in range, np.broadcast_to, shape tests)
    coq/Gen/MaskSrc.v           (bexp as well)
    coq/Gen/PassMeasureSrc.v    terms of `mexp` (coq/Base/MeasureExp.v) -- the five pass-through
                                measures are plain strategy calls, which the SECOND translator's
                                language already expresses; read with measures._M itself.

coq/Proofs/GenAgreeBaseBlocks.v, GenAgreeMargins.v, GenAgreePass.v prove, for every translated member
and ALL sizes / subtotal lists / inputs, that the term denotes the definition of Model/Proportions.v
(row_base_blocks, col_base_blocks, table_base_blocks), Model/BaseBlocks.v, Model/Subtotals.v,
Model/CubeCounts.v, Model/MinBaseMask.v the theorems of C02 / C01 (and C03, C11, C04 downstream) are
about.

Same rules as translate.py / measures.py: WHITELIST, fail-closed (anything outside the listed AST
shapes makes THAT member `None` + `NOTE translator-unavailable`); never guesses, never repairs;
`self.<lazyproperty>` and `self._method(args)` are inlined with virtual dispatch from the wired class;
local names are inlined; `with np.errstate(...)` is transparent.  New here:

* `self.orientation == MO.ROWS` is DECIDED by the translator from the constructor argument the
  collection passes (`MO.ROWS` / `MO.COLUMNS`): one term per wiring, the branch not taken is not read.
* `if c: raise ...` is `BRaiseIf c <rest>`; `if c: return a` ... `return b` is `BIf c a b`.
* a strategy call is RECORDED (`BSum` / `BNanSub` / `BVSum` / `BVNanSub`: which classmethod, which
  cube-measure array, which flags; the classmethods' signatures are checked): their meaning is what
  the third translator's lemmas prove about matrix/subtotals.py and stripe/insertion.py.
* Files are rewritten only if their text changed.
"""
import ast
import os

from harness.translate import measures as M2
from harness.translate import translate as T

VERSION = "x_bases.py/1"
GEN_FILES = ("BasesSrc.v", "StripeBasesSrc.v", "MaskSrc.v", "PassMeasureSrc.v", "ScalarSrc.v",
             "StripeFactorySrc.v")

M_MASK = "cr/cube/min_base_size_mask.py"
M_SCALAR = "cr/cube/scalar.py"

Unavailable = T.Unavailable
_un = T._un
q = T.q


# ------------------------------------------------------------------------------------
# Coq printing of bexp
# ------------------------------------------------------------------------------------


def p_flag(b):
    if b[0] == "FLit":
        return "(FLit %s)" % ("true" if b[1] else "false")
    return "(FCube %s %s)" % (q(b[1]), q(b[2]))


def p_idx(ix):
    k = ix[0]
    if k in ("IAt", "IRow", "ICol"):
        return "(%s %d)" % (k, ix[1])
    if k == "ICell":
        return "(ICell %d %d)" % (ix[1], ix[2])
    if k == "INewCol":
        return "INewCol"
    raise AssertionError(ix)


def p_nat(n):
    k = n[0]
    if k == "LLit":
        return "LLit %d" % n[1]
    if k == "LAt":
        return "LAt (%s) %d" % (p_shape(n[1]), n[2])
    if k == "LSubs":
        return "LSubs %d" % n[1]
    raise AssertionError(n)


def p_shape(h):
    k = h[0]
    if k == "HShape":
        return "HShape (%s)" % p_bexp(h[1])
    if k == "HTuple2":
        return "HTuple2 (%s) (%s)" % (p_nat(h[1]), p_nat(h[2]))
    if k == "HSubsLens":
        return "HSubsLens"
    raise AssertionError(h)


def p_bcond(c):
    k = c[0]
    if k == "QLit":
        return "QLit %s" % ("true" if c[1] else "false")
    if k == "QNatEq":
        return "QNatEq (%s) %d" % (p_nat(c[1]), c[2])
    if k == "QShapeIs":
        return "QShapeIs (%s) %s" % (p_shape(c[1]), T.coq_list(["%d" % x for x in c[2]]))
    if k == "QIsNone":
        return "QIsNone (%s)" % p_bexp(c[1])
    if k == "QFlag":
        return "QFlag %s %s" % (q(c[1]), q(c[2]))
    if k == "QDimTypeIn":
        return "QDimTypeIn %d %s" % (c[1], q(c[2]))
    if k == "QNot":
        return "QNot (%s)" % p_bcond(c[1])
    raise AssertionError(c)


def p_bexp(t):
    k = t[0]
    if k == "BAttr":
        return "BAttr %s %s" % (q(t[1]), q(t[2]))
    if k == "BBlock":
        return "BBlock %s %d %d" % (q(t[1]), t[2], t[3])
    if k == "BMBlock":
        return "BMBlock %s %d" % (q(t[1]), t[2])
    if k == "BSliceAttr":
        return "BSliceAttr %s" % q(t[1])
    if k == "BSize":
        return "BSize"
    if k == "BArg":
        return "BArg %s" % q(t[1])
    if k == "BConstZ":
        return "BConstZ (%d)%%Z" % t[1]
    if k == "BSum":
        return "BSum %s %s %s %s %d %d" % (p_flag(t[1]), p_flag(t[2]), q(t[3]), q(t[4]), t[5], t[6])
    if k == "BNanSub":
        return "BNanSub %s %s %d %d" % (q(t[1]), q(t[2]), t[3], t[4])
    if k in ("BVSum", "BVNanSub", "BMinMax"):
        return "%s (%s)" % (k, p_bexp(t[1]))
    if k == "BIndex":
        return "BIndex (%s) %s" % (p_bexp(t[1]), p_idx(t[2]))
    if k == "BBroadcast":
        return "BBroadcast (%s) (%s)" % (p_bexp(t[1]), p_shape(t[2]))
    if k == "BRepeat1":
        return "BRepeat1 (%s) (%s)" % (p_bexp(t[1]), p_nat(t[2]))
    if k == "BApplySum":
        return "BApplySum %d (%s)" % (t[1], p_bexp(t[2]))
    if k == "BEmptyVec":
        return "BEmptyVec"
    if k == "BDiv":
        return "BDiv (%s) (%s)" % (p_bexp(t[1]), p_bexp(t[2]))
    if k == "BCmp":
        return "BCmp %s (%s) (%s)" % (t[1], p_bexp(t[2]), p_bexp(t[3]))
    if k == "BIf":
        return "BIf (%s) (%s) (%s)" % (p_bcond(t[1]), p_bexp(t[2]), p_bexp(t[3]))
    if k == "BRaiseIf":
        return "BRaiseIf (%s) (%s)" % (p_bcond(t[1]), p_bexp(t[2]))
    raise AssertionError(t)


# ------------------------------------------------------------------------------------
# the reader
# ------------------------------------------------------------------------------------

_CMP = {ast.Lt: "OLt", ast.LtE: "OLe", ast.Gt: "OGt", ast.GtE: "OGe"}
_RESERVED = ("self", "np", "DT", "MO", "len", "tuple")


def _full_slice(n):
    return isinstance(n, ast.Slice) and n.lower is None and n.upper is None and n.step is None


def _is_none(n):
    return isinstance(n, ast.Constant) and n.value is None


class _B(M2._M):
    """matrix/measure.py (kind "matrix") or stripe/measure.py (kind "stripe") -> bexp.

    Abstract values:  ("arr", bexp)  ("num", Fraction)  ("bool", b)  ("none",)  ("list", [values])
    ("shape", bshape)  ("nat", bnat)  ("subs", d)  ("dims",)  ("dimidx", d)  ("dim", 1)  ("MO", X)
    ("cm",)  ("cubeobj", c)  ("cubeattr", c, a)  ("measure", m)  ("npfunc", f)  ("noargs",)
    ("nokwargs",)  ("obj",)  ("som",)  ("opaque", p)
    """

    # -- module checks: everything measures._M checks + MO + the classmethods recorded here
    def _check_module(self, strat_text):
        p = M2._M._check_module(self, strat_text)
        if p:
            return p
        imp = self.m.imported()
        if self.kind == "matrix" and imp.get("MO") != ("cr.cube.enums", "MARGINAL_ORIENTATION"):
            return "the name MO is not imported as expected"
        sm = M2._Mod(strat_text, "strategies")
        if self.kind == "matrix":
            ok = all(
                M2._classmethod_sig(sm, "SumSubtotals", mn,
                                    ["cls", "base_values", "dimensions", "diff_cols_nan", "diff_rows_nan"], 2)
                for mn in ("blocks", "subtotal_columns", "subtotal_rows", "intersections")
            )
        else:
            ok = M2._classmethod_sig(sm, "NanSubtotals", "subtotal_values", ["cls", "base_values", "rows_dimension"])
        if not ok:
            return "a subtotal strategy classmethod does not have the expected signature"
        return None

    # -- which kind of object a collection property constructs
    def wired_kind(self, prop, node=None):
        fn = self.m.resolve(self.coll, prop)
        if fn is None or not M2._plain_lazy(fn):
            _un("%s.%s is not a plain @lazyproperty" % (self.coll, prop), node)
        body = T._strip_doc(fn.body)
        if not (
            len(body) == 1 and isinstance(body[0], ast.Return) and isinstance(body[0].value, ast.Call)
            and isinstance(body[0].value.func, ast.Name) and body[0].value.func.id in self.m.classes
        ):
            _un("%s.%s is not `return _Class(...)`" % (self.coll, prop), node or fn)
        cname = body[0].value.func.id
        root = self.m.mro(cname)[-1].name
        return cname, {"_BaseSecondOrderMeasure": "measure2", "_BaseMarginal": "marginal",
                       "_BaseTableValue": "tablevalue"}.get(root)

    # -- statements
    def body(self, stmts, ctx, where):
        if not stmts:
            _un("no `return <expr>` on this path", where)
        st, rest = stmts[0], stmts[1:]
        if isinstance(st, ast.Return):
            if st.value is None:
                _un("bare return", st)
            return self.expr(st.value, ctx)
        if (
            isinstance(st, ast.Assign) and len(st.targets) == 1
            and isinstance(st.targets[0], ast.Name) and st.targets[0].id not in _RESERVED
        ):
            env = dict(ctx["env"])
            env[st.targets[0].id] = self.expr(st.value, ctx)
            return self.body(rest, dict(ctx, env=env), where)
        if isinstance(st, ast.With):
            if not (
                len(st.items) == 1 and st.items[0].optional_vars is None
                and isinstance(st.items[0].context_expr, ast.Call)
                and T._is_attr(st.items[0].context_expr.func, "np", "errstate")
                and "np" not in ctx["env"]
            ):
                _un("`with` other than np.errstate(...)", st)
            return self.body(list(st.body) + list(rest), ctx, where)
        if isinstance(st, ast.If):
            c = self.cond(st.test, ctx)
            if c[0] == "static":  # decided from the wiring: the other branch is not read
                chosen = st.body if c[1] else st.orelse
                return self.body(list(chosen) + list(rest), ctx, where)
            if st.orelse:
                _un("if/else on a run-time condition", st)
            if len(st.body) == 1 and isinstance(st.body[0], ast.Raise):
                return self.guard(c, self.body(list(rest), ctx, where), st)
            a = self.body(list(st.body), ctx, st)  # must end in a return on every path
            b = self.body(list(rest), ctx, where)
            return self.mif(c, a, b, st)
        _un("statement not read", st)

    def guard(self, c, v, node):
        if v[0] == "list":
            return ("list", [self.guard(c, x, node) for x in v[1]])
        return ("arr", ("BRaiseIf", c, self.arr(v, node)))

    def mif(self, c, a, b, node):
        if a[0] == "list" and b[0] == "list" and len(a[1]) == len(b[1]):
            return ("list", [self.mif(c, x, y, node) for x, y in zip(a[1], b[1])])
        return ("arr", ("BIf", c, self.arr(a, node), self.arr(b, node)))

    def arr(self, v, node):
        k = v[0]
        if k == "arr":
            return v[1]
        if k == "cubeattr":
            return ("BAttr", v[1], v[2])
        _un("not an array-valued expression (%s)" % k, node)

    def static_int(self, node, ctx):
        v = self.expr(node, ctx)
        if v[0] == "num" and v[1].denominator == 1 and v[1] >= 0:
            return int(v[1])
        return None

    def as_nat(self, v, node):
        if v[0] == "nat":
            return v[1]
        if v[0] == "num" and v[1].denominator == 1 and v[1] >= 0:
            return ("LLit", int(v[1]))
        _un("not a length-valued expression (%s)" % v[0], node)

    def bfl(self, v, node):
        if v[0] == "bool":
            return ("FLit", v[1])
        if v[0] == "cubeattr":
            return ("FCube", v[1], v[2])
        _un("strategy flag is not a literal / <cube-measure object>.<attribute>", node)

    # -- expressions
    def expr(self, e, ctx):
        fr = M2._num(e, self.text)
        if fr is not None:
            return ("num", fr)
        if isinstance(e, ast.Constant):
            if type(e.value) is bool:
                return ("bool", e.value)
            if e.value is None:
                return ("none",)
            _un("constant outside the sub-language", e)
        if isinstance(e, ast.Name):
            if e.id == "self":
                if "self" in ctx["env"]:
                    _un("self rebound", e)
                return ctx["self"]
            if e.id in ctx["env"]:
                return ctx["env"][e.id]
            _un("name not bound in the method", e)
        if isinstance(e, ast.Attribute):
            return self.attribute(e, ctx)
        if isinstance(e, ast.Subscript):
            return self.subscript(e, ctx)
        if isinstance(e, ast.List):
            if not e.elts or any(isinstance(x, ast.Starred) for x in e.elts):
                _un("list display outside the sub-language", e)
            return ("list", [self.expr(x, ctx) for x in e.elts])
        if isinstance(e, ast.Tuple) and len(e.elts) == 2 and isinstance(e.ctx, ast.Load):
            vs = [self.expr(x, ctx) for x in e.elts]
            return ("shape", ("HTuple2", self.as_nat(vs[0], e.elts[0]), self.as_nat(vs[1], e.elts[1])))
        if isinstance(e, ast.BinOp):
            if isinstance(e.op, ast.Div):
                a = self.arr(self.expr(e.left, ctx), e.left)
                b = self.arr(self.expr(e.right, ctx), e.right)
                return ("arr", ("BDiv", a, b))
            if isinstance(e.op, ast.Sub):
                a, b = self.expr(e.left, ctx), self.expr(e.right, ctx)
                if a[0] == "num" and b[0] == "num":
                    return ("num", a[1] - b[1])
            _un("operator outside the sub-language", e)
        if isinstance(e, ast.Compare) and len(e.ops) == 1 and type(e.ops[0]) in _CMP:
            a = self.arr(self.expr(e.left, ctx), e.left)
            b = self.arr(self.expr(e.comparators[0], ctx), e.comparators[0])
            return ("arr", ("BCmp", _CMP[type(e.ops[0])], a, b))
        if isinstance(e, ast.IfExp):
            c = self.cond(e.test, ctx)
            if c[0] == "static":
                return self.expr(e.body if c[1] else e.orelse, ctx)
            return self.mif(c, self.expr(e.body, ctx), self.expr(e.orelse, ctx), e)
        if isinstance(e, ast.ListComp):
            if len(e.generators) != 1:
                _un("nested comprehension", e)
            g = e.generators[0]
            if g.is_async or g.ifs or not isinstance(g.target, ast.Name) or g.target.id in _RESERVED:
                _un("comprehension outside the sub-language", e)
            it = self.expr(g.iter, ctx)
            if it[0] != "list":
                _un("comprehension over something else than a literal list of blocks", e)
            out = []
            for v in it[1]:
                env = dict(ctx["env"])
                env[g.target.id] = v
                out.append(self.expr(e.elt, dict(ctx, env=env)))
            return ("list", out)
        if isinstance(e, ast.Call):
            return self.call(e, ctx)
        _un("expression outside the sub-language", e)

    def subscript(self, e, ctx):
        base = self.expr(e.value, ctx)
        sl = e.slice
        k = base[0]
        if k == "list":
            i = self.static_int(sl, ctx) if not isinstance(sl, (ast.Slice, ast.Tuple)) else None
            if i is None or i >= len(base[1]):
                _un("list index is not a literal in range", e)
            return base[1][i]
        if k == "dims":
            i = T._nat(sl)
            if self.kind == "matrix" and i in (0, 1):
                return ("dimidx", i)
            _un("dimension index other than 0 / 1", e)
        if k == "shape":
            i = self.static_int(sl, ctx) if not isinstance(sl, (ast.Slice, ast.Tuple)) else None
            if i is None:
                _un("shape index is not a literal", e)
            return ("nat", ("LAt", base[1], i))
        if k in ("arr", "cubeattr"):
            x = self.arr(base, e)
            if isinstance(sl, ast.Tuple) and len(sl.elts) == 2:
                a, b = sl.elts
                if _full_slice(a) and _is_none(b):
                    return ("arr", ("BIndex", x, ("INewCol",)))
                if _full_slice(b) and not isinstance(a, ast.Slice):
                    i = self.static_int(a, ctx)
                    if i is not None:
                        return ("arr", ("BIndex", x, ("IRow", i)))
                if _full_slice(a) and not isinstance(b, ast.Slice):
                    j = self.static_int(b, ctx)
                    if j is not None:
                        return ("arr", ("BIndex", x, ("ICol", j)))
                if not isinstance(a, ast.Slice) and not isinstance(b, ast.Slice):
                    i, j = self.static_int(a, ctx), self.static_int(b, ctx)
                    if i is not None and j is not None:
                        return ("arr", ("BIndex", x, ("ICell", i, j)))
            elif not isinstance(sl, (ast.Slice, ast.Tuple)):
                i = self.static_int(sl, ctx)
                if i is not None:
                    return ("arr", ("BIndex", x, ("IAt", i)))
        _un("subscript outside the sub-language", e)

    def attribute(self, e, ctx):
        if T._is_name(e.value, "np") and "np" not in ctx["env"]:
            if e.attr == "nan":
                return ("nan",)
            if e.attr == "sum":
                return ("npfunc", "sum")
            _un("numpy attribute outside the sub-language", e)
        if T._is_name(e.value, "DT") and "DT" not in ctx["env"]:
            return ("DT", e.attr)
        if T._is_name(e.value, "MO") and "MO" not in ctx["env"] and self.kind == "matrix":
            if e.attr in ("ROWS", "COLUMNS"):
                return ("MO", e.attr)
            _un("unknown MARGINAL_ORIENTATION member", e)
        base = self.expr(e.value, ctx)
        k = base[0]
        if k in ("obj", "som") and base == ctx["self"]:
            cname, fields = ctx["cname"], ctx["fields"]
            fn = self.m.resolve(cname, e.attr)
            if e.attr in fields:
                if fn is not None:
                    _un("attribute is both a field and a member", e)
                return fields[e.attr]
            if fn is None:
                _un("unknown attribute of self", e)
            if k == "som":
                return self.som_attr(e.attr, e)
            return self.member(cname, fields, e.attr, ctx["stack"])
        if k == "som":
            return self.som_attr(e.attr, e)
        if k == "cm":
            return ("cubeobj", e.attr)
        if k == "cubeobj":
            return ("cubeattr", base[1], e.attr)
        if k == "measure":
            m = base[1]
            if e.attr == "blocks" and self.kind == "matrix":
                _c, wk = self.wired_kind(m, e)
                if wk == "measure2":
                    return ("list", [("list", [("arr", ("BBlock", m, i, j)) for j in (0, 1)]) for i in (0, 1)])
                if wk == "marginal":
                    return ("list", [("arr", ("BMBlock", m, i)) for i in (0, 1)])
            _un("attribute of a measure object other than its blocks", e)
        if k == "dimidx" and e.attr == "subtotals":
            return ("subs", base[1])
        if k == "dimidx" and e.attr == "dimension_type":
            return ("dimtype", base[1])
        if k in ("arr", "cubeattr") and e.attr == "shape":
            return ("shape", ("HShape", self.arr(base, e)))
        _un("attribute outside the sub-language", e)

    def call_method(self, cname, fields, mname, args, stack, node):
        if (cname, mname) in stack:
            _un("%s.%s refers to itself" % (cname, mname))
        fn = self.m.resolve(cname, mname)
        if fn is None:
            _un("%s has no method %s" % (cname, mname), node)
        a = fn.args
        if fn.decorator_list or [x.arg for x in a.args][:1] != ["self"] or a.kwonlyargs or a.defaults or a.posonlyargs:
            _un("%s.%s is not a plain method" % (cname, mname), fn)
        params = [x.arg for x in a.args][1:]
        if len(params) != len(args):
            _un("%s.%s: arity" % (cname, mname), node)
        env = dict(zip(params, args))
        # `*args, **kwargs` of a method that is called without extra arguments are empty
        if a.vararg is not None:
            env[a.vararg.arg] = ("noargs",)
        if a.kwarg is not None:
            env[a.kwarg.arg] = ("nokwargs",)
        if len(env) != len(params) + (a.vararg is not None) + (a.kwarg is not None) or any(p in _RESERVED for p in env):
            _un("%s.%s: parameter names" % (cname, mname), fn)
        ctx = {"cname": cname, "fields": fields, "env": env, "stack": stack + ((cname, mname),), "self": ("obj",)}
        return self.body(T._strip_doc(fn.body), ctx, fn)

    def call(self, e, ctx):
        f = e.func
        args = list(e.args)
        keywords = list(e.keywords)
        # f(.., *args, **kwargs) with the empty `*args` / `**kwargs` of the enclosing method
        if args and isinstance(args[-1], ast.Starred):
            if self.expr(args[-1].value, ctx) != ("noargs",):
                _un("star arguments", e)
            args = args[:-1]
        if keywords and keywords[-1].arg is None:
            if self.expr(keywords[-1].value, ctx) != ("nokwargs",):
                _un("double-star arguments", e)
            keywords = keywords[:-1]
        if any(isinstance(a, ast.Starred) for a in args) or any(k.arg is None for k in keywords):
            _un("star arguments", e)
        kw = dict((k.arg, k.value) for k in keywords)
        if len(kw) != len(keywords):
            _un("repeated keyword", e)
        if isinstance(f, ast.Name) and f.id not in ctx["env"]:
            # len(<dimension>.subtotals)
            if f.id == "len" and len(args) == 1 and not kw:
                v = self.expr(args[0], ctx)
                if v[0] == "subs":
                    return ("nat", ("LSubs", v[1]))
                _un("len() of something else than <dimension>.subtotals", e)
            # tuple(len(d.subtotals) for d in self._dimensions)
            if f.id == "tuple" and len(args) == 1 and not kw and isinstance(args[0], ast.GeneratorExp):
                g = args[0]
                if len(g.generators) == 1:
                    gg = g.generators[0]
                    t = gg.target
                    if (
                        not gg.is_async and not gg.ifs and isinstance(t, ast.Name) and t.id not in _RESERVED
                        and "len" not in ctx["env"]
                        and isinstance(g.elt, ast.Call) and T._is_name(g.elt.func, "len")
                        and len(g.elt.args) == 1 and not g.elt.keywords
                        and T._is_attr(g.elt.args[0], t.id, "subtotals")
                        and self.kind == "matrix" and self.expr(gg.iter, ctx) == ("dims",)
                    ):
                        return ("shape", ("HSubsLens",))
                _un("tuple(...) other than tuple(len(d.subtotals) for d in self._dimensions)", e)
            _un("call outside the sub-language", e)
        if not isinstance(f, ast.Attribute):
            _un("call outside the sub-language", e)
        if T._is_name(f.value, "np") and "np" not in ctx["env"]:
            return self.np_call2(f.attr, e, args, kw, ctx)
        if isinstance(f.value, ast.Name) and f.value.id not in ctx["env"]:
            if f.value.id in ("SumSubtotals", "NanSubtotals"):
                return self.strategy2(f.value.id, f.attr, e, args, kw, ctx)
        if T._is_name(f.value, "self") and ctx["self"] == ("obj",) and "self" not in ctx["env"]:
            if kw:
                _un("keyword arguments to a method", e)
            if f.attr in ctx["fields"]:
                _un("call of a field", e)
            vals = [self.expr(a, ctx) for a in args]
            return self.call_method(ctx["cname"], ctx["fields"], f.attr, vals, ctx["stack"], e)
        _un("call outside the sub-language", e)

    def np_call2(self, name, e, args, kw, ctx):
        if name == "broadcast_to" and len(args) == 2 and not kw:
            x = self.arr(self.expr(args[0], ctx), args[0])
            h = self.expr(args[1], ctx)
            if h[0] != "shape":
                _un("np.broadcast_to: second argument is not a shape", e)
            return ("arr", ("BBroadcast", x, h[1]))
        if name == "repeat" and len(args) == 2 and not kw:
            if isinstance(args[0], ast.List) and len(args[0].elts) == 1 and not isinstance(args[0].elts[0], ast.Starred):
                x = self.arr(self.expr(args[0].elts[0], ctx), args[0])
                n = self.as_nat(self.expr(args[1], ctx), args[1])
                return ("arr", ("BRepeat1", x, n))
            _un("np.repeat other than ([<scalar>], <length>)", e)
        if name == "apply_along_axis" and len(args) == 3 and not kw:
            fn = self.expr(args[0], ctx)
            ax = self.static_int(args[1], ctx)
            if fn == ("npfunc", "sum") and ax in (0, 1):
                return ("arr", ("BApplySum", ax, self.arr(self.expr(args[2], ctx), args[2])))
            _un("np.apply_along_axis other than (np.sum, 0 | 1, <array>)", e)
        if name == "array" and len(args) == 1 and isinstance(args[0], ast.List):
            elts = args[0].elts
            if not elts and set(kw) == {"dtype"} and T._is_attr(kw["dtype"], "np", "float64"):
                return ("arr", ("BEmptyVec",))
            if len(elts) == 2 and not kw:
                ts = []
                for el, fnm in zip(elts, ("min", "max")):
                    if not (
                        isinstance(el, ast.Call) and T._is_attr(el.func, "np", fnm)
                        and len(el.args) == 1 and not el.keywords
                    ):
                        _un("np.array([..]) other than [np.min(x), np.max(x)]", e)
                    ts.append(self.arr(self.expr(el.args[0], ctx), el))
                if ts[0] != ts[1]:
                    _un("np.min / np.max of two different arrays", e)
                return ("arr", ("BMinMax", ts[0]))
        _un("numpy function outside the sub-language", e)

    def strategy2(self, nm, meth, e, args, kw, ctx):
        vals = [self.expr(a, ctx) for a in args]
        if self.kind == "matrix":
            if len(vals) != 2 or vals[1] != ("dims",):
                _un("strategy is not given (x, self._dimensions)", e)
            if vals[0][0] != "cubeattr":
                _un("strategy operand is not <cube-measure object>.<attribute>", e)
            c, a = vals[0][1], vals[0][2]
            sel = {"blocks": None, "subtotal_columns": (0, 1), "subtotal_rows": (1, 0), "intersections": (1, 1)}
            if nm == "NanSubtotals":
                if meth != "blocks" or kw:
                    _un("NanSubtotals call other than .blocks(x, self._dimensions)", e)
                return ("list", [("list", [("arr", ("BNanSub", c, a, i, j)) for j in (0, 1)]) for i in (0, 1)])
            if meth not in sel or set(kw) - {"diff_cols_nan", "diff_rows_nan"}:
                _un("SumSubtotals call not read", e)
            dcn = self.bfl(self.expr(kw["diff_cols_nan"], ctx), e) if "diff_cols_nan" in kw else ("FLit", False)
            drn = self.bfl(self.expr(kw["diff_rows_nan"], ctx), e) if "diff_rows_nan" in kw else ("FLit", False)
            if sel[meth] is None:
                return ("list", [("list", [("arr", ("BSum", dcn, drn, c, a, i, j)) for j in (0, 1)]) for i in (0, 1)])
            return ("arr", ("BSum", dcn, drn, c, a, sel[meth][0], sel[meth][1]))
        if meth != "subtotal_values" or kw or len(vals) != 2 or vals[1] != ("dim", 1):
            _un("strategy call other than <Strategy>.subtotal_values(x, self._rows_dimension)", e)
        x = self.arr(vals[0], e)
        return ("arr", ("BVSum" if nm == "SumSubtotals" else "BVNanSub", x))

    # -- conditions: ("static", bool) when decided by the wiring, else a bcond
    def cond(self, t, ctx):
        if isinstance(t, ast.Constant) and type(t.value) is bool:
            return ("static", t.value)
        if isinstance(t, ast.UnaryOp) and isinstance(t.op, ast.Not):
            c = self.cond(t.operand, ctx)
            if c[0] == "static":
                return ("static", not c[1])
            return ("QNot", c)
        if isinstance(t, ast.Compare) and len(t.ops) == 1:
            op, l, r = t.ops[0], t.left, t.comparators[0]
            if isinstance(op, (ast.Is, ast.IsNot)) and _is_none(r):
                v = self.expr(l, ctx)
                if v[0] == "none":
                    c = ("static", True)
                elif v[0] in ("arr", "cubeattr"):
                    c = ("QIsNone", self.arr(v, l))
                else:
                    _un("`is None` of something else than an array-valued expression", t)
                if isinstance(op, ast.IsNot):
                    return ("static", not c[1]) if c[0] == "static" else ("QNot", c)
                return c
            if isinstance(op, (ast.In, ast.NotIn)):
                a, b = self.expr(l, ctx), self.expr(r, ctx)
                if a[0] == "dimtype" and b[0] == "DT":
                    c = ("QDimTypeIn", a[1], b[1])
                    return ("QNot", c) if isinstance(op, ast.NotIn) else c
                _un("membership test other than <dimension>.dimension_type [not] in DT.<SET>", t)
            if isinstance(op, ast.Eq):
                a = self.expr(l, ctx)
                if a[0] == "MO":
                    b = self.expr(r, ctx)
                    if b[0] == "MO":
                        return ("static", a[1] == b[1])
                    _un("orientation compared with something else than MO.<X>", t)
                if a[0] == "nat":
                    k = T._nat(r)
                    if k is not None:
                        return ("QNatEq", a[1], k)
                if a[0] == "shape" and isinstance(r, ast.Tuple) and r.elts and all(T._nat(x) is not None for x in r.elts):
                    return ("QShapeIs", a[1], [T._nat(x) for x in r.elts])
            _un("comparison outside the sub-language", t)
        if isinstance(t, ast.Attribute):
            # <collection>.<measure>.<boolean property>: opaque
            base = self.expr(t.value, ctx)
            if base[0] == "measure":
                cname, _wk = self.wired_kind(base[1], t)
                fn = self.m.resolve(cname, t.attr)
                if fn is not None and M2._plain_lazy(fn) and t.attr == "is_defined":
                    return ("QFlag", base[1], t.attr)
                _un("boolean attribute of a measure object other than is_defined", t)
            # self.<boolean member>: inlined
            if base == ("obj",) and ctx["self"] == ("obj",) and t.attr not in ctx["fields"]:
                return self.cond_inline(ctx["cname"], ctx["fields"], t.attr, ctx["stack"], t)
        _un("condition outside the sub-language", t)

    def cond_inline(self, cname, fields, mname, stack, node):
        if (cname, mname) in stack:
            _un("%s.%s refers to itself" % (cname, mname))
        fn = self.m.resolve(cname, mname)
        if fn is None or not M2._plain_lazy(fn):
            _un("%s.%s is not a plain @lazyproperty" % (cname, mname), node)
        ctx = {"cname": cname, "fields": fields, "env": {}, "stack": stack + ((cname, mname),), "self": ("obj",)}
        return self.cond_body(T._strip_doc(fn.body), ctx, fn)

    def cond_body(self, stmts, ctx, where):
        if not stmts:
            _un("no `return <expr>` on this path", where)
        st, rest = stmts[0], stmts[1:]
        if isinstance(st, ast.Return) and st.value is not None:
            return self.cond(st.value, ctx)
        if (
            isinstance(st, ast.Assign) and len(st.targets) == 1
            and isinstance(st.targets[0], ast.Name) and st.targets[0].id not in _RESERVED
        ):
            env = dict(ctx["env"])
            env[st.targets[0].id] = self.expr(st.value, ctx)
            return self.cond_body(rest, dict(ctx, env=env), where)
        if isinstance(st, ast.If):
            c = self.cond(st.test, ctx)
            if c[0] == "static":
                return self.cond_body(list(st.body if c[1] else st.orelse) + list(rest), ctx, where)
        _un("statement not read (boolean member)", st)

    def cond_member(self, cname, fields, mname):
        c = self.cond_inline(cname, fields, mname, (), None)
        return ("QLit", c[1]) if c[0] == "static" else c


# ------------------------------------------------------------------------------------
# min_base_size_mask.py
# ------------------------------------------------------------------------------------


class _Mask(object):
    def __init__(self, text):
        self.text = text
        self.m = M2._Mod(text, M_MASK)
        self.problem = None
        if not self.m.only_imports_and_classes():
            self.problem = "module-level statements other than imports and classes"
        imp = self.m.imported()
        if imp.get("np") != ("numpy", None) or imp.get("lazyproperty") != ("cr.cube.util", "lazyproperty"):
            self.problem = "np / lazyproperty are not imported as expected"

    def member(self, mname):
        if self.problem:
            _un(self.problem)
        cname = "MinBaseSizeMask"
        if len(self.m.mro(cname)) != 1:
            _un("MinBaseSizeMask has a base class")
        fields = self._fields(cname)
        fn = self.m.resolve(cname, mname)
        if fn is None or not M2._plain_lazy(fn):
            _un("%s.%s is not a plain @lazyproperty" % (cname, mname), fn)
        stmts = T._strip_doc(fn.body)
        while len(stmts) == 1 and isinstance(stmts[0], ast.With):
            st = stmts[0]
            if not (
                len(st.items) == 1 and st.items[0].optional_vars is None
                and isinstance(st.items[0].context_expr, ast.Call)
                and T._is_attr(st.items[0].context_expr.func, "np", "errstate")
            ):
                _un("`with` other than np.errstate(...)", st)
            stmts = list(st.body)
        if not (len(stmts) == 1 and isinstance(stmts[0], ast.Return) and stmts[0].value is not None):
            _un("%s.%s is not `return <expr>`" % (cname, mname), fn)
        e = stmts[0].value
        if not (isinstance(e, ast.Compare) and len(e.ops) == 1 and type(e.ops[0]) in _CMP):
            _un("not a comparison of two arrays", e)
        return ("BCmp", _CMP[type(e.ops[0])], self.side(e.left, fields), self.side(e.comparators[0], fields))

    def _fields(self, cname):
        """self._x = <parameter x> in __init__ (each assigned exactly once, nowhere else)"""
        c = self.m.classes[cname]
        init = c.methods.get("__init__")
        if init is None or init.decorator_list:
            _un("%s.__init__ missing" % cname)
        a = init.args
        if a.vararg or a.kwarg or a.kwonlyargs or a.posonlyargs:
            _un("%s.__init__: signature not read" % cname, init)
        params = [x.arg for x in a.args][1:]
        out = {}
        for st in T._strip_doc(init.body):
            if (
                isinstance(st, ast.Assign) and len(st.targets) == 1
                and isinstance(st.targets[0], ast.Attribute) and T._is_name(st.targets[0].value, "self")
                and isinstance(st.value, ast.Name) and st.value.id in params
                and st.targets[0].attr not in out
            ):
                out[st.targets[0].attr] = st.value.id
            else:
                _un("%s.__init__: statement not read" % cname, st)
        for mn, fn in c.methods.items():
            if mn == "__init__":
                continue
            for n in ast.walk(fn):
                if (
                    isinstance(n, ast.Attribute) and isinstance(n.ctx, (ast.Store, ast.Del))
                    and T._is_name(n.value, "self") and n.attr in out
                ):
                    _un("%s.%s assigns the field %s" % (cname, mn, n.attr), n)
        return out

    def side(self, e, fields):
        # self._size / self._slice.<attr>
        if isinstance(e, ast.Attribute):
            if T._is_name(e.value, "self") and fields.get(e.attr) == "size" and self.m.resolve("MinBaseSizeMask", e.attr) is None:
                return ("BSize",)
            v = e.value
            if (
                isinstance(v, ast.Attribute) and T._is_name(v.value, "self") and fields.get(v.attr) == "slice_"
                and self.m.resolve("MinBaseSizeMask", v.attr) is None
            ):
                return ("BSliceAttr", e.attr)
        _un("operand other than self._size / self._slice.<attribute>", e)


# ------------------------------------------------------------------------------------
# scalar.py: MeansScalar (the 0-D nub's data object)
# ------------------------------------------------------------------------------------


class _Scalar(_Mask):
    """MeansScalar.<member>: `return self._<field>` / `return self.<member>` / `return <int>`"""

    CLS = "MeansScalar"

    def __init__(self, text):
        self.text = text
        self.m = M2._Mod(text, M_SCALAR)
        self.problem = None
        if not self.m.only_imports_and_classes():
            self.problem = "module-level statements other than imports and classes"
        if self.m.imported().get("lazyproperty") != ("cr.cube.util", "lazyproperty"):
            self.problem = "lazyproperty is not imported as expected"

    def member(self, mname, stack=()):
        if self.problem:
            _un(self.problem)
        cname = self.CLS
        if mname in stack:
            _un("%s.%s refers to itself" % (cname, mname))
        if len(self.m.mro(cname)) != 1:
            _un("%s has a base class" % cname)
        fields = self._fields(cname)
        fn = self.m.resolve(cname, mname)
        if fn is None or not M2._plain_lazy(fn):
            _un("%s.%s is not a plain @lazyproperty" % (cname, mname), fn)
        stmts = T._strip_doc(fn.body)
        if not (len(stmts) == 1 and isinstance(stmts[0], ast.Return) and stmts[0].value is not None):
            _un("%s.%s is not `return <expr>`" % (cname, mname), fn)
        e = stmts[0].value
        k = T._nat(e)
        if k is not None:
            return ("BConstZ", k)
        if isinstance(e, ast.Attribute) and T._is_name(e.value, "self"):
            if e.attr in fields:
                if self.m.resolve(cname, e.attr) is not None:
                    _un("attribute is both a field and a member", e)
                return ("BArg", fields[e.attr])
            return self.member(e.attr, stack + (mname,))
        _un("expression outside the sub-language", e)


# ------------------------------------------------------------------------------------
# stripe/cubemeasure.py: the numeric-measure factories and the CubeMeasures collection
# ------------------------------------------------------------------------------------

# (base class, the cube attribute handed over, the field it lands in)
STRIPE_FACTORIES = (
    ("_BaseCubeMeans", "CubeMeans", "means", "_means"),
    ("_BaseCubeMedians", "CubeMedians", "medians", "_medians"),
    ("_BaseCubeStdDev", "CubeStdDev", "stddev", "_stddev"),
    ("_BaseCubeSums", "CubeSums", "sums", "_sums"),
)
STRIPE_COLLECTION = ("cube_means", "cube_medians", "cube_stddev", "cube_sum", "unweighted_cube_counts",
                     "weighted_cube_counts")


class _StripeCM(object):
    def __init__(self, text):
        self.tr = T._Tr(text, T.STRIPE)

    def numeric_factory(self, base):
        """if cube.<a> is None: raise ..;  X = (A if rows_dimension.dimension_type == DT.<M> else B);
        return X(rows_dimension, cube.<a>)   ->   (a, ([(StDimIs M, (A, false))], (B, false)), args)"""
        tr = self.tr
        body = tr._classmethod(base, "factory", ["cls", "cube", "rows_dimension"])
        if len(body) not in (2, 3):
            _un("%s.factory: statements not read" % base)
        g = body[0]
        if not (
            isinstance(g, ast.If) and not g.orelse and len(g.body) == 1 and isinstance(g.body[0], ast.Raise)
            and isinstance(g.test, ast.Compare) and len(g.test.ops) == 1 and isinstance(g.test.ops[0], ast.Is)
            and _is_none(g.test.comparators[0])
            and isinstance(g.test.left, ast.Attribute) and T._is_name(g.test.left.value, "cube")
        ):
            _un("%s.factory: first statement is not `if cube.<attr> is None: raise ...`" % base, g)
        guard = g.test.left.attr
        ret = body[-1]
        if not (isinstance(ret, ast.Return) and isinstance(ret.value, ast.Call) and not ret.value.keywords):
            _un("%s.factory: no final `return <Class>(..)`" % base, ret)
        call = ret.value
        sel = call.func
        if len(body) == 3:
            a = body[1]
            if not (
                isinstance(a, ast.Assign) and len(a.targets) == 1 and isinstance(a.targets[0], ast.Name)
                and a.targets[0].id not in ("cls", "cube", "rows_dimension", "DT")
                and T._is_name(sel, a.targets[0].id)
            ):
                _un("%s.factory: class selection not read" % base, a)
            sel = a.value
        if not (
            isinstance(sel, ast.IfExp) and isinstance(sel.body, ast.Name) and isinstance(sel.orelse, ast.Name)
            and isinstance(sel.test, ast.Compare) and len(sel.test.ops) == 1
            and isinstance(sel.test.ops[0], ast.Eq)
            and T._is_attr(sel.test.left, "rows_dimension", "dimension_type")
            and T._is_DT(sel.test.comparators[0]) is not None
        ):
            _un("%s.factory: class selection is not `A if rows_dimension.dimension_type == DT.<M> else B`" % base, sel)
        args = []
        for x in call.args:
            if T._is_name(x, "rows_dimension"):
                args.append("rows_dimension")
            elif isinstance(x, ast.Attribute) and T._is_name(x.value, "cube"):
                args.append("cube." + x.attr)
            else:
                _un("%s.factory: constructor argument not read" % base, x)
        names = [sel.body.id, sel.orelse.id]
        tr._same_init(base, names)
        init = tr.resolve(base, "__init__")
        if init is None:
            _un("%s.__init__ missing" % base)
        self.init_params = [a.arg for a in init.args.args][1:]
        self.init_fields = dict((f, v[1]) for f, v in tr.fields(base).items())
        return "(%s, ([(StDimIs %s, (%s, false))], (%s, false)), %s, %s)" % (
            q(guard), q(T._is_DT(sel.test.comparators[0])), q(names[0]), q(names[1]),
            T.coq_list([q(a) for a in args]),
            T.coq_list(["(%s, %s)" % (q(f), q(v)) for f, v in sorted(self.init_fields.items())]))

    def collection(self, mname):
        """CubeMeasures.<mname>: local names, then `return <Base>.factory(args)` -> cmexp"""
        tr = self.tr
        cname = "CubeMeasures"
        if not tr._imports_ok:
            _un("module imports are not the expected ones")
        if len(tr.mro(cname)) != 1:
            _un("CubeMeasures has a base class")
        fields = tr.fields(cname)
        fn = tr.resolve(cname, mname)
        if fn is None or not M2._plain_lazy(fn):
            _un("%s.%s is not a plain @lazyproperty" % (cname, mname), fn)
        for c in tr.mro(cname):
            for mn, f2 in c.methods.items():
                if mn == "__init__":
                    continue
                for n in ast.walk(f2):
                    if (isinstance(n, ast.Attribute) and isinstance(n.ctx, (ast.Store, ast.Del))
                            and T._is_name(n.value, "self")):
                        _un("%s.%s assigns an attribute of self" % (cname, mn), n)
        env = {}

        def arg(e):
            if isinstance(e, ast.Name):
                if e.id in env:
                    return env[e.id]
                _un("name not bound in the method", e)
            if isinstance(e, ast.Attribute):
                if T._is_name(e.value, "self") and e.attr in fields and tr.resolve(cname, e.attr) is None:
                    return "KField %s" % q(fields[e.attr][1])
                v = e.value
                if (isinstance(v, ast.Attribute) and T._is_name(v.value, "self")
                        and fields.get(v.attr, (None, None))[1] == "cube" and tr.resolve(cname, v.attr) is None):
                    return "KCube %s" % q(e.attr)
            if isinstance(e, ast.IfExp):
                t = e.test
                if (isinstance(t, ast.Compare) and len(t.ops) == 1 and isinstance(t.ops[0], ast.IsNot)
                        and _is_none(t.comparators[0]) and ast.dump(t.left) == ast.dump(e.body)):
                    return "KOrElse (%s) (%s)" % (arg(e.body), arg(e.orelse))
            _un("argument outside the sub-language", e)

        body = T._strip_doc(fn.body)
        for st in body[:-1]:
            if not (isinstance(st, ast.Assign) and len(st.targets) == 1 and isinstance(st.targets[0], ast.Name)
                    and st.targets[0].id != "self"):
                _un("statement not read", st)
            env[st.targets[0].id] = arg(st.value)
        ret = body[-1] if body else None
        if not (
            isinstance(ret, ast.Return) and isinstance(ret.value, ast.Call) and not ret.value.keywords
            and isinstance(ret.value.func, ast.Attribute) and ret.value.func.attr == "factory"
            and isinstance(ret.value.func.value, ast.Name) and ret.value.func.value.id in tr.classes
            and ret.value.func.value.id not in env
            and not any(isinstance(a, ast.Starred) for a in ret.value.args)
        ):
            _un("%s.%s does not end in `return <Base>.factory(..)`" % (cname, mname), fn)
        return "CMFactory %s %s" % (q(ret.value.func.value.id),
                                     T.coq_list(["(%s)" % arg(a) for a in ret.value.args]))


# ------------------------------------------------------------------------------------
# emission
# ------------------------------------------------------------------------------------

HEADER = """(* GENERATED by harness/translate/x_bases.py from %s
   -- do not edit; rewritten (only when its text changes) on every check.
   One definition per (wiring, member) -- for a `blocks` member one per block: [Some <term>] =
   what the source says, read through the whitelist of the translator (Base/%s gives the
   meaning); [None] = the translator could not read the member (it is then tied to the model by
   the correspondence check only). *)
From Coq Require Import List String QArith.
From CC Require Import Base.%s.
Import ListNotations.
Local Close Scope Q_scope.
Local Open Scope string_scope.

"""

# (collection property, identifier stem, members)
#   "blocks"  the four blocks of a 2-D measure          -> <stem>_blocks_ij : option bexp
#   "mblocks" the two blocks of a marginal              -> <stem>_blocks_k  : option bexp
#   "?m"      a boolean member                          -> <stem>_m         : option bcond
#   other     an array-valued member                    -> <stem>_m         : option bexp
MATRIX_TARGETS = (
    ("column_unweighted_bases", "ColumnUnweightedBases", ("blocks",)),
    ("column_weighted_bases", "ColumnWeightedBases", ("blocks",)),
    ("column_squared_bases", "ColumnSquaredBases", ("blocks",)),
    ("row_unweighted_bases", "RowUnweightedBases", ("blocks",)),
    ("row_weighted_bases", "RowWeightedBases", ("blocks",)),
    ("table_unweighted_bases", "TableUnweightedBases", ("blocks",)),
    ("table_weighted_bases", "TableWeightedBases", ("blocks",)),
    ("rows_weighted_base", "RowsWeightedBase", ("mblocks", "?is_defined")),
    ("columns_weighted_base", "ColumnsWeightedBase", ("mblocks", "?is_defined")),
    ("rows_unweighted_base", "RowsUnweightedBase", ("mblocks", "?is_defined")),
    ("columns_unweighted_base", "ColumnsUnweightedBase", ("mblocks", "?is_defined")),
    ("columns_squared_base", "ColumnsSquaredBase", ("mblocks", "?is_defined")),
    ("rows_table_weighted_base", "RowsTableWeightedBase", ("mblocks", "?is_defined")),
    ("columns_table_weighted_base", "ColumnsTableWeightedBase", ("mblocks", "?is_defined")),
    ("rows_table_unweighted_base", "RowsTableUnweightedBase", ("mblocks", "?is_defined")),
    ("columns_table_unweighted_base", "ColumnsTableUnweightedBase", ("mblocks", "?is_defined")),
    ("rows_table_proportion", "RowsTableProportion", ("mblocks", "?is_defined")),
    ("columns_table_proportion", "ColumnsTableProportion", ("mblocks", "?is_defined")),
    ("table_weighted_base", "TableWeightedBase", ("value", "?is_defined")),
    ("table_unweighted_base", "TableUnweightedBase", ("value", "?is_defined")),
    ("table_weighted_bases_range", "TableWeightedBasesRange", ("value",)),
    ("table_unweighted_bases_range", "TableUnweightedBasesRange", ("value",)),
    ("column_comparable_counts", "ColumnComparableCounts", ("blocks", "?is_defined")),
    ("row_comparable_counts", "RowComparableCounts", ("blocks", "?is_defined")),
)
STRIPE_TARGETS = (
    ("unweighted_bases", "UnweightedBases", ("base_values", "subtotal_values", "table_base_range")),
    ("weighted_bases", "WeightedBases", ("base_values", "subtotal_values", "table_margin_range")),
    ("unweighted_counts", "UnweightedCounts", ("base_values", "subtotal_values")),
    ("weighted_counts", "WeightedCounts", ("base_values", "subtotal_values")),
    ("means", "Means", ("base_values", "subtotal_values")),
    ("medians", "Medians", ("base_values", "subtotal_values")),
    ("sums", "Sums", ("base_values", "subtotal_values")),
    ("stddev", "StdDev", ("base_values", "subtotal_values")),
)
# read with measures._M itself into mexp
PASS_TARGETS = (
    ("unweighted_counts", "UnweightedCounts", ("blocks",)),
    ("means", "Means", ("blocks",)),
    ("medians", "Medians", ("blocks",)),
    ("sums", "Sums", ("blocks",)),
    ("stddev", "StdDev", ("blocks",)),
)
MASK_MEMBERS = ("row_mask", "column_mask", "table_mask")


def _emit(tr, targets, prefix, modname, report, L):
    for prop, stem, members in targets:
        L.append("(** * %s.%s *)" % (tr.coll, prop))
        try:
            cname, fields = tr.wiring(prop)
            wired = None
            L.append("(* constructs %s *)" % cname)
        except Unavailable as ex:
            cname, fields, wired = None, None, ex
        for m in members:
            owner = stem if cname is None else "%s[%s]" % (cname, prop)
            if m.startswith("?"):
                m = m[1:]
                what = "%s.%s" % (owner, m)
                try:
                    if wired is not None:
                        raise wired
                    term = "Some (%s)" % p_bcond(tr.cond_member(cname, fields, m))
                    report["methods_translated"].append("%s:%s" % (modname, what))
                except Unavailable as ex:
                    term = "None"
                    report["unavailable"].append({"method": "%s:%s" % (modname, what), "reason": str(ex)})
                    L.append("(* %s not read: %s *)" % (what, T._coq_comment(str(ex))))
                L.append("Definition %s%s_%s : option bcond := %s." % (prefix, stem, m, term))
                continue
            if m == "blocks":
                idents = [("%s%s_blocks_%d%d" % (prefix, stem, i, j), (i, j)) for i in (0, 1) for j in (0, 1)]
                mem = "blocks"
            elif m == "mblocks":
                idents = [("%s%s_blocks_%d" % (prefix, stem, k), (k,)) for k in (0, 1)]
                mem = "blocks"
            else:
                idents = [("%s%s_%s" % (prefix, stem, m), None)]
                mem = m
            what = "%s.%s" % (owner, mem)
            val, err = None, wired
            if wired is None:
                try:
                    val = tr.member(cname, fields, mem)
                except Unavailable as ex:
                    val, err = None, ex
            for ident, path in idents:
                term, e2 = "None", err
                if val is not None:
                    try:
                        v = val
                        for k in (path or ()):
                            if v[0] != "list" or len(v[1]) != 2:
                                _un("`blocks` is not a nested pair structure of the sub-language")
                            v = v[1][k]
                        term = "Some (%s)" % p_bexp(tr.arr(v, None))
                    except Unavailable as ex:
                        e2 = ex
                w = what if not path else what + "".join("[%d]" % k for k in path)
                if term == "None":
                    report["unavailable"].append({"method": "%s:%s" % (modname, w), "reason": str(e2)})
                    L.append("(* %s not read: %s *)" % (w, T._coq_comment(str(e2))))
                else:
                    report["methods_translated"].append("%s:%s" % (modname, w))
                L.append("Definition %s : option bexp := %s." % (ident, term))
        L.append("")


def _gen_matrix(text, strat_text, report):
    tr = _B(text, strat_text, "matrix")
    L = []
    _emit(tr, MATRIX_TARGETS, "src_", "matrix-measure", report, L)
    return HEADER % ("src/" + M2.M_MATRIX, "BasesExp.v", "BasesExp") + "\n".join(L) + "\n"


def _gen_stripe(text, strat_text, report):
    tr = _B(text, strat_text, "stripe")
    L = []
    _emit(tr, STRIPE_TARGETS, "ssrc_", "stripe-measure", report, L)
    return HEADER % ("src/" + M2.M_STRIPE, "BasesExp.v", "BasesExp") + "\n".join(L) + "\n"


def _gen_mask(text, report):
    tr = _Mask(text)
    L = ["(** * MinBaseSizeMask *)"]
    for m in MASK_MEMBERS:
        what = "MinBaseSizeMask.%s" % m
        try:
            term = "Some (%s)" % p_bexp(tr.member(m))
            report["methods_translated"].append("min-base-size-mask:%s" % what)
        except Unavailable as ex:
            term = "None"
            report["unavailable"].append({"method": "min-base-size-mask:%s" % what, "reason": str(ex)})
            L.append("(* %s not read: %s *)" % (what, T._coq_comment(str(ex))))
        L.append("Definition src_MinBaseSizeMask_%s : option bexp := %s." % (m, term))
    return HEADER % ("src/" + M_MASK, "BasesExp.v", "BasesExp") + "\n".join(L) + "\n"


def _gen_pass(text, strat_text, report):
    tr = M2._M(text, strat_text, "matrix")
    L = []
    M2._emit_measures(tr, PASS_TARGETS, "xsrc_", "matrix-measure", report, L)
    return HEADER % ("src/" + M2.M_MATRIX, "MeasureExp.v", "MeasureExp") + "\n".join(L) + "\n"



def _gen_scalar(text, report):
    tr = _Scalar(text)
    L = ["(** * MeansScalar *)"]
    for m in ("means", "table_base", "ndim"):
        what = "MeansScalar.%s" % m
        try:
            term = "Some (%s)" % p_bexp(tr.member(m))
            report["methods_translated"].append("scalar:%s" % what)
        except Unavailable as ex:
            term = "None"
            report["unavailable"].append({"method": "scalar:%s" % what, "reason": str(ex)})
            L.append("(* %s not read: %s *)" % (what, T._coq_comment(str(ex))))
        L.append("Definition src_MeansScalar_%s : option bexp := %s." % (m, term))
    return HEADER % ("src/" + M_SCALAR, "BasesExp.v", "BasesExp") + "\n".join(L) + "\n"


HEADER_F = """(* GENERATED by harness/translate/x_bases.py from src/cr/cube/stripe/cubemeasure.py
   -- do not edit; rewritten (only when its text changes) on every check.
   ssrc_<Family>_factory: (cube attribute whose None raises, class dispatch on the rows dimension's
   type [Base/Tensor.v stripe_dispatch], constructor arguments, the fields of the family's __init__);
   ssrc_CubeMeasures_<member>: which factory the collection calls on which arguments
   [Base/BasesExp.v cmexp].  [None] = the translator could not read the member. *)
From Coq Require Import List String.
From CC Require Import Base.Tensor Base.BasesExp.
Import ListNotations.
Local Open Scope string_scope.

"""


def _gen_stripe_factory(text, report):
    tr = _StripeCM(text)
    L = ["(** * the numeric-measure factories *)"]
    for base, stem, _attr, _fld in STRIPE_FACTORIES:
        what = "%s.factory" % base
        try:
            term = "Some (%s)" % tr.numeric_factory(base)
            report["methods_translated"].append("stripe:%s" % what)
        except Unavailable as ex:
            term = "None"
            report["unavailable"].append({"method": "stripe:%s" % what, "reason": str(ex)})
            L.append("(* %s not read: %s *)" % (what, T._coq_comment(str(ex))))
        L.append("Definition ssrc_%s_factory : option (string * stripe_dispatch * list string * list (string * string)) := %s."
                 % (stem, term))
    L.append("")
    L.append("(** * CubeMeasures *)")
    for m in STRIPE_COLLECTION:
        what = "CubeMeasures.%s" % m
        try:
            term = "Some (%s)" % tr.collection(m)
            report["methods_translated"].append("stripe:%s" % what)
        except Unavailable as ex:
            term = "None"
            report["unavailable"].append({"method": "stripe:%s" % what, "reason": str(ex)})
            L.append("(* %s not read: %s *)" % (what, T._coq_comment(str(ex))))
        L.append("Definition ssrc_CubeMeasures_%s : option cmexp := %s." % (m, term))
    return HEADER_F + "\n".join(L) + "\n"


def _fallback(what, ex):
    return "(* GENERATED by harness/translate/x_bases.py from %s: translator failed: %s *)\n" % (
        what, T._coq_comment(repr(ex)))


def regenerate(repo_src, gen_dir, report):
    report["bases_version"] = VERSION
    texts = {}
    for rel in (M2.M_MATRIX, M2.M_STRIPE, M2.M_SUBTOTALS, M2.M_INSERTION, M_MASK, M_SCALAR, T.STRIPE):
        p = os.path.join(repo_src, rel)
        try:
            with open(p, encoding="utf-8") as f:
                texts[rel] = f.read()
            report["files"]["src/" + rel] = T._sha(texts[rel])
        except (OSError, UnicodeDecodeError) as ex:
            texts[rel] = None
            report["files"].setdefault("src/" + rel, None)
            report["errors"].append("cannot read %s: %r" % (rel, ex))
    jobs = (
        ("BasesSrc.v", lambda: _gen_matrix(texts[M2.M_MATRIX], texts[M2.M_SUBTOTALS], report), "src/" + M2.M_MATRIX),
        ("StripeBasesSrc.v", lambda: _gen_stripe(texts[M2.M_STRIPE], texts[M2.M_INSERTION], report), "src/" + M2.M_STRIPE),
        ("MaskSrc.v", lambda: _gen_mask(texts[M_MASK], report), "src/" + M_MASK),
        ("PassMeasureSrc.v", lambda: _gen_pass(texts[M2.M_MATRIX], texts[M2.M_SUBTOTALS], report), "src/" + M2.M_MATRIX),
        ("ScalarSrc.v", lambda: _gen_scalar(texts[M_SCALAR], report), "src/" + M_SCALAR),
        ("StripeFactorySrc.v", lambda: _gen_stripe_factory(texts[T.STRIPE], report), "src/" + T.STRIPE),
    )
    outs = {}
    for name, job, what in jobs:
        try:
            outs[name] = job()
        except Exception as ex:  # SyntaxError of the source, missing file, a bug of ours
            report["errors"].append("%s: %r" % (name, ex))
            outs[name] = _fallback(what, ex)
    os.makedirs(gen_dir, exist_ok=True)
    for name, text in sorted(outs.items()):
        changed = T._write_if_changed(os.path.join(gen_dir, name), text)
        report["gen_files"]["Gen/" + name] = {"sha256": T._sha(text), "rewritten": changed}
    return report


if __name__ == "__main__":  # manual run: python -m harness.translate.x_bases <repo_src> <gen_dir>
    import json
    import sys

    rep = {"files": {}, "errors": [], "gen_files": {}, "methods_translated": [], "unavailable": []}
    regenerate(sys.argv[1], sys.argv[2], rep)
    json.dump(rep, sys.stdout, indent=1)
