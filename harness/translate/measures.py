# -*- coding: utf-8 -*-
"""Second source translator (DESIGN 2.4 (a), extension): reads the CELL-WISE block formulas of

    <repo>/src/cr/cube/matrix/measure.py        (second-order measures of a slice)
    <repo>/src/cr/cube/stripe/measure.py        (... of a strand)
    <repo>/src/cr/cube/cubepart.py              (margin-of-error / population one-liners)

with Python's `ast` and writes them as terms of the deep-embedded language `mexp`
(coq/Base/MeasureExp.v) into coq/Gen/MeasureSrc.v, coq/Gen/StripeMeasureSrc.v and
coq/Gen/PartMeasureSrc.v.  coq/Proofs/GenAgree{Proportions,Variance,Zscore,Share,Index,
Population}.v then prove, for every translated member, that the term denotes the definition of
coq/Model/{Proportions,Variance,Zscore,Share,Population,CubeCounts}.v the theorems of
C03 / C11 / C12 / C15 / C16 / C17 are about.

Same rules as translate.py:

* WHITELIST, fail-closed.  Only the AST shapes listed in `_M.expr` / `_M.body` are read; anything
  else makes THAT member unavailable: the emitted definition is `None`, the report lists it and
  `NOTE translator-unavailable <Class.member>` is printed.  Never guesses, never repairs.
* A measure is read THROUGH ITS WIRING in the collection class (SecondOrderMeasures /
  StripeMeasures): `row_std_err` is whatever class that lazyproperty constructs, with the
  constructor arguments bound to the fields the class' `__init__` chain assigns.  So
  `self._second_order_measures.<m>.blocks[i][j]` is the leaf `MBlock "<m>" i j`, and the
  proportions / totals handed to `_ProportionVariances` are part of the term.
* `self.<lazyproperty>` and `self._method(args)` are inlined (virtual dispatch from the wired
  class, single inheritance only); local names are inlined; `with np.errstate(...)` is
  transparent; `if c: return a` ... `return b` is `MIf c a b`.
* The subtotal strategies (matrix/subtotals.py, stripe/insertion.py) are NOT read: a call is
  recorded as `MStrat` / `MWave` / `MVStrat` / `MVWave` with its operands (the classmethod
  signatures are checked, nothing else); their meaning is the hand-written model's.
* Files are rewritten only if their text changed.

`regenerate(repo_src, gen_dir, report)` is called from translate.regenerate on every check.
"""
import ast
import os
from fractions import Fraction

from harness.translate import translate as T

VERSION = "measures.py/1"

M_MATRIX = "cr/cube/matrix/measure.py"
M_STRIPE = "cr/cube/stripe/measure.py"
M_SUBTOTALS = "cr/cube/matrix/subtotals.py"
M_INSERTION = "cr/cube/stripe/insertion.py"
M_CUBEPART = "cr/cube/cubepart.py"

Unavailable = T.Unavailable
_un = T._un
q = T.q


# ------------------------------------------------------------------------------------
# Coq printing of mexp
# ------------------------------------------------------------------------------------


def p_q(fr):
    return "(Qmake (%d)%%Z %d%%positive)" % (fr.numerator, fr.denominator)


def p_bflag(b):
    if b[0] == "BLit":
        return "BLit %s" % ("true" if b[1] else "false")
    return "BCube %s %s" % (q(b[1]), q(b[2]))


def p_strat(s):
    if s[0] == "SSum":
        return "(SSum (%s) (%s))" % (p_bflag(s[1]), p_bflag(s[2]))
    return s[0]


def p_cond(c):
    k = c[0]
    if k == "CFlag":
        return "CFlag %s" % q(c[1])
    if k == "CDimType":
        return "CDimType %d %s" % (c[1], q(c[2]))
    if k == "CAllEq":
        return "CAllEq (%s) (%s)" % (p_mexp(c[1]), p_mexp(c[2]))
    if k == "CNoDiff":
        return "CNoDiff %d" % c[1]
    if k == "CAllShape":
        return "CAllShape (%s)" % p_mexp(c[1])
    if k == "CRankLt2":
        return "CRankLt2 %s %d %d" % (q(c[1]), c[2], c[3])
    if k in ("COr", "CAnd"):
        return "%s (%s) (%s)" % (k, p_cond(c[1]), p_cond(c[2]))
    if k == "CNot":
        return "CNot (%s)" % p_cond(c[1])
    raise AssertionError(c)


def p_mexp(t):
    k = t[0]
    if k == "MConst":
        return "MConst %s" % p_q(t[1])
    if k in ("MName", "MScalar", "MProp"):
        return "%s %s" % (k, q(t[1]))
    if k == "MBlock":
        return "MBlock %s %d %d" % (q(t[1]), t[2], t[3])
    if k == "MVBlock":
        return "MVBlock %s %d" % (q(t[1]), t[2])
    if k == "MCube":
        return "MCube %s %s" % (q(t[1]), q(t[2]))
    if k == "MStrat":
        return "MStrat %s %s %s %d %d" % (p_strat(t[1]), q(t[2]), q(t[3]), t[4], t[5])
    if k == "MWave":
        return "MWave %s %s %s %s %s (%s)" % (t[1], q(t[2]), q(t[3]), q(t[4]), q(t[5]), p_mexp(t[6]))
    if k == "MNanSub":
        return "MNanSub (%s) %d %d" % (p_mexp(t[1]), t[2], t[3])
    if k == "MVStrat":
        return "MVStrat %s (%s)" % (p_strat(t[1]), p_mexp(t[2]))
    if k == "MVWave":
        return "MVWave %s %s %s %s (%s)" % (q(t[1]), q(t[2]), q(t[3]), q(t[4]), p_mexp(t[5]))
    if k in ("MAdd", "MSub", "MMul", "MDiv"):
        return "%s (%s) (%s)" % (k, p_mexp(t[1]), p_mexp(t[2]))
    if k == "MPow":
        return "MPow (%s) %d" % (p_mexp(t[1]), t[2])
    if k in ("MSqrt", "MT", "MNanLike"):
        return "%s (%s)" % (k, p_mexp(t[1]))
    if k == "MNansum":
        return "MNansum (%s) %s" % (p_mexp(t[1]), "None" if t[2] is None else "(Some %d%%nat)" % t[2])
    if k == "MRepeatLike":
        return "MRepeatLike %s (%s)" % (p_q(t[1]), p_mexp(t[2]))
    if k == "MIf":
        return "MIf (%s) (%s) (%s)" % (p_cond(t[1]), p_mexp(t[2]), p_mexp(t[3]))
    if k == "MDiffNan":
        return "MDiffNan %s %d (%s)" % (t[1], t[2], p_mexp(t[3]))
    if k == "MUnlessNone":
        return "MUnlessNone %s %s (%s)" % (q(t[1]), q(t[2]), p_mexp(t[3]))
    raise AssertionError(t)


# ------------------------------------------------------------------------------------
# helpers
# ------------------------------------------------------------------------------------


def _num(node, text):
    """A numeric literal (int, or float written with plain decimal digits), possibly negated:
    the exact rational the SOURCE TEXT denotes.  Else None."""
    neg = False
    if isinstance(node, ast.UnaryOp) and isinstance(node.op, ast.USub):
        neg, node = True, node.operand
    if not isinstance(node, ast.Constant):
        return None
    v = node.value
    if type(v) is int:
        fr = Fraction(v)
    elif type(v) is float:
        seg = ast.get_source_segment(text, node)
        if seg is None or not seg or not all(ch in "0123456789." for ch in seg) or seg.count(".") != 1:
            return None
        ip, fp = seg.split(".")
        fr = Fraction(int((ip or "0") + fp), 10 ** len(fp))
        if float(fr) != v:  # pragma: no cover
            return None
    else:
        return None
    return -fr if neg else fr


def _plain_lazy(fn):
    a = fn.args
    return (
        len(fn.decorator_list) == 1
        and T._is_name(fn.decorator_list[0], "lazyproperty")
        and [x.arg for x in a.args] == ["self"]
        and not (a.vararg or a.kwarg or a.kwonlyargs or a.defaults or a.posonlyargs)
    )


def _plain_method(fn):
    a = fn.args
    return (
        not fn.decorator_list
        and [x.arg for x in a.args][:1] == ["self"]
        and not (a.vararg or a.kwarg or a.kwonlyargs or a.defaults or a.posonlyargs)
    )


_ACCESS_DUNDERS = (
    "__getattr__", "__getattribute__", "__setattr__", "__delattr__", "__get__", "__set__",
    "__set_name__", "__init_subclass__", "__new__", "__class_getitem__", "__slots__",
)


class _Mod(object):
    """A parsed module: classes, checked imports."""

    def __init__(self, text, path):
        self.text = text
        self.path = path
        self.mod = ast.parse(text)
        self.classes = {}
        self.dup = set()
        for node in self.mod.body:
            if isinstance(node, ast.ClassDef):
                if node.name in self.classes:
                    self.dup.add(node.name)
                self.classes[node.name] = T._Class(node)

    def only_imports_and_classes(self, also_assign=()):
        """nothing at module level but the docstring, imports, classes (and the assignments to
        the names in `also_assign`, each exactly once)"""
        seen = set()
        for node in self.mod.body:
            if isinstance(node, (ast.Import, ast.ImportFrom, ast.ClassDef)):
                continue
            if isinstance(node, ast.Expr) and isinstance(node.value, ast.Constant) and isinstance(node.value.value, str):
                continue
            if (
                isinstance(node, ast.Assign)
                and len(node.targets) == 1
                and isinstance(node.targets[0], ast.Name)
                and node.targets[0].id in also_assign
                and node.targets[0].id not in seen
            ):
                seen.add(node.targets[0].id)
                continue
            return False
        return True

    def imported(self):
        """name -> (module, original name) for every module-level import; a name imported twice
        or also defined as a class maps to None"""
        out = {}

        def put(nm, v):
            out[nm] = None if nm in out else v

        for node in self.mod.body:
            if isinstance(node, ast.Import):
                for a in node.names:
                    put(a.asname or a.name.split(".")[0], (a.name, None) if a.asname else None)
            elif isinstance(node, ast.ImportFrom):
                for a in node.names:
                    put(a.asname or a.name, (node.module, a.name) if node.level == 0 else None)
        for c in self.classes:
            if c in out:
                out[c] = None
        return out

    # -- inheritance (single, plain)
    def mro(self, cname):
        out, seen = [], set()
        while True:
            if cname in seen or cname in self.dup or cname not in self.classes:
                _un("class %s: unknown, duplicated or cyclic base" % cname)
            seen.add(cname)
            c = self.classes[cname]
            if c.node.decorator_list or c.node.keywords:
                _un("class %s is decorated / has class keywords" % cname, c.node)
            for st in c.other:
                # `alias = name` at class level is tolerated (checked where a member is resolved)
                if not (
                    isinstance(st, ast.Assign)
                    and len(st.targets) == 1
                    and isinstance(st.targets[0], ast.Name)
                    and isinstance(st.value, ast.Name)
                ):
                    _un("class %s has class-level statements that are not read" % cname, st)
            for m in c.methods:
                if m in _ACCESS_DUNDERS:
                    _un("class %s defines %s (attribute access may not be plain)" % (cname, m))
            out.append(c)
            bases = c.bases
            if len(bases) == 0 or (len(bases) == 1 and T._is_name(bases[0], "object")):
                return out
            if len(bases) != 1 or not isinstance(bases[0], ast.Name):
                _un("class %s: multiple / computed bases" % cname)
            cname = bases[0].id

    def resolve(self, cname, mname):
        for c in self.mro(cname):
            for st in c.other:  # class-level alias rebinding the name
                if isinstance(st, ast.Assign) and st.targets[0].id == mname:
                    _un("%s.%s is (re)bound by a class-level assignment" % (c.name, mname), st)
            if mname in c.methods:
                return c.methods[mname]
        return None

    def init_fields(self, cname, argvals, node=None):
        """bind constructor arguments (abstract values) to the fields the __init__ chain assigns"""
        fields = {}
        chain = self.mro(cname)

        def run(k, vals):
            while k < len(chain) and "__init__" not in chain[k].methods:
                k += 1
            if k == len(chain):
                if vals:
                    _un("%s: constructor arguments but no __init__" % cname, node)
                return
            init = chain[k].methods["__init__"]
            a = init.args
            params = [x.arg for x in a.args]
            if (
                not params or params[0] != "self" or a.vararg or a.kwarg or a.kwonlyargs
                or a.defaults or a.posonlyargs or init.decorator_list
            ):
                _un("%s.__init__: signature not read" % chain[k].name, init)
            if len(params) - 1 != len(vals):
                _un("%s.__init__: arity" % chain[k].name, node or init)
            env = dict(zip(params[1:], vals))
            for st in T._strip_doc(init.body):
                if (
                    isinstance(st, ast.Assign)
                    and len(st.targets) == 1
                    and isinstance(st.targets[0], ast.Attribute)
                    and T._is_name(st.targets[0].value, "self")
                    and isinstance(st.value, ast.Name)
                    and st.value.id in env
                ):
                    if st.targets[0].attr in fields:
                        _un("%s.__init__: field assigned twice" % chain[k].name, st)
                    fields[st.targets[0].attr] = env[st.value.id]
                elif T._Tr._is_super_init(st, chain[k].name):
                    call = st.value
                    if call.keywords or not all(isinstance(x, ast.Name) and x.id in env for x in call.args):
                        _un("%s.__init__: super().__init__ arguments not read" % chain[k].name, st)
                    run(k + 1, [env[x.id] for x in call.args])
                else:
                    _un("%s.__init__: statement not read" % chain[k].name, st)

        run(0, list(argvals))
        # a field must not be assigned anywhere else in the class chain
        for c in chain:
            for mname, fn in c.methods.items():
                if mname == "__init__":
                    continue
                for n in ast.walk(fn):
                    if (
                        isinstance(n, ast.Attribute)
                        and isinstance(n.ctx, (ast.Store, ast.Del))
                        and T._is_name(n.value, "self")
                        and n.attr in fields
                    ):
                        _un("%s.%s assigns the field %s" % (c.name, mname, n.attr), n)
        return fields


def _classmethod_sig(mod, cname, mname, params, n_defaults_false=0):
    """the classmethod `cname.mname` exists with exactly these parameter names (the last
    n_defaults_false of them defaulting to False)"""
    fn, cur, seen = None, cname, set()
    while cur in mod.classes and cur not in seen and cur not in mod.dup:
        seen.add(cur)
        c = mod.classes[cur]
        if any(isinstance(st, ast.FunctionDef) for st in c.other):  # a member defined twice
            return False
        if mname in c.methods:
            fn = c.methods[mname]
            break
        nxt = [b.id for b in c.bases if isinstance(b, ast.Name)]
        cur = nxt[0] if len(nxt) == 1 and len(c.bases) == 1 else None
    if fn is None:
        return False
    a = fn.args
    if not (len(fn.decorator_list) == 1 and T._is_name(fn.decorator_list[0], "classmethod")):
        return False
    if [x.arg for x in a.args] != params or a.vararg or a.kwarg or a.kwonlyargs or a.posonlyargs:
        return False
    if len(a.defaults) != n_defaults_false:
        return False
    return all(isinstance(d, ast.Constant) and d.value is False for d in a.defaults)


# ------------------------------------------------------------------------------------
# the measure modules
# ------------------------------------------------------------------------------------

_ARITH = {ast.Add: "MAdd", ast.Sub: "MSub", ast.Mult: "MMul", ast.Div: "MDiv"}


class _M(object):
    """Translator of matrix/measure.py (kind "matrix") or stripe/measure.py (kind "stripe")."""

    def __init__(self, text, strat_text, kind):
        self.kind = kind
        self.text = text
        self.m = _Mod(text, M_MATRIX if kind == "matrix" else M_STRIPE)
        self.coll = "SecondOrderMeasures" if kind == "matrix" else "StripeMeasures"
        self.strat_mod_name = "cr.cube.matrix.subtotals" if kind == "matrix" else "cr.cube.stripe.insertion"
        self.cm_mod_name = "cr.cube.matrix.cubemeasure" if kind == "matrix" else "cr.cube.stripe.cubemeasure"
        self.wave_name = "WaveDiffSubtotal" if kind == "matrix" else "WaveDiffSubtotals"
        self._module_problem = self._check_module(strat_text)

    # -- `np`, `DT`, `lazyproperty`, the strategies and CubeMeasures must be what we think
    def _check_module(self, strat_text):
        if not self.m.only_imports_and_classes():
            return "module-level statements other than imports and classes"
        imp = self.m.imported()
        want = {
            "np": ("numpy", None),
            "DT": ("cr.cube.enums", "DIMENSION_TYPE"),
            "lazyproperty": ("cr.cube.util", "lazyproperty"),
            "CubeMeasures": (self.cm_mod_name, "CubeMeasures"),
        }
        for nm in ("NanSubtotals", "NegativeTermSubtotals", "PositiveTermSubtotals", "SumSubtotals", self.wave_name):
            want[nm] = (self.strat_mod_name, nm)
        for nm, v in want.items():
            if imp.get(nm) != v:
                return "the name %s is not imported as expected" % nm
        # the strategies' classmethod signatures (how operands are passed), nothing else
        try:
            sm = _Mod(strat_text, "strategies")
        except SyntaxError as ex:
            return "strategy module does not parse: %r" % (ex,)
        if self.kind == "matrix":
            ok = (
                _classmethod_sig(sm, "SumSubtotals", "blocks", ["cls", "base_values", "dimensions", "diff_cols_nan", "diff_rows_nan"], 2)
                and all(
                    _classmethod_sig(sm, c, "blocks", ["cls", "base_values", "dimensions"])
                    for c in ("NanSubtotals", "PositiveTermSubtotals", "NegativeTermSubtotals")
                )
                and all(
                    _classmethod_sig(sm, "WaveDiffSubtotal", mn, ["cls", "base_values", "counts", "default_insertions", "dimensions"])
                    for mn in ("subtotal_columns", "subtotal_rows")
                )
            )
        else:
            ok = all(
                _classmethod_sig(sm, c, "subtotal_values", ["cls", "base_values", "rows_dimension"])
                for c in ("SumSubtotals", "PositiveTermSubtotals", "NegativeTermSubtotals")
            ) and _classmethod_sig(
                sm, "WaveDiffSubtotals", "subtotal_values", ["cls", "base_values", "counts", "default_values", "rows_dimension"]
            )
        if not ok:
            return "a subtotal strategy classmethod does not have the expected signature"
        return None

    # -- wiring: <collection>.<prop> = _Class(args)
    def wiring(self, prop):
        if self._module_problem:
            _un(self._module_problem)
        fn = self.m.resolve(self.coll, prop)
        if fn is None:
            _un("%s has no attribute %s" % (self.coll, prop))
        if not _plain_lazy(fn):
            _un("%s.%s is not a plain @lazyproperty" % (self.coll, prop), fn)
        body = T._strip_doc(fn.body)
        if not (len(body) == 1 and isinstance(body[0], ast.Return) and isinstance(body[0].value, ast.Call)):
            _un("%s.%s is not `return _Class(...)`" % (self.coll, prop), fn)
        call = body[0].value
        if not isinstance(call.func, ast.Name) or call.func.id not in self.m.classes:
            _un("%s.%s does not construct a class of this module" % (self.coll, prop), call)
        if call.keywords or any(isinstance(a, ast.Starred) for a in call.args):
            _un("%s.%s: constructor call not read" % (self.coll, prop), call)
        # the collection's own fields
        cfields = self.m.init_fields(self.coll, self._coll_params())
        ctx = {"cname": self.coll, "fields": cfields, "env": {}, "stack": (), "self": ("som",)}
        vals = [self.expr(a, ctx) for a in call.args]
        cname = call.func.id
        return cname, self.m.init_fields(cname, vals, call)

    def _coll_params(self):
        init = self.m.resolve(self.coll, "__init__")
        if init is None:
            _un("%s.__init__ missing" % self.coll)
        params = [a.arg for a in init.args.args][1:]
        out = []
        for p in params:
            if p == "dimensions":
                out.append(("dims",))
            elif p == "rows_dimension":
                out.append(("dim", 1))
            else:
                out.append(("opaque", p))
        return out

    # -- a member of a wired class
    def cond_member(self, cname, fields, mname):
        """a boolean member: local assignments, then `return <condition>`"""
        fn = self.m.resolve(cname, mname)
        if fn is None:
            _un("%s has no attribute %s" % (cname, mname))
        if not _plain_lazy(fn):
            _un("%s.%s is not a plain @lazyproperty" % (cname, mname), fn)
        ctx = {"cname": cname, "fields": fields, "env": {}, "stack": ((cname, mname),), "self": ("obj",)}
        body = T._strip_doc(fn.body)
        for st in body[:-1]:
            if (
                isinstance(st, ast.Assign) and len(st.targets) == 1
                and isinstance(st.targets[0], ast.Name) and st.targets[0].id not in ("self", "np", "DT")
            ):
                env = dict(ctx["env"])
                env[st.targets[0].id] = self.expr(st.value, ctx)
                ctx = dict(ctx, env=env)
            else:
                _un("statement not read", st)
        if not body or not isinstance(body[-1], ast.Return) or body[-1].value is None:
            _un("%s.%s does not end in `return <expr>`" % (cname, mname), fn)
        return self.cond(body[-1].value, ctx)

    def member(self, cname, fields, mname, stack=()):
        if (cname, mname) in stack:
            _un("%s.%s refers to itself" % (cname, mname))
        fn = self.m.resolve(cname, mname)
        if fn is None:
            _un("%s has no attribute %s" % (cname, mname))
        if not _plain_lazy(fn):
            _un("%s.%s is not a plain @lazyproperty" % (cname, mname), fn)
        ctx = {"cname": cname, "fields": fields, "env": {}, "stack": stack + ((cname, mname),), "self": ("obj",)}
        return self.body(T._strip_doc(fn.body), ctx, fn)

    def call_method(self, cname, fields, mname, args, stack, node):
        if (cname, mname) in stack:
            _un("%s.%s refers to itself" % (cname, mname))
        fn = self.m.resolve(cname, mname)
        if fn is None:
            _un("%s has no method %s" % (cname, mname), node)
        if not _plain_method(fn):
            _un("%s.%s is not a plain method" % (cname, mname), fn)
        params = [a.arg for a in fn.args.args][1:]
        if len(params) != len(args):
            _un("%s.%s: arity" % (cname, mname), node)
        ctx = {"cname": cname, "fields": fields, "env": dict(zip(params, args)),
               "stack": stack + ((cname, mname),), "self": ("obj",)}
        return self.body(T._strip_doc(fn.body), ctx, fn)

    # -- statements
    def body(self, stmts, ctx, where):
        if not stmts:
            _un("no `return <expr>` on this path", where)
        st, rest = stmts[0], stmts[1:]
        if isinstance(st, ast.Return):
            if st.value is None:
                _un("bare return", st)
            return self.expr(st.value, ctx)
        if (
            isinstance(st, ast.Assign)
            and len(st.targets) == 1
            and isinstance(st.targets[0], ast.Name)
            and st.targets[0].id not in ("self", "np", "DT")
        ):
            env = dict(ctx["env"])
            env[st.targets[0].id] = self.expr(st.value, ctx)
            return self.body(rest, dict(ctx, env=env), where)
        if isinstance(st, ast.With):
            # `with np.errstate(...):` changes warnings only
            if not (
                len(st.items) == 1
                and st.items[0].optional_vars is None
                and isinstance(st.items[0].context_expr, ast.Call)
                and T._is_attr(st.items[0].context_expr.func, "np", "errstate")
                and "np" not in ctx["env"]
            ):
                _un("`with` other than np.errstate(...)", st)
            return self.body(list(st.body) + list(rest), ctx, where)
        # x[:, D] = np.nan / x[D, :] = np.nan / x[D] = np.nan   (x a fresh copy, D difference positions)
        if (
            isinstance(st, ast.Assign)
            and len(st.targets) == 1
            and isinstance(st.targets[0], ast.Subscript)
            and isinstance(st.targets[0].value, ast.Name)
        ):
            tg = st.targets[0]
            x = ctx["env"].get(tg.value.id)
            val = self.expr(st.value, ctx)
            if x is None or x[0] != "arr" or len(x) != 3 or x[2] != "fresh" or val != ("nan",):
                _un("item assignment other than <fresh np.array copy>[...] = np.nan", st)
            sl = tg.slice

            def full(n):
                return isinstance(n, ast.Slice) and n.lower is None and n.upper is None and n.step is None

            def didx(n):
                v = ctx["env"].get(n.id) if isinstance(n, ast.Name) else None
                return v[1] if v is not None and v[0] == "diffidx" else None

            if isinstance(sl, ast.Tuple) and len(sl.elts) == 2 and full(sl.elts[0]) and didx(sl.elts[1]):
                ax, d = "AxCols", didx(sl.elts[1])
            elif isinstance(sl, ast.Tuple) and len(sl.elts) == 2 and full(sl.elts[1]) and didx(sl.elts[0]):
                ax, d = "AxRows", didx(sl.elts[0])
            elif self.kind == "stripe" and didx(sl):
                ax, d = "AxRows", didx(sl)
            else:
                _un("item assignment index outside the sub-language", st)
            env = dict(ctx["env"])
            env[tg.value.id] = ("arr", ("MDiffNan", ax, d, x[1]), "fresh")
            return self.body(rest, dict(ctx, env=env), where)
        # `if <cube-measure attribute> is None: return np.array([])`
        if (
            isinstance(st, ast.If) and not st.orelse
            and isinstance(st.test, ast.Compare) and len(st.test.ops) == 1
            and isinstance(st.test.ops[0], ast.Is)
            and isinstance(st.test.comparators[0], ast.Constant) and st.test.comparators[0].value is None
        ):
            v = self.expr(st.test.left, ctx)
            r = st.body[0] if len(st.body) == 1 else None
            if not (
                v[0] == "cubeattr"
                and isinstance(r, ast.Return) and isinstance(r.value, ast.Call)
                and T._is_attr(r.value.func, "np", "array") and "np" not in ctx["env"]
                and len(r.value.args) == 1 and not r.value.keywords
                and isinstance(r.value.args[0], ast.List) and not r.value.args[0].elts
            ):
                _un("`is None` test other than `if <cube attribute> is None: return np.array([])`", st)
            b = self.body(list(rest), ctx, where)
            return ("arr", ("MUnlessNone", v[1], v[2], self.arr(b, st)))
        if isinstance(st, ast.If) and not st.orelse:
            c = self.cond(st.test, ctx)
            a = self.body(list(st.body), ctx, st)  # must end in a return on every path
            b = self.body(list(rest), ctx, where)
            return self.mif(c, a, b, st)
        _un("statement not read", st)

    def mif(self, c, a, b, node):
        if a[0] == "blocks" and b[0] == "blocks":
            return ("blocks", [[("MIf", c, a[1][i][j], b[1][i][j]) for j in (0, 1)] for i in (0, 1)])
        return ("arr", ("MIf", c, self.arr(a, node), self.arr(b, node)))

    # -- coercion of an abstract value to an array term
    def arr(self, v, node):
        k = v[0]
        if k == "arr":
            return v[1]
        if k == "num":
            return ("MConst", v[1])
        if k == "cubeattr":
            return ("MCube", v[1], v[2])
        _un("not an array-valued expression (%s)" % k, node)

    def leaf_cube(self, v, node):
        if v[0] == "cubeattr":
            return v[1], v[2]
        _un("strategy operand is not <cube-measure object>.<attribute>", node)

    def bflag(self, v, node):
        if v[0] == "bool":
            return ("BLit", v[1])
        if v[0] == "cubeattr":
            return ("BCube", v[1], v[2])
        _un("strategy flag is not a literal / <cube-measure object>.<attribute>", node)

    # -- expressions
    def expr(self, e, ctx):
        fr = _num(e, self.text)
        if fr is not None:
            return ("num", fr)
        if isinstance(e, ast.Constant) and type(e.value) is bool:
            return ("bool", e.value)
        if isinstance(e, ast.Name):
            if e.id == "self":
                if "self" in ctx["env"]:
                    _un("self rebound", e)
                return ctx["self"]
            if e.id in ctx["env"]:
                return ctx["env"][e.id]
            _un("name not bound in the method", e)
        if isinstance(e, ast.Attribute):
            return self.attribute(e, ctx)
        if isinstance(e, ast.Subscript):
            base = self.expr(e.value, ctx)
            sl = e.slice
            if base[0] == "dims":
                if isinstance(sl, ast.UnaryOp) and isinstance(sl.op, ast.USub) and T._nat(sl.operand) in (1, 2):
                    return ("dim", T._nat(sl.operand))
                _un("dimension index other than -1 / -2", e)
            k = T._nat(sl)
            if k in (0, 1):
                if base[0] == "blocks":
                    return ("brow", base[1][k])
                if base[0] == "brow":
                    return ("arr", base[1][k])
            _un("subscript outside the sub-language", e)
        if isinstance(e, ast.List) and len(e.elts) == 2:
            vs = [self.expr(x, ctx) for x in e.elts]
            if vs[0][0] == "brow" and vs[1][0] == "brow":
                return ("blocks", [vs[0][1], vs[1][1]])
            return ("brow", [self.arr(v, x) for v, x in zip(vs, e.elts)])
        if isinstance(e, ast.BinOp):
            if type(e.op) in _ARITH:
                a = self.arr(self.expr(e.left, ctx), e.left)
                b = self.arr(self.expr(e.right, ctx), e.right)
                return ("arr", (_ARITH[type(e.op)], a, b))
            if isinstance(e.op, ast.Pow):
                k = T._nat(e.right)
                if k is None or k > 8:
                    _un("exponent is not a small literal natural", e)
                return ("arr", ("MPow", self.arr(self.expr(e.left, ctx), e.left), k))
            _un("operator outside the sub-language", e)
        if isinstance(e, ast.ListComp):
            d = self.diff_positions(e, ctx)
            if d is not None:
                return ("diffidx", d)
            _un("list comprehension outside the sub-language", e)
        if isinstance(e, ast.IfExp):
            c = self.cond(e.test, ctx)
            return self.mif(c, self.expr(e.body, ctx), self.expr(e.orelse, ctx), e)
        if isinstance(e, ast.Call):
            return self.call(e, ctx)
        _un("expression outside the sub-language", e)

    def diff_positions(self, e, ctx):
        """[i for i, s in enumerate(<dimension -d>.subtotals) if s.is_difference] -> d"""
        if len(e.generators) != 1:
            return None
        g = e.generators[0]
        if g.is_async or len(g.ifs) != 1:
            return None
        t = g.target
        if not (isinstance(t, ast.Tuple) and len(t.elts) == 2 and all(isinstance(x, ast.Name) for x in t.elts)):
            return None
        i, sname = t.elts[0].id, t.elts[1].id
        if i == sname or i in ("self", "np", "DT") or sname in ("self", "np", "DT"):
            return None
        if not (isinstance(e.elt, ast.Name) and e.elt.id == i):
            return None
        if not T._is_attr(g.ifs[0], sname, "is_difference"):
            return None
        it = g.iter
        if not (
            isinstance(it, ast.Call) and T._is_name(it.func, "enumerate") and "enumerate" not in ctx["env"]
            and len(it.args) == 1 and not it.keywords
            and isinstance(it.args[0], ast.Attribute) and it.args[0].attr == "subtotals"
        ):
            return None
        dv = self.expr(it.args[0].value, ctx)
        return dv[1] if dv[0] == "dim" else None

    def attribute(self, e, ctx):
        # np.nan / DT.<X>
        if T._is_name(e.value, "np") and "np" not in ctx["env"]:
            if e.attr == "nan":
                return ("nan",)
            _un("numpy attribute outside the sub-language", e)
        if T._is_name(e.value, "DT") and "DT" not in ctx["env"]:
            return ("DTconst", e.attr)
        base = self.expr(e.value, ctx)
        k = base[0]
        if k in ("obj", "som") and base == ctx["self"]:
            cname, fields = ctx["cname"], ctx["fields"]
            fn = self.m.resolve(cname, e.attr)
            if e.attr in fields:
                if fn is not None:
                    _un("attribute is both a field and a member", e)
                return fields[e.attr]
            if fn is None:
                _un("unknown attribute of self", e)
            if k == "som":
                return self.som_attr(e.attr, e)
            return self.member(cname, fields, e.attr, ctx["stack"])
        if k == "som":
            return self.som_attr(e.attr, e)
        if k == "cm":
            return ("cubeobj", e.attr)
        if k == "cubeobj":
            return ("cubeattr", base[1], e.attr)
        if k == "measure":
            if self.kind == "matrix" and e.attr == "blocks":
                return ("blocks", [[("MBlock", base[1], i, j) for j in (0, 1)] for i in (0, 1)])
            if self.kind == "stripe" and e.attr in ("base_values", "subtotal_values"):
                return ("arr", ("MVBlock", base[1], 0 if e.attr == "base_values" else 1))
            _un("attribute of a measure object other than its blocks", e)
        if k == "dim" and e.attr == "dimension_type":
            return ("dimtype", base[1])
        if k in ("arr", "cubeattr"):
            if e.attr == "T":
                return ("arr", ("MT", self.arr(base, e)))
            if e.attr == "shape":
                return ("shape", self.arr(base, e))
        _un("attribute outside the sub-language", e)

    def som_attr(self, name, node):
        """<collection>.<name>: the cube-measures object or a measure object"""
        fn = self.m.resolve(self.coll, name)
        if fn is None or not _plain_lazy(fn):
            _un("%s.%s is not a plain @lazyproperty" % (self.coll, name), node)
        if name == "_cube_measures":
            body = T._strip_doc(fn.body)
            if not (
                len(body) == 1 and isinstance(body[0], ast.Return)
                and isinstance(body[0].value, ast.Call) and T._is_name(body[0].value.func, "CubeMeasures")
            ):
                _un("%s._cube_measures is not `return CubeMeasures(...)`" % self.coll, fn)
            return ("cm",)
        return ("measure", name)

    def call(self, e, ctx):
        f = e.func
        if any(isinstance(a, ast.Starred) for a in e.args) or any(k.arg is None for k in e.keywords):
            _un("star arguments", e)
        kw = dict((k.arg, k.value) for k in e.keywords)
        if len(kw) != len(e.keywords):
            _un("repeated keyword", e)
        if not isinstance(f, ast.Attribute):
            _un("call outside the sub-language", e)
        # numpy
        if T._is_name(f.value, "np") and "np" not in ctx["env"]:
            return self.np_call(f.attr, e, kw, ctx)
        # strategies
        if isinstance(f.value, ast.Name) and f.value.id not in ctx["env"]:
            nm = f.value.id
            if nm in ("SumSubtotals", "PositiveTermSubtotals", "NegativeTermSubtotals", "NanSubtotals", self.wave_name):
                return self.strategy(nm, f.attr, e, kw, ctx)
        # self._method(args)
        if T._is_name(f.value, "self") and ctx["self"] == ("obj",) and "self" not in ctx["env"]:
            if kw:
                _un("keyword arguments to a method", e)
            if f.attr in ctx["fields"]:
                _un("call of a field", e)
            args = [self.expr(a, ctx) for a in e.args]
            return self.call_method(ctx["cname"], ctx["fields"], f.attr, args, ctx["stack"], e)
        _un("call outside the sub-language", e)

    def np_call(self, name, e, kw, ctx):
        args = e.args
        if name == "sqrt" and len(args) == 1 and not kw:
            return ("arr", ("MSqrt", self.arr(self.expr(args[0], ctx), args[0])))
        if name == "nansum" and len(args) == 1 and set(kw) <= {"axis"}:
            x = self.arr(self.expr(args[0], ctx), args[0])
            if "axis" not in kw or (isinstance(kw["axis"], ast.Constant) and kw["axis"].value is None):
                return ("arr", ("MNansum", x, None))
            ax = T._nat(kw["axis"])
            if ax in (0, 1):
                return ("arr", ("MNansum", x, ax))
            _un("np.nansum axis is not 0 / 1 / None", e)
        if name == "array" and len(args) == 1 and set(kw) == {"dtype"} and T._is_attr(kw["dtype"], "np", "float64"):
            return ("arr", self.arr(self.expr(args[0], ctx), args[0]), "fresh")
        if name == "full" and len(args) == 2 and not kw:
            shp = self.expr(args[0], ctx)
            fill = self.expr(args[1], ctx)
            if shp[0] == "shape" and fill[0] == "nan":
                return ("arr", ("MNanLike", shp[1]))
            _un("np.full other than (<x>.shape, np.nan)", e)
        if name == "repeat" and len(args) == 2 and not kw:
            c = self.expr(args[0], ctx)
            shp = self.expr(args[1], ctx)
            if c[0] == "num" and shp[0] == "shape":
                return ("arr", ("MRepeatLike", c[1], shp[1]))
            _un("np.repeat other than (<number>, <x>.shape)", e)
        _un("numpy function outside the sub-language", e)

    def strategy(self, nm, meth, e, kw, ctx):
        args = [self.expr(a, ctx) for a in e.args]
        if self.kind == "matrix":
            if nm == self.wave_name:
                if meth not in ("subtotal_columns", "subtotal_rows") or kw or len(args) != 4:
                    _un("WaveDiffSubtotal call not read", e)
                if args[3] != ("dims",):
                    _un("strategy is not given self._dimensions", e)
                bc, ba = self.leaf_cube(args[0], e)
                cc, ca = self.leaf_cube(args[1], e)
                ax = "AxCols" if meth == "subtotal_columns" else "AxRows"
                return ("arr", ("MWave", ax, bc, ba, cc, ca, self.arr(args[2], e)))
            if meth != "blocks" or len(args) != 2 or args[1] != ("dims",):
                _un("strategy call other than <Strategy>.blocks(x, self._dimensions, ...)", e)
            if nm == "NanSubtotals":
                if kw:
                    _un("NanSubtotals.blocks with keywords", e)
                x = self.arr(args[0], e)
                return ("blocks", [[("MNanSub", x, i, j) for j in (0, 1)] for i in (0, 1)])
            c, a = self.leaf_cube(args[0], e)
            if nm == "SumSubtotals":
                if set(kw) - {"diff_cols_nan", "diff_rows_nan"}:
                    _un("SumSubtotals.blocks keywords", e)
                dcn = self.bflag(self.expr(kw["diff_cols_nan"], ctx), e) if "diff_cols_nan" in kw else ("BLit", False)
                drn = self.bflag(self.expr(kw["diff_rows_nan"], ctx), e) if "diff_rows_nan" in kw else ("BLit", False)
                s = ("SSum", dcn, drn)
            else:
                if kw:
                    _un("strategy keywords", e)
                s = ("SPos",) if nm == "PositiveTermSubtotals" else ("SNeg",)
            return ("blocks", [[("MStrat", s, c, a, i, j) for j in (0, 1)] for i in (0, 1)])
        # stripe
        if meth != "subtotal_values" or kw:
            _un("strategy call other than <Strategy>.subtotal_values(...)", e)
        if nm == self.wave_name:
            if len(args) != 4 or args[3] != ("dim", 1):
                _un("WaveDiffSubtotals call not read", e)
            bc, ba = self.leaf_cube(args[0], e)
            cc, ca = self.leaf_cube(args[1], e)
            return ("arr", ("MVWave", bc, ba, cc, ca, self.arr(args[2], e)))
        if len(args) != 2 or args[1] != ("dim", 1):
            _un("strategy is not given (x, self._rows_dimension)", e)
        if nm == "NanSubtotals":
            _un("NanSubtotals (stripe) is not read", e)
        s = {"SumSubtotals": ("SSum", ("BLit", False), ("BLit", False)),
             "PositiveTermSubtotals": ("SPos",), "NegativeTermSubtotals": ("SNeg",)}[nm]
        return ("arr", ("MVStrat", s, self.arr(args[0], e)))

    # -- conditions
    def cond(self, t, ctx):
        if isinstance(t, ast.BoolOp):
            cs = [self.cond(v, ctx) for v in t.values]
            k = "COr" if isinstance(t.op, ast.Or) else "CAnd"
            out = cs[0]
            for c in cs[1:]:
                out = (k, out, c)
            return out
        if isinstance(t, ast.UnaryOp) and isinstance(t.op, ast.Not):
            if isinstance(t.operand, ast.Name):
                v = ctx["env"].get(t.operand.id)
                if v is not None and v[0] == "diffidx":
                    return ("CNoDiff", v[1])  # an empty list is falsy
            return ("CNot", self.cond(t.operand, ctx))
        # np.linalg.matrix_rank(<block>) < 2
        if (
            isinstance(t, ast.Compare) and len(t.ops) == 1 and isinstance(t.ops[0], ast.Lt)
            and T._nat(t.comparators[0]) == 2
            and isinstance(t.left, ast.Call) and not t.left.keywords and len(t.left.args) == 1
            and isinstance(t.left.func, ast.Attribute) and t.left.func.attr == "matrix_rank"
            and T._is_attr(t.left.func.value, "np", "linalg") and "np" not in ctx["env"]
        ):
            x = self.arr(self.expr(t.left.args[0], ctx), t.left)
            if x[0] == "MBlock":
                return ("CRankLt2", x[1], x[2], x[3])
            _un("matrix_rank of something else than a block", t)
        # np.all(<x>.shape)
        if (
            isinstance(t, ast.Call) and T._is_attr(t.func, "np", "all") and "np" not in ctx["env"]
            and len(t.args) == 1 and not t.keywords and isinstance(t.args[0], ast.Attribute)
            and t.args[0].attr == "shape"
        ):
            v = self.expr(t.args[0], ctx)
            if v[0] == "shape":
                return ("CAllShape", v[1])
        if isinstance(t, ast.Compare) and len(t.ops) == 1 and isinstance(t.ops[0], ast.Eq):
            a = self.expr(t.left, ctx)
            b = self.expr(t.comparators[0], ctx)
            if a[0] == "dimtype" and b[0] == "DTconst":
                return ("CDimType", a[1], b[1])
            _un("comparison outside the sub-language", t)
        if (
            isinstance(t, ast.Call)
            and T._is_attr(t.func, "np", "all")
            and "np" not in ctx["env"]
            and len(t.args) == 1
            and not t.keywords
            and isinstance(t.args[0], ast.Compare)
            and len(t.args[0].ops) == 1
            and isinstance(t.args[0].ops[0], ast.Eq)
        ):
            c = t.args[0]
            return ("CAllEq", self.arr(self.expr(c.left, ctx), c.left),
                    self.arr(self.expr(c.comparators[0], ctx), c.comparators[0]))
        # self.<boolean member>: kept as an opaque flag, NOT inlined
        if isinstance(t, ast.Attribute) and T._is_name(t.value, "self") and ctx["self"] == ("obj",) and "self" not in ctx["env"]:
            if t.attr not in ctx["fields"]:
                fn = self.m.resolve(ctx["cname"], t.attr)
                if fn is not None and _plain_lazy(fn):
                    return ("CFlag", t.attr)
        _un("condition outside the sub-language", t)


# ------------------------------------------------------------------------------------
# cubepart.py: margin of error, population counts (products of a constant, scalars, arrays)
# ------------------------------------------------------------------------------------


class _P(object):
    def __init__(self, text):
        self.text = text
        self.m = _Mod(text, M_CUBEPART)
        self.problem = None
        # Z_975 is bound exactly once in the whole file: a module-level `Z_975 = <numeric literal>`
        self.consts = {}
        stores = [n for n in ast.walk(self.m.mod)
                  if isinstance(n, ast.Name) and n.id == "Z_975" and isinstance(n.ctx, (ast.Store, ast.Del))]
        other = 0
        for node in ast.walk(self.m.mod):
            if isinstance(node, (ast.Import, ast.ImportFrom)):
                other += sum(1 for a in node.names if (a.asname or a.name).split(".")[0] in ("Z_975", "*"))
            elif isinstance(node, (ast.FunctionDef, ast.AsyncFunctionDef, ast.ClassDef)) and node.name == "Z_975":
                other += 1
            elif isinstance(node, ast.arg) and node.arg == "Z_975":
                other += 1
            elif isinstance(node, (ast.Global, ast.Nonlocal)) and "Z_975" in node.names:
                other += 1
            elif isinstance(node, ast.ExceptHandler) and node.name == "Z_975":
                other += 1
        if len(stores) == 1 and other == 0:
            for node in self.m.mod.body:
                if (
                    isinstance(node, ast.Assign) and len(node.targets) == 1
                    and node.targets[0] is stores[0] and _num(node.value, text) is not None
                ):
                    self.consts["Z_975"] = True
        imp = self.m.imported()
        if imp.get("lazyproperty") != ("cr.cube.util", "lazyproperty"):
            self.problem = "lazyproperty is not imported as expected"

    def fields(self, cname):
        """field -> True for `self._x = <parameter>` in an __init__ on the chain (assigned once)"""
        out = {}
        for c in self.m.mro(cname):
            init = c.methods.get("__init__")
            if init is None:
                continue
            params = [a.arg for a in init.args.args][1:]
            for st in ast.walk(init):
                if isinstance(st, ast.Assign):
                    for t in st.targets:
                        if isinstance(t, ast.Attribute) and T._is_name(t.value, "self"):
                            ok = isinstance(st.value, ast.Name) and st.value.id in params and len(st.targets) == 1
                            out[t.attr] = ok and t.attr not in out
        return out

    def member(self, cname, mname, stack=()):
        if self.problem:
            _un(self.problem)
        if (cname, mname) in stack:
            _un("%s.%s refers to itself" % (cname, mname))
        fn = self.m.resolve(cname, mname)
        if fn is None:
            _un("%s has no attribute %s" % (cname, mname))
        if not _plain_lazy(fn):
            _un("%s.%s is not a plain @lazyproperty" % (cname, mname), fn)
        env = {}
        body = T._strip_doc(fn.body)
        for st in body[:-1]:
            if (
                isinstance(st, ast.Assign) and len(st.targets) == 1
                and isinstance(st.targets[0], ast.Name) and st.targets[0].id not in ("self", "Z_975")
            ):
                env[st.targets[0].id] = self.expr(st.value, cname, env)
            else:
                _un("statement not read", st)
        if not body or not isinstance(body[-1], ast.Return) or body[-1].value is None:
            _un("%s.%s does not end in `return <expr>`" % (cname, mname), fn)
        return self.expr(body[-1].value, cname, env)

    def expr(self, e, cname, env):
        fr = _num(e, self.text)
        if fr is not None:
            return ("MConst", fr)
        if isinstance(e, ast.Name):
            if e.id in env:
                return env[e.id]
            if e.id == "Z_975" and self.consts.get("Z_975"):
                return ("MName", "Z_975")
            _un("name not bound in the method", e)
        if isinstance(e, ast.BinOp) and isinstance(e.op, (ast.Mult, ast.Div)):
            k = "MMul" if isinstance(e.op, ast.Mult) else "MDiv"
            return (k, self.expr(e.left, cname, env), self.expr(e.right, cname, env))
        if isinstance(e, ast.Attribute) and "self" not in env:
            flds = self.fields(cname)
            if T._is_name(e.value, "self"):
                fn = self.m.resolve(cname, e.attr)
                if e.attr in flds:
                    if fn is not None or not flds[e.attr]:
                        _un("field not plainly assigned from a constructor parameter", e)
                    return ("MScalar", e.attr)
                if fn is not None and _plain_lazy(fn):
                    return ("MProp", e.attr)
                _un("unknown attribute of self", e)
            if T._is_attr(e.value, "self", "_cube") and flds.get("_cube") and self.m.resolve(cname, "_cube") is None:
                return ("MScalar", "_cube.%s" % e.attr)
        _un("expression outside the sub-language", e)


# ------------------------------------------------------------------------------------
# emission
# ------------------------------------------------------------------------------------

HEADER = """(* GENERATED by harness/translate/measures.py from %s
   -- do not edit; rewritten (only when its text changes) on every check.
   One definition per (class, member) -- for a `blocks` member one per block: [Some <mexp>] =
   what the source says, read through the whitelist of the translator (Base/MeasureExp.v gives
   the meaning); [None] = the translator could not read the member (it is then tied to the
   model by the correspondence check only). *)
From Coq Require Import List String QArith.
From CC Require Import Base.MeasureExp.
Import ListNotations.
Local Close Scope Q_scope.
Local Open Scope string_scope.

"""

# (collection property, identifier stem, members)   members: "blocks" = the four blocks
MATRIX_TARGETS = (
    ("weighted_counts", "WeightedCounts", ("blocks",)),
    ("row_proportions", "RowProportions", ("blocks",)),
    ("column_proportions", "ColumnProportions", ("blocks",)),
    ("table_proportions", "TableProportions", ("blocks",)),
    ("row_proportion_variances", "RowProportionVariances", ("blocks",)),
    ("column_proportion_variances", "ColumnProportionVariances", ("blocks",)),
    ("table_proportion_variances", "TableProportionVariances", ("blocks",)),
    ("row_std_err", "RowStandardError", ("blocks",)),
    ("column_std_err", "ColumnStandardError", ("blocks",)),
    ("table_std_err", "TableStandardError", ("blocks",)),
    ("zscores", "Zscores", ("blocks", "?_is_defective")),
    ("column_index", "ColumnIndex", ("_column_index", "blocks")),
    ("row_share_sum", "RowShareSum", ("blocks",)),
    ("column_share_sum", "ColumnShareSum", ("blocks",)),
    ("total_share_sum", "TotalShareSum", ("blocks",)),
    ("population_proportions", "PopulationProportions", ("blocks",)),
    ("population_std_err", "PopulationStandardError", ("blocks",)),
)
STRIPE_TARGETS = (
    ("table_proportions", "TableProportions", ("base_values", "subtotal_values")),
    ("table_proportion_variances", "TableProportionVariances", ("base_values", "subtotal_values")),
    ("table_proportion_stddevs", "TableProportionStddevs", ("base_values", "subtotal_values")),
    ("table_proportion_stderrs", "TableProportionStderrs", ("base_values", "subtotal_values")),
    ("share_sum", "ShareSum", ("base_values", "subtotal_values")),
    ("population_proportions", "PopulationProportions", ("base_values", "subtotal_values")),
    ("population_proportion_stderrs", "PopulationProportionStderrs", ("base_values", "subtotal_values")),
)
PART_TARGETS = (
    ("_Slice", "Slice", ("row_proportions_moe", "column_proportions_moe", "table_proportions_moe",
                         "population_counts", "population_counts_moe")),
    ("_Strand", "Strand", ("table_proportion_moes", "population_counts", "population_counts_moe")),
)


def _emit_measures(tr, targets, prefix, modname, report, L):
    for prop, stem, members in targets:
        L.append("(** * %s.%s *)" % (tr.coll, prop))
        try:
            cname, fields = tr.wiring(prop)
            wired = None
            L.append("(* constructs %s *)" % cname)
        except Unavailable as ex:
            cname, fields, wired = None, None, ex
        for m in members:
            if m.startswith("?"):  # a boolean member -> option mcond
                m = m[1:]
                what = "%s.%s" % (stem if cname is None else cname, m)
                try:
                    if wired is not None:
                        raise wired
                    term = "Some (%s)" % p_cond(tr.cond_member(cname, fields, m))
                    report["methods_translated"].append("%s:%s" % (modname, what))
                except Unavailable as ex:
                    term = "None"
                    report["unavailable"].append({"method": "%s:%s" % (modname, what), "reason": str(ex)})
                    L.append("(* %s not read: %s *)" % (what, T._coq_comment(str(ex))))
                L.append("Definition %s%s_%s : option mcond := %s." % (prefix, stem, m, term))
                continue
            idents = (
                [("%s%s_%s_%d%d" % (prefix, stem, m, i, j), (i, j)) for i in (0, 1) for j in (0, 1)]
                if m == "blocks" else [("%s%s_%s" % (prefix, stem, m), None)]
            )
            what = "%s.%s" % (stem if cname is None else cname, m)
            val, err = None, wired
            if wired is None:
                try:
                    val = tr.member(cname, fields, m)
                    if m == "blocks" and val[0] != "blocks":
                        _un("`blocks` is not a 2x2 structure of the sub-language")
                except Unavailable as ex:
                    val, err = None, ex
            for ident, ij in idents:
                term, e2 = "None", err
                if val is not None:
                    try:
                        t = val[1][ij[0]][ij[1]] if ij is not None else tr.arr(val, None)
                        term = "Some (%s)" % p_mexp(t)
                    except Unavailable as ex:
                        e2 = ex
                w = what if ij is None else "%s[%d][%d]" % (what, ij[0], ij[1])
                if term == "None":
                    report["unavailable"].append({"method": "%s:%s" % (modname, w), "reason": str(e2)})
                    L.append("(* %s not read: %s *)" % (w, T._coq_comment(str(e2))))
                else:
                    report["methods_translated"].append("%s:%s" % (modname, w))
                L.append("Definition %s : option mexp := %s." % (ident, term))
        L.append("")


def _gen_matrix(text, strat_text, report):
    tr = _M(text, strat_text, "matrix")
    L = []
    _emit_measures(tr, MATRIX_TARGETS, "src_", "matrix-measure", report, L)
    return HEADER % ("src/" + M_MATRIX) + "\n".join(L) + "\n"


def _gen_stripe(text, strat_text, report):
    tr = _M(text, strat_text, "stripe")
    L = []
    _emit_measures(tr, STRIPE_TARGETS, "ssrc_", "stripe-measure", report, L)
    return HEADER % ("src/" + M_STRIPE) + "\n".join(L) + "\n"


def _gen_part(text, report):
    tr = _P(text)
    L = []
    for cname, stem, members in PART_TARGETS:
        L.append("(** * cubepart.%s *)" % cname)
        for m in members:
            ident = "psrc_%s_%s" % (stem, m)
            what = "%s.%s" % (cname, m)
            try:
                term = "Some (%s)" % p_mexp(tr.member(cname, m))
                report["methods_translated"].append("cubepart:%s" % what)
            except Unavailable as ex:
                term = "None"
                report["unavailable"].append({"method": "cubepart:%s" % what, "reason": str(ex)})
                L.append("(* %s not read: %s *)" % (what, T._coq_comment(str(ex))))
            L.append("Definition %s : option mexp := %s." % (ident, term))
        L.append("")
    return HEADER % ("src/" + M_CUBEPART) + "\n".join(L) + "\n"


def _fallback(what, ex):
    return HEADER % what + "(* translator failed: %s *)\n" % T._coq_comment(repr(ex))


def regenerate(repo_src, gen_dir, report):
    """Adds Gen/MeasureSrc.v, Gen/StripeMeasureSrc.v, Gen/PartMeasureSrc.v; extends `report`."""
    report["measures_version"] = VERSION
    texts = {}
    for rel in (M_MATRIX, M_STRIPE, M_SUBTOTALS, M_INSERTION, M_CUBEPART):
        p = os.path.join(repo_src, rel)
        try:
            with open(p, encoding="utf-8") as f:
                texts[rel] = f.read()
            report["files"]["src/" + rel] = T._sha(texts[rel])
        except (OSError, UnicodeDecodeError) as ex:
            texts[rel] = None
            report["files"].setdefault("src/" + rel, None)
            report["errors"].append("cannot read %s: %r" % (rel, ex))
    jobs = (
        ("MeasureSrc.v", lambda: _gen_matrix(texts[M_MATRIX], texts[M_SUBTOTALS], report), "src/" + M_MATRIX),
        ("StripeMeasureSrc.v", lambda: _gen_stripe(texts[M_STRIPE], texts[M_INSERTION], report), "src/" + M_STRIPE),
        ("PartMeasureSrc.v", lambda: _gen_part(texts[M_CUBEPART], report), "src/" + M_CUBEPART),
    )
    outs = {}
    for name, job, what in jobs:
        try:
            outs[name] = job()
        except Exception as ex:  # SyntaxError of the source, missing file, a bug of ours
            report["errors"].append("%s: %r" % (name, ex))
            outs[name] = _fallback(what, ex)
    os.makedirs(gen_dir, exist_ok=True)
    for name, text in sorted(outs.items()):
        changed = T._write_if_changed(os.path.join(gen_dir, name), text)
        report["gen_files"]["Gen/" + name] = {"sha256": T._sha(text), "rewritten": changed}
    return report


if __name__ == "__main__":  # manual run: python -m harness.translate.measures <repo_src> <gen_dir>
    import json
    import sys

    rep = {"files": {}, "errors": [], "gen_files": {}, "methods_translated": [], "unavailable": []}
    regenerate(sys.argv[1], sys.argv[2], rep)
    json.dump(rep, sys.stdout, indent=1)
