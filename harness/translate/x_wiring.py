# -*- coding: utf-8 -*-
"""Wiring translator: the PUBLIC LAYER of cr.cube (src/cr/cube/cubepart.py).

Reads every method of CubePartition, _Slice, _Strand and _Nub with Python's `ast` and writes its body
as a term of `wexp` (coq/Base/WiringExp.v) into coq/Gen/WiringSrc.v:

    Definition wsrc_<Class>_<member> : option wexp := Some (...).      (| None when outside the whitelist)

Rules (whitelist, fail-closed; nothing is guessed or repaired):
  * docstrings are dropped, `with np.errstate(...)` is transparent;
  * a local `x = e` is inlined into what follows (so renaming a local or introducing a temporary
    does not change the term);
  * `if c: <returns a>` followed by the rest r is `WIf c a r`; `a if c else b` likewise;
  * `try: <body> except ValueError: raise ValueError("msg")` is `WTryValueError body ""` (the message
    text is not part of the term);
  * `if g: x[idx] = np.nan` on a local x re-binds x to `WSetNan x idx g`;
  * `raise Exc(...)` is `WRaise "Exc"` (the message is not part of the term);
  * expressions: constants, names (parameters / comprehension variables -> WVar, module-level names
    -> WGlobal), `self.<p>` -> WSelf, attribute, call (positional + keyword), subscript with slices,
    unary / binary / boolean / comparison operators, conditional expression, tuple / list / dict
    displays, comprehensions and generator expressions, lambda with plain parameters, f-strings are
    NOT read (only inside raise, where the message is dropped).
Dunder methods are skipped.  The obligations live in coq/Proofs/GenAgreeWiring_Cxx.v (generated ONCE
from the tree by tools/gen_wiring_props.py, then committed - they are the golden statements) and are
re-exported by the Props files.
"""
import ast
import os

from harness.translate import translate as T

VERSION = "x_wiring.py/1"
GEN_FILES = ("WiringSrc.v",)
M_CUBEPART = "cr/cube/cubepart.py"
CLASSES = ("CubePartition", "_Slice", "_Strand", "_Nub")
# the measure COLLECTIONS (which measure class a measure name constructs, with which arguments, and
# which cube-measure objects exist): (file, class, name used in the generated identifiers)
COLLECTIONS = (
    ("cr/cube/matrix/measure.py", "SecondOrderMeasures", "SecondOrderMeasures"),
    ("cr/cube/matrix/measure.py", "_BaseSecondOrderMeasure", "BaseSecondOrderMeasure"),
    ("cr/cube/matrix/cubemeasure.py", "CubeMeasures", "MatrixCubeMeasures"),
    ("cr/cube/stripe/measure.py", "StripeMeasures", "StripeMeasures"),
    ("cr/cube/stripe/measure.py", "_BaseSecondOrderMeasure", "StripeBaseSecondOrderMeasure"),
    ("cr/cube/stripe/cubemeasure.py", "CubeMeasures", "StripeCubeMeasures"),
)
# classes read as PLAIN statement lists, dunder methods included: the caching rule every property of a
# partition goes through (C18: a value is computed on first access and then cached - None never is)
PLAIN = (("cr/cube/util.py", "lazyproperty", "lazyproperty"),)

Unavailable = T.Unavailable
_un = T._un
q = T.q

BINOPS = {ast.Add: "+", ast.Sub: "-", ast.Mult: "*", ast.Div: "/", ast.FloorDiv: "//", ast.Mod: "%",
          ast.Pow: "**", ast.MatMult: "@", ast.BitAnd: "&", ast.BitOr: "|", ast.BitXor: "^"}
UNOPS = {ast.Not: "not", ast.USub: "-", ast.UAdd: "+", ast.Invert: "~"}
CMPOPS = {ast.Eq: "==", ast.NotEq: "!=", ast.Lt: "<", ast.LtE: "<=", ast.Gt: ">", ast.GtE: ">=",
          ast.Is: "is", ast.IsNot: "is not", ast.In: "in", ast.NotIn: "not in"}


def ident(cname, mname):
    return "wsrc_%s_%s" % (cname.lstrip("_"), mname)


# ------------------------------------------------------------------------------------
# printing
# ------------------------------------------------------------------------------------


def p_list(items):
    return "[" + "; ".join(items) + "]"


def p_w(t):
    k = t[0]
    if k in ("WNone", "WTrue", "WFalse", "WNaN"):
        return k
    if k == "WInt":
        return "WInt (%d)%%Z" % t[1]
    if k in ("WFloat", "WStr", "WVar", "WSelf", "WGlobal", "WRaise"):
        return "%s %s" % (k, q(t[1]))
    if k == "WAttr":
        return "WAttr (%s) %s" % (p_w(t[1]), q(t[2]))
    if k == "WCall":
        return "WCall (%s) %s %s" % (
            p_w(t[1]), p_list([p_w(a) for a in t[2]]),
            p_list(["(%s, %s)" % (q(n), p_w(v)) for n, v in t[3]]))
    if k == "WIndex":
        return "WIndex (%s) %s" % (p_w(t[1]), p_list([p_w(a) for a in t[2]]))
    if k == "WSlice":
        return "WSlice (%s) (%s)" % (p_w(t[1]), p_w(t[2]))
    if k in ("WBin", "WCmp"):
        return "%s %s (%s) (%s)" % (k, q(t[1]), p_w(t[2]), p_w(t[3]))
    if k == "WUn":
        return "WUn %s (%s)" % (q(t[1]), p_w(t[2]))
    if k == "WBoolOp":
        return "WBoolOp %s %s" % (q(t[1]), p_list([p_w(a) for a in t[2]]))
    if k == "WIf":
        return "WIf (%s) (%s) (%s)" % (p_w(t[1]), p_w(t[2]), p_w(t[3]))
    if k in ("WTuple", "WList"):
        return "%s %s" % (k, p_list([p_w(a) for a in t[1]]))
    if k == "WDict":
        return "WDict %s" % p_list(["(%s, %s)" % (p_w(a), p_w(b)) for a, b in t[1]])
    if k == "WComp":
        gens = ["(%s, %s, %s)" % (p_list([q(v) for v in vs]), p_w(it), p_list([p_w(c) for c in cs]))
                for vs, it, cs in t[3]]
        return "WComp %s (%s) %s" % (q(t[1]), p_w(t[2]), p_list(gens))
    if k == "WLambda":
        return "WLambda %s (%s)" % (p_list([q(v) for v in t[1]]), p_w(t[2]))
    if k == "WTryValueError":
        return "WTryValueError (%s) %s" % (p_w(t[1]), q(t[2]))
    if k == "WSetNan":
        return "WSetNan (%s) %s (%s)" % (p_w(t[1]), p_list([p_w(a) for a in t[2]]), p_w(t[3]))
    raise AssertionError(t)


# ------------------------------------------------------------------------------------
# reading
# ------------------------------------------------------------------------------------


def _is_nan(node):
    return (isinstance(node, ast.Attribute) and isinstance(node.value, ast.Name)
            and node.value.id == "np" and node.attr == "nan")


class _W(object):
    def __init__(self, params):
        self.params = set(params)

    # ---- expressions -------------------------------------------------------------
    def expr(self, n, env, bound):
        """env: local name -> term (inlined); bound: comprehension / lambda variables"""
        if isinstance(n, ast.Constant):
            v = n.value
            if v is None:
                return ("WNone",)
            if v is True:
                return ("WTrue",)
            if v is False:
                return ("WFalse",)
            if isinstance(v, int):
                return ("WInt", v)
            if isinstance(v, float):
                return ("WFloat", repr(v))
            if isinstance(v, str):
                if not all(32 <= ord(c) < 127 for c in v):
                    _un("non-ASCII string literal", n)
                return ("WStr", v)
            _un("constant of unsupported type", n)
        if isinstance(n, ast.Name):
            if n.id in bound:
                return ("WVar", n.id)
            if n.id in env:
                return env[n.id]
            if n.id == "self" or n.id in self.params:
                return ("WVar", n.id)
            return ("WGlobal", n.id)
        if isinstance(n, ast.Attribute):
            if _is_nan(n):
                return ("WNaN",)
            if isinstance(n.value, ast.Name) and n.value.id == "self" and "self" not in bound:
                return ("WSelf", n.attr)
            return ("WAttr", self.expr(n.value, env, bound), n.attr)
        if isinstance(n, ast.Call):
            args = []
            for a in n.args:
                if isinstance(a, ast.Starred):
                    _un("starred argument", n)
                args.append(self.expr(a, env, bound))
            kws = []
            for kw in n.keywords:
                if kw.arg is None:
                    _un("**kwargs", n)
                kws.append((kw.arg, self.expr(kw.value, env, bound)))
            return ("WCall", self.expr(n.func, env, bound), args, kws)
        if isinstance(n, ast.Subscript):
            sl = n.slice
            items = sl.elts if isinstance(sl, ast.Tuple) else [sl]
            return ("WIndex", self.expr(n.value, env, bound), [self.index(i, env, bound) for i in items])
        if isinstance(n, ast.BinOp):
            if type(n.op) not in BINOPS:
                _un("binary operator", n)
            return ("WBin", BINOPS[type(n.op)], self.expr(n.left, env, bound), self.expr(n.right, env, bound))
        if isinstance(n, ast.UnaryOp):
            if type(n.op) not in UNOPS:
                _un("unary operator", n)
            if isinstance(n.op, ast.USub) and isinstance(n.operand, ast.Constant) \
                    and isinstance(n.operand.value, int) and not isinstance(n.operand.value, bool):
                return ("WInt", -n.operand.value)
            return ("WUn", UNOPS[type(n.op)], self.expr(n.operand, env, bound))
        if isinstance(n, ast.BoolOp):
            return ("WBoolOp", "and" if isinstance(n.op, ast.And) else "or",
                    [self.expr(v, env, bound) for v in n.values])
        if isinstance(n, ast.Compare):
            # a < b < c  ==  (a < b) and (b < c)   (operands are pure here)
            parts = []
            left = n.left
            for op, right in zip(n.ops, n.comparators):
                if type(op) not in CMPOPS:
                    _un("comparison operator", n)
                parts.append(("WCmp", CMPOPS[type(op)], self.expr(left, env, bound), self.expr(right, env, bound)))
                left = right
            return parts[0] if len(parts) == 1 else ("WBoolOp", "and", parts)
        if isinstance(n, ast.IfExp):
            return ("WIf", self.expr(n.test, env, bound), self.expr(n.body, env, bound),
                    self.expr(n.orelse, env, bound))
        if isinstance(n, ast.Tuple):
            return ("WTuple", [self.expr(e, env, bound) for e in n.elts])
        if isinstance(n, ast.List):
            return ("WList", [self.expr(e, env, bound) for e in n.elts])
        if isinstance(n, ast.Dict):
            if any(k is None for k in n.keys):
                _un("dict unpacking", n)
            return ("WDict", [(self.expr(k, env, bound), self.expr(v, env, bound))
                              for k, v in zip(n.keys, n.values)])
        if isinstance(n, (ast.GeneratorExp, ast.ListComp, ast.SetComp)):
            kind = {ast.GeneratorExp: "gen", ast.ListComp: "list", ast.SetComp: "set"}[type(n)]
            gens = []
            b = set(bound)
            for g in n.generators:
                if g.is_async:
                    _un("async comprehension", n)
                it = self.expr(g.iter, env, b)
                vs = self.targets(g.target)
                b = b | set(vs)
                gens.append((vs, it, [self.expr(c, env, b) for c in g.ifs]))
            return ("WComp", kind, self.expr(n.elt, env, b), gens)
        if isinstance(n, ast.Lambda):
            a = n.args
            if a.vararg or a.kwarg or a.kwonlyargs or a.defaults or a.posonlyargs:
                _un("lambda with non-plain parameters", n)
            ps = [x.arg for x in a.args]
            return ("WLambda", ps, self.expr(n.body, env, set(bound) | set(ps)))
        _un("expression outside the sub-language", n)

    def index(self, n, env, bound):
        if isinstance(n, ast.Slice):
            if n.step is not None:
                _un("slice with a step", n)
            lo = ("WNone",) if n.lower is None else self.expr(n.lower, env, bound)
            hi = ("WNone",) if n.upper is None else self.expr(n.upper, env, bound)
            return ("WSlice", lo, hi)
        return self.expr(n, env, bound)

    def targets(self, t):
        if isinstance(t, ast.Name):
            return [t.id]
        if isinstance(t, ast.Tuple) and all(isinstance(e, ast.Name) for e in t.elts):
            return [e.id for e in t.elts]
        _un("comprehension target", t)

    # ---- statements --------------------------------------------------------------
    def body(self, stmts, env):
        stmts = list(stmts)
        if not stmts:
            _un("control falls off the end of the member")
        s, rest = stmts[0], stmts[1:]
        if isinstance(s, ast.Expr) and isinstance(s.value, ast.Constant) and isinstance(s.value.value, str):
            return self.body(rest, env)
        if isinstance(s, ast.Return):
            if s.value is None:
                return ("WNone",)
            return self.expr(s.value, env, set())
        if isinstance(s, ast.Raise):
            e = s.exc
            if isinstance(e, ast.Call) and isinstance(e.func, ast.Name):
                return ("WRaise", e.func.id)
            if isinstance(e, ast.Name):
                return ("WRaise", e.id)
            _un("raise of an unsupported shape", s)
        if isinstance(s, ast.Assign):
            if len(s.targets) != 1 or not isinstance(s.targets[0], ast.Name):
                _un("assignment to something other than one local name", s)
            env2 = dict(env)
            env2[s.targets[0].id] = self.expr(s.value, env, set())
            return self.body(rest, env2)
        if isinstance(s, ast.With):
            ok = (len(s.items) == 1 and s.items[0].optional_vars is None
                  and isinstance(s.items[0].context_expr, ast.Call)
                  and ast.unparse(s.items[0].context_expr.func) == "np.errstate")
            if not ok:
                _un("with statement other than np.errstate", s)
            return self.body(list(s.body) + rest, env)
        if isinstance(s, ast.If):
            # `if g: x[idx] = np.nan` on a local
            if (not s.orelse and len(s.body) == 1 and isinstance(s.body[0], ast.Assign)
                    and len(s.body[0].targets) == 1 and isinstance(s.body[0].targets[0], ast.Subscript)
                    and isinstance(s.body[0].targets[0].value, ast.Name)
                    and s.body[0].targets[0].value.id in env and _is_nan(s.body[0].value)):
                tgt = s.body[0].targets[0]
                sl = tgt.slice
                items = sl.elts if isinstance(sl, ast.Tuple) else [sl]
                env2 = dict(env)
                env2[tgt.value.id] = ("WSetNan", env[tgt.value.id],
                                      [self.index(i, env, set()) for i in items],
                                      self.expr(s.test, env, set()))
                return self.body(rest, env2)
            c = self.expr(s.test, env, set())
            if self.returns(s.body):
                a = self.body(s.body, env)
                b = self.body(list(s.orelse) + rest if not self.returns(s.orelse) else s.orelse, env) \
                    if (s.orelse or rest) else _un("if without continuation", s)
                if s.orelse and self.returns(s.orelse) and rest:
                    _un("unreachable statements after if/else", s)
                return ("WIf", c, a, b)
            _un("if whose body does not return", s)
        if isinstance(s, ast.Try):
            ok = (not rest and not s.orelse and not s.finalbody and len(s.handlers) == 1
                  and isinstance(s.handlers[0].type, ast.Name) and s.handlers[0].type.id == "ValueError"
                  and s.handlers[0].name is None and len(s.handlers[0].body) == 1
                  and isinstance(s.handlers[0].body[0], ast.Raise)
                  and isinstance(s.handlers[0].body[0].exc, ast.Call)
                  and isinstance(s.handlers[0].body[0].exc.func, ast.Name)
                  and s.handlers[0].body[0].exc.func.id == "ValueError"
                  and len(s.handlers[0].body[0].exc.args) == 1
                  and isinstance(s.handlers[0].body[0].exc.args[0], ast.Constant)
                  and isinstance(s.handlers[0].body[0].exc.args[0].value, str))
            if not ok:
                _un("try statement other than `except ValueError: raise ValueError(<literal>)`", s)
            msg = s.handlers[0].body[0].exc.args[0].value
            if not all(32 <= ord(ch) < 127 for ch in msg):
                _un("non-ASCII message", s)
            # the message text is not part of the term (no property speaks about it)
            return ("WTryValueError", self.body(s.body, env), "")
        _un("statement outside the sub-language", s)

    def returns(self, stmts):
        """does this block always end in return / raise (syntactically)?"""
        if not stmts:
            return False
        last = stmts[-1]
        if isinstance(last, (ast.Return, ast.Raise)):
            return True
        if isinstance(last, ast.If):
            return self.returns(last.body) and self.returns(last.orelse)
        if isinstance(last, ast.Try):
            return self.returns(last.body)
        if isinstance(last, ast.With):
            return self.returns(last.body)
        return False


def read_member_plain(fn):
    """A member as a plain statement list (no inlining of locals): used for util.lazyproperty, whose
    `__get__` assigns inside an `if` that does not return.  Statement s is
      x = e            -> WCall (WGlobal "__assign__") [x; e]          (x a name or a subscript / attribute)
      return e         -> WCall (WGlobal "__return__") [e]
      raise E(..)      -> WRaise "E"
      if c: A else: B  -> WIf c (WList A) (WList B)
      <expression>     -> itself
    and the member is the WList of its statements."""
    a = fn.args
    if a.vararg or a.kwarg or a.kwonlyargs or a.posonlyargs:
        _un("parameters other than plain positional ones")
    params = [x.arg for x in a.args]
    w = _W(params)
    loc = set(params)

    def target(t):
        if isinstance(t, ast.Name):
            loc.add(t.id)
            return ("WVar", t.id)
        return w.expr(t, {}, loc)

    def stmt(st):
        if isinstance(st, ast.Expr) and isinstance(st.value, ast.Constant) and isinstance(st.value.value, str):
            return None
        if isinstance(st, ast.Assign):
            if len(st.targets) != 1:
                _un("multiple assignment targets", st)
            v = w.expr(st.value, {}, loc)
            return ("WCall", ("WGlobal", "__assign__"), [target(st.targets[0]), v], [])
        if isinstance(st, ast.Return):
            return ("WCall", ("WGlobal", "__return__"),
                    [("WNone",) if st.value is None else w.expr(st.value, {}, loc)], [])
        if isinstance(st, ast.Raise):
            e = st.exc
            if isinstance(e, ast.Call) and isinstance(e.func, ast.Name):
                return ("WRaise", e.func.id)
            if isinstance(e, ast.Name):
                return ("WRaise", e.id)
            _un("raise of an unsupported shape", st)
        if isinstance(st, ast.If):
            return ("WIf", w.expr(st.test, {}, loc), ("WList", block(st.body)), ("WList", block(st.orelse)))
        if isinstance(st, ast.Expr):
            return w.expr(st.value, {}, loc)
        _un("statement outside the plain sub-language", st)

    def block(stmts):
        out = []
        for st in stmts:
            t = stmt(st)
            if t is not None:
                out.append(t)
        return out

    term = ("WList", block(fn.body))
    if a.defaults:
        ds = [w.expr(d, {}, set()) for d in a.defaults]
        names = params[len(params) - len(ds):]
        term = ("WCall", ("WGlobal", "__defaults__"), [term], list(zip(names, ds)))
    return term


def read_member(fn):
    a = fn.args
    if a.vararg or a.kwarg or a.kwonlyargs or a.posonlyargs:
        _un("parameters other than plain positional ones")
    params = [x.arg for x in a.args]
    # `self` / `cls` stay free names of the term; defaults are part of it
    w = _W(params)
    term = w.body(fn.body, {})
    if a.defaults:
        ds = [w.expr(d, {}, set()) for d in a.defaults]
        names = params[len(params) - len(ds):]
        term = ("WCall", ("WGlobal", "__defaults__"), [term], list(zip(names, ds)))
    return term


def members(repo_src):
    """[(display class name, identifier class name, FunctionDef)] of every member read, in file order;
    raises OSError / SyntaxError when a file cannot be read"""
    out = []
    texts = {}
    plan = [(M_CUBEPART, c, c.lstrip("_")) for c in CLASSES] + list(COLLECTIONS) + list(PLAIN)
    plain = set((r, c) for r, c, _i in PLAIN)
    for rel, cname, iname in plan:
        if rel not in texts:
            with open(os.path.join(repo_src, rel), encoding="utf-8") as f:
                texts[rel] = (f.read(), None)
            texts[rel] = (texts[rel][0], ast.parse(texts[rel][0]))
        found = False
        for node in texts[rel][1].body:
            if isinstance(node, ast.ClassDef) and node.name == cname:
                found = True
                for fn in node.body:
                    if not isinstance(fn, ast.FunctionDef):
                        continue
                    if (rel, cname) in plain:
                        fn._plain = True
                        out.append((iname, iname, fn))
                    elif not (fn.name.startswith("__") and fn.name.endswith("__")):
                        out.append((cname if rel == M_CUBEPART else iname, iname, fn))
        if not found:
            raise OSError("class %s not found in %s" % (cname, rel))
    return out, dict((k, v[0]) for k, v in texts.items())


def generate_all(repo_src, report):
    ms, texts = members(repo_src)
    for rel, text in texts.items():
        report["files"]["src/" + rel] = T._sha(text)
    L = [
        "(* GENERATED by harness/translate/x_wiring.py (%s) from src/%s and the measure collections of" % (VERSION, M_CUBEPART),
        "   matrix/measure.py, matrix/cubemeasure.py, stripe/measure.py, stripe/cubemeasure.py - do not edit. *)",
        "From Coq Require Import List ZArith String.",
        "From CC Require Import Base.WiringExp.",
        "Import ListNotations.",
        "Local Open Scope string_scope.",
        "",
    ]
    last = None
    for dname, iname, fn in ms:
        if dname != last:
            L.append("(* ---- class %s ---- *)" % dname)
            last = dname
        idn = "wsrc_%s_%s" % (iname, fn.name.strip("_") if getattr(fn, "_plain", False) else fn.name)
        what = "%s.%s" % (dname, fn.name)
        try:
            term = "Some (%s)" % p_w(read_member_plain(fn) if getattr(fn, "_plain", False) else read_member(fn))
            report["methods_translated"].append("wiring:" + what)
        except Unavailable as ex:
            term = "None"
            report.setdefault("wiring_unread", []).append({"method": "wiring:" + what, "reason": str(ex)})
        L.append("Definition %s : option wexp := %s." % (idn, term))
    L.append("")
    return "\n".join(L) + "\n"


def regenerate(repo_src, gen_dir, report):
    out = generate_all(repo_src, report)
    changed = T._write_if_changed(os.path.join(gen_dir, "WiringSrc.v"), out)
    report["gen_files"]["Gen/WiringSrc.v"] = {"sha256": T._sha(out), "rewritten": changed}
    report["wiring_version"] = VERSION
