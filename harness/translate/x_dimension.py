"""Source translator for src/cr/cube/dimension.py -> coq/Gen/DimensionSrc.v   (workstream `dimension`).

SHALLOW translation (the technique of x_collator.py): every member named in SIGS is read with `ast` through
a WHITELIST and written out as a Gallina FUNCTION built only from the fixed library of Python-semantics
combinators of coq/Base/PyList.v, coq/Base/PyDict.v (JSON-ish values `jv`) and coq/Model/PyDimension.v
(operations that raise, try / except, the Python objects as records).  Anything outside the whitelist makes
THAT member `None` (+ `NOTE translator-unavailable`), and every member that reads it `None` too; nothing is
guessed or repaired.

    Definition src_<Class>_<member> : option (<self record> -> <params> -> res <result>) :=
      match src_<Class'>_<dep> with Some m_<Class'>_<dep> => ...      (the members it reads)
        Some (fun self <params> => <body>)
      | None => None end.

Every member is monadic (`res`): d[k], d.get on a value that need not be a dict, `in`, iteration, int(),
str(), .lower() .. are sequenced with `bind` in Python's evaluation order; `a or b` / `a and b` / conditional
expressions evaluate lazily; loops are `py_foldM` over the locals they change; comprehensions whose parts may
raise are `py_compM`; `try` bodies are wrapped statement by statement so that the handler sees the locals as
they are when the exception is raised.  The embedding is BY VALUE: an in-place change (item assignment,
append, pop) is only expressible on an object the function created itself and has not shared since; on
anything else it is the outcome `Err MutatesCaller`, which no agreement lemma can equate with a model result.

The translator is TYPE-directed by its signature table (what a member takes / returns); bodies and the
wiring between members come from the source.  JSON values are `jv` (dynamic); Python ints the function
computes itself are `Z`, tuples / lists of known element type are lists, dicts it builds are
insertion-ordered association lists.

Proofs/GenAgreeDimension*.v prove, for all inputs, that each generated function is the corresponding
definition of Model/Collator.v (first part), Model/SubtotalIds.v, Model/Shim.v, Spec/OrderSpec.v /
Model/SortKeys.v (order spec).
"""
import ast
import os

from harness.translate import translate as T

VERSION = "x_dimension.py/2"
SRC = "cr/cube/dimension.py"
ENUMS = "cr/cube/enums.py"
GEN_FILES = ("DimensionSrc.v",)
MODNAME = "dimension"

TRUSTED_BASE = (
    "the members of dimension.py named by the C04_gen_dim_* / C07_gen_dim_* / C08_gen_dim_* / C09_gen_dim_* / "
    "C19_gen_dim_* theorems are tied to the source text by the SHALLOW whitelist translator "
    "harness/translate/x_dimension.py: what is trusted is its reading of Python into the combinators of "
    "Base/PyList.v + Base/PyDict.v + Model/PyDimension.v (JSON values as the type jv: None / bool / int / str / "
    "float / list / dict, == by value with True == 1, dicts as insertion-ordered association lists with hashable "
    "keys; strings ASCII; exceptions as the res monad in Python's evaluation order with lazily evaluated `or` / "
    "`and` / conditional expressions; loops as folds over the locals they change; the embedding is by value, an "
    "in-place change of an object the function did not create is the outcome MutatesCaller; str() of a float / "
    "list / dict, int() of a float, `+` on numbers / strings, iteration over a str are NOT modelled - the outcome "
    "Unmodelled, about which no lemma says anything), its per-member signature table (types only; bodies and the "
    "wiring between members come from the source), the reading of an object as the record of what its __init__ "
    "stores (Element's label formatter and Dimension._element_data_format are opaque; Dimension._dimension_dict / "
    "_dimension_transforms_dict are read as attributes: they are the outputs of _ElementIdShim), and the "
    "abstraction functions of Proofs/GenAgreeDimension*.v from JSON values to the records of the hand-written "
    "models (insdict_of / ins_of: an insertion dict -> Model/SubtotalIds.v insdict / Model/Collator.v insertion; "
    "item_of / adim_of: an array dimension's elements -> Model/Shim.v adim; xf_rel: a transforms dict -> Shim.xf; "
    "order_of / seq_field / fixed_field: the order dict; dim_reads / dim_abs / ax_abs: a Dimension object -> "
    "Model/Collator.v dimension)")


class Unavailable(Exception):
    pass


def _un(msg, node=None):
    if node is not None and hasattr(node, "lineno"):
        msg = "%s (line %d)" % (msg, node.lineno)
    raise Unavailable(msg)


# ------------------------------------------------------------------------------------------------
# types
# ------------------------------------------------------------------------------------------------
JV = ("jv",)
Z = ("Z",)
BOOL = ("bool",)
STR = ("str",)
DT = ("dt",)
OPAQUE = ("opaque",)
ANY = ("any",)
NONE = ("none",)          # the constant None (a jv when it is used as a value)
ENUMV = ("enumv",)        # a member of an enum.Enum class: its value string
ELEMENT = ("obj", "Element")
XFORMS = ("obj", "_ElementTransforms")
SUBTOTAL = ("obj", "_Subtotal")
SUBTOTALS = ("obj", "_Subtotals")
DIMENSION = ("obj", "Dimension")
ORDERSPEC = ("obj", "_OrderSpec")
SHIM = ("obj", "_ElementIdShim")


def L(t):
    return ("list", t)


def SET(t):
    return ("set", t)


def D(k, v):
    return ("dict", k, v)


def TUP(*ts):
    return ("tup", tuple(ts))


ELEMENTS = L(ELEMENT)
JDICT = D(JV, JV)

_COQ_ATOM = {"jv": "jv", "Z": "Z", "bool": "bool", "str": "string", "dt": "dtype", "opaque": "unit",
             "enumv": "string", "none": "jv"}
# class -> (record type, constructor, ((python attribute, projection, type), ...) in constructor order)
CLASSES = {
    "_ElementTransforms": ("pyxforms", "mkPyXforms", (("_element_transforms_dict", "xf_element_transforms_dict", JV),)),
    "Element": ("pyelement", "mkPyElement", (
        ("_element_dict", "el_element_dict", JV), ("_index", "el_index", Z),
        ("_element_transforms", "el_element_transforms", XFORMS), ("_label_formatter", None, OPAQUE),
        ("_dim_type", "el_dim_type", DT))),
    "_Subtotal": ("pysubtotal", "mkPySubtotal", (
        ("_subtotal_dict", "st_subtotal_dict", JV), ("_valid_elements", "st_valid_elements", ELEMENTS))),
    "_Subtotals": ("pysubtotals", "mkPySubtotals", (
        ("_insertion_dicts", "ss_insertion_dicts", JV), ("_valid_elements", "ss_valid_elements", ELEMENTS),
        ("_from_view", "ss_from_view", BOOL))),
    "Dimension": ("pydimension", "mkPyDimension", (
        ("dimension_type", "dm_dimension_type", DT), ("_dimension_dict", "dm_dimension_dict", JV),
        ("_dimension_transforms_dict", "dm_dimension_transforms_dict", JV))),
    "_OrderSpec": ("pyorderspec", "mkPyOrderSpec", (
        ("_dimension", "os_dimension", DIMENSION),
        ("_dimension_transforms_dict", "os_dimension_transforms_dict", JV))),
    "_ElementIdShim": ("pyshim", "mkPyShim", (
        ("dimension_type", "sh_dimension_type", DT), ("_dimension_dict", "sh_dimension_dict", JV),
        ("_dimension_transforms_dict", "sh_dimension_transforms_dict", JV))),
}
# classes whose objects are plain sequences of their items
SEQ_CLASSES = {"Elements": ELEMENTS}
# attributes of an object that are NOT stored by the __init__ read here but are read as if they were
# (documented in TRUSTED_BASE): the two shimmed dicts of a Dimension
CUT_ATTRS = {"Dimension": ("_dimension_dict", "_dimension_transforms_dict")}
# attributes that are opaque values (may only be passed on)
OPAQUE_ATTRS = {("Dimension", "_element_data_format")}


def self_type(cname):
    if cname in SEQ_CLASSES:
        return SEQ_CLASSES[cname]
    return ("obj", cname)


def coq_ty(t):
    k = t[0]
    if k in _COQ_ATOM:
        return _COQ_ATOM[k]
    if k == "obj":
        return CLASSES[t[1]][0]
    if k in ("list", "set"):
        return "list (%s)" % coq_ty(t[1])
    if k == "dict":
        return "list (%s * %s)" % (coq_ty(t[1]), coq_ty(t[2]))
    if k == "tup":
        return "(%s)" % " * ".join(coq_ty(x) for x in t[1])
    _un("type without Coq rendering: %r" % (t,))


def eqb_of(t):
    k = t[0]
    if k == "Z":
        return "Z.eqb"
    if k in ("str", "enumv"):
        return "String.eqb"
    if k == "jv":
        return "jv_eqb"
    if k == "bool":
        return "Bool.eqb"
    if k == "dt":
        return "dtype_eqb"
    _un("no equality for type %r" % (t,))


def has_any(t):
    if t == ANY:
        return True
    if t[0] in ("list", "set"):
        return has_any(t[1])
    if t[0] == "dict":
        return has_any(t[1]) or has_any(t[2])
    if t[0] == "tup":
        return any(has_any(x) for x in t[1])
    return False


def join(a, b):
    if a == b:
        return a
    if a == ANY:
        return b
    if b == ANY:
        return a
    if a == NONE and b == JV or a == JV and b == NONE:
        return JV
    if a[0] == b[0] and a[0] in ("list", "set"):
        return (a[0], join(a[1], b[1]))
    if a[0] == b[0] == "dict":
        return ("dict", join(a[1], b[1]), join(a[2], b[2]))
    if a[0] == b[0] == "tup" and len(a[1]) == len(b[1]):
        return ("tup", tuple(join(x, y) for x, y in zip(a[1], b[1])))
    _un("types do not agree: %r / %r" % (a, b))


def to_jv(term, frm):
    """term of static type frm as a JSON value, or None when there is no such reading"""
    if frm in (JV, NONE):
        return term
    if frm == Z:
        return "(JInt %s)" % term
    if frm in (STR, ENUMV):
        return "(JStr %s)" % term
    if frm == BOOL:
        return "(JBool %s)" % term
    if frm[0] == "list":
        if frm[1] == ANY or frm[1] == JV:
            return "(JList %s)" % term
        inner = to_jv("x_", frm[1])
        if inner is None:
            return None
        return "(JList (map (fun x_ => %s) %s))" % (inner, term)
    if frm[0] == "dict":
        if (frm[1] in (JV, ANY)) and (frm[2] in (JV, ANY)):
            return "(JDict %s)" % term
        k = to_jv("(fst x_)", frm[1])
        v = to_jv("(snd x_)", frm[2])
        if k is None or v is None:
            return None
        return "(JDict (map (fun x_ => (%s, %s)) %s))" % (k, v, term)
    return None


def coerce(term, frm, to):
    """term of type frm used where `to` is expected"""
    if to is None or to == ANY or frm == to:
        return term, frm
    if frm == ANY:
        return term, to
    if to == JV:
        t = to_jv(term, frm)
        if t is not None:
            return t, JV
    if frm[0] == "list" and to[0] == "list":
        if frm[1] == ANY:
            return term, to
        if to[1] == JV:
            inner = to_jv("x_", frm[1])
            if inner is not None:
                return "(map (fun x_ => %s) %s)" % (inner, term), to
    if frm[0] == "dict" and to == JDICT:
        k = to_jv("(fst x_)", frm[1])
        v = to_jv("(snd x_)", frm[2])
        if frm[1] in (JV, ANY) and frm[2] in (JV, ANY):
            return term, to
        if k is not None and v is not None:
            return "(map (fun x_ => (%s, %s)) %s)" % (k, v, term), to
    try:
        return term, join(frm, to)
    except Unavailable:
        _un("a value of type %r is used where %r is expected" % (frm, to))


# ------------------------------------------------------------------------------------------------
# signatures: (class, member) -> (parameters after self / cls, result type); every member is monadic
# ------------------------------------------------------------------------------------------------
SIGS = {
    ("", "_build_element_id"): ((("element_dict", JV), ("dimension_type", DT)), JV),
    ("", "_formatter"): ((("dimension_type", DT), ("typedef", JV), ("out_format", OPAQUE)), OPAQUE),
    # Elements
    ("Elements", "element_ids"): ((), L(JV)),
    ("Elements", "valid_elements"): ((), ELEMENTS),
    ("Elements", "from_typedef"): ((("typedef", JV), ("dimension_transforms_dict", JV), ("dimension_type", DT),
                                    ("element_data_format", OPAQUE)), ELEMENTS),
    ("Elements", "_hidden_transforms"): ((("element_defs", JV), ("insertions", JV)), JDICT),
    # Element / _ElementTransforms
    ("Element", "element_id"): ((), JV),
    ("Element", "missing"): ((), BOOL),
    ("Element", "is_hidden"): ((), JV),
    ("Element", "numeric_value"): ((), JV),
    ("Element", "derived"): ((), JV),
    ("Element", "anchor"): ((), JV),
    ("_ElementTransforms", "hide"): ((), JV),
    # _Subtotal
    ("_Subtotal", "anchor"): ((), JV),
    ("_Subtotal", "addend_ids"): ((), L(JV)),
    ("_Subtotal", "addend_idxs"): ((), L(Z)),
    ("_Subtotal", "insertion_id"): ((), JV),
    ("_Subtotal", "is_difference"): ((), BOOL),
    ("_Subtotal", "subtrahend_ids"): ((), L(JV)),
    ("_Subtotal", "subtrahend_idxs"): ((), L(Z)),
    # _Subtotals
    ("_Subtotals", "bogus_ids"): ((), L(JV)),
    ("_Subtotals", "insertion_ids"): ((), L(JV)),
    ("_Subtotals", "_element_ids"): ((), SET(JV)),
    ("_Subtotals", "_iter_valid_subtotal_dicts"): ((), L(JV)),
    ("_Subtotals", "_position_crosswalk"): ((("subtotal_dicts", L(JV)),), D(Z, Z)),
    ("_Subtotals", "_subtotals"): ((), L(SUBTOTAL)),
    ("_Subtotals", "_valid_subtotal_dicts_with_ids"): ((), L(JV)),
    # Dimension
    ("Dimension", "all_elements"): ((), ELEMENTS),
    ("Dimension", "valid_elements"): ((), ELEMENTS),
    ("Dimension", "element_ids"): ((), L(JV)),
    ("Dimension", "hidden_idxs"): ((), L(Z)),
    ("Dimension", "insertion_ids"): ((), L(JV)),
    ("Dimension", "numeric_values"): ((), L(JV)),
    ("Dimension", "order_spec"): ((), ORDERSPEC),
    ("Dimension", "prune"): ((), BOOL),
    ("Dimension", "subtotals"): ((), SUBTOTALS),
    ("Dimension", "subtotals_in_payload_order"): ((), SUBTOTALS),
    ("Dimension", "_view_insertion_dicts"): ((), JV),
    # _OrderSpec
    ("_OrderSpec", "_order_dict"): ((), JV),
    ("_OrderSpec", "bottom_fixed_ids"): ((), L(JV)),
    ("_OrderSpec", "top_fixed_ids"): ((), L(JV)),
    ("_OrderSpec", "collation_method"): ((), ENUMV),
    ("_OrderSpec", "descending"): ((), BOOL),
    ("_OrderSpec", "element_id"): ((), JV),
    ("_OrderSpec", "element_ids"): ((), L(JV)),
    ("_OrderSpec", "insertion_id"): ((), JV),
    ("_OrderSpec", "marginal"): ((), ENUMV),
    ("_OrderSpec", "marginal_keyname"): ((), JV),
    ("_OrderSpec", "measure"): ((), ENUMV),
    ("_OrderSpec", "measure_keyname"): ((), JV),
    # _ElementIdShim
    ("_ElementIdShim", "_subvar_aliases"): ((), L(JV)),
    ("_ElementIdShim", "_subvar_ids"): ((), L(JV)),
    ("_ElementIdShim", "_raw_element_ids"): ((), L(JV)),
    ("_ElementIdShim", "_has_mr_insertion"): ((), BOOL),
    ("_ElementIdShim", "_element_values_dict"): ((), JDICT),
    ("_ElementIdShim", "translate_element_id"): ((("_id", JV),), JV),
    ("_ElementIdShim", "_replaced_element_transforms"): ((("element_transforms", JV),), JV),
    ("_ElementIdShim", "_replaced_order_element_ids"): ((("element_ids", JV),), JV),
    ("_ElementIdShim", "shimmed_dimension_transforms_dict"): ((), JV),
}
# parameters of the constructors are typed by the attribute they are stored in; defaults are read from the source
INIT_CLASSES = tuple(CLASSES)
# `for x in <object>` / `tuple(<object>)`: the member the class's __iter__ delegates to
ITER_MEMBER = {"_Subtotals": "_subtotals"}
# enum.Enum classes of enums.py (aliases under which dimension.py imports them are read from its imports)
ENUM_CLASSES = ("COLLATION_METHOD", "MARGINAL", "MEASURE")
DT_SETS = ("ARRAY_TYPES", "SHIMMED_TYPES")
DT_MEMBERS = ("BINNED_NUMERIC", "CAT", "CAT_DATE", "CA_CAT", "CA_SUBVAR", "DATETIME", "LOGICAL", "MR_CAT",
              "MR_SUBVAR", "NUM_ARRAY", "TEXT")


def lname(n):
    return "_" if n == "_" else "l_" + n


def _is_str_const(n):
    return isinstance(n, ast.Constant) and isinstance(n.value, str)


def _coq_string(s):
    if not all(32 <= ord(c) < 127 for c in s) or '"' in s:
        _un("string constant outside printable ASCII")
    return '"%s"%%string' % s


def ident_of(cname, member):
    return "src_%s_%s" % (cname if cname else "fn", member)


def mname_of(cname, member):
    return "m_%s_%s" % (cname if cname else "fn", member)


# ------------------------------------------------------------------------------------------------
# the source modules
# ------------------------------------------------------------------------------------------------
class _Module(object):
    def __init__(self, text):
        tree = ast.parse(text)
        self.classes = {}
        self.functions_ = {}
        self.enum_alias = {}     # local name -> enums.py class name
        self.toplevel_names = set()
        self.opaque_imports = set()   # names imported from .util (formatters) and functools.partial
        self.str_dicts = {}           # module-level NAME = {"k": "v", ..}
        for n in tree.body:
            if isinstance(n, ast.ClassDef):
                self.classes[n.name] = n
                self.toplevel_names.add(n.name)
            elif isinstance(n, ast.FunctionDef):
                self.functions_[n.name] = n
                self.toplevel_names.add(n.name)
            elif isinstance(n, ast.ImportFrom) and n.module == "cr.cube.enums" and n.level == 0:
                for a in n.names:
                    self.enum_alias[a.asname or a.name] = a.name
            elif isinstance(n, ast.ImportFrom) and ((n.module == "util" and n.level == 1)
                                                    or (n.module == "functools" and n.level == 0)):
                for a in n.names:
                    if a.asname is None and a.name in ("format", "format_datetime", "partial"):
                        self.opaque_imports.add(a.name)
            elif isinstance(n, (ast.Assign, ast.AnnAssign)):
                tg = n.targets if isinstance(n, ast.Assign) else [n.target]
                for t in tg:
                    for x in ast.walk(t):
                        if isinstance(x, ast.Name):
                            if x.id in self.toplevel_names:
                                self.str_dicts.pop(x.id, None)
                                self.toplevel_names.add(x.id + "#twice")
                            self.toplevel_names.add(x.id)
                if isinstance(n, ast.Assign) and len(n.targets) == 1 and isinstance(n.targets[0], ast.Name) \
                        and isinstance(n.value, ast.Dict) and n.value.keys \
                        and all(k is not None and _is_str_const(k) for k in n.value.keys) \
                        and all(_is_str_const(v) for v in n.value.values) \
                        and (n.targets[0].id + "#twice") not in self.toplevel_names:
                    self.str_dicts[n.targets[0].id] = [(k.value, v.value) for k, v in zip(n.value.keys, n.value.values)]
        # a module-level re-binding of an imported enum alias would change what the alias means
        for a in self.enum_alias:
            if a in self.toplevel_names:
                self.enum_alias = {}
                break
        for a in list(self.opaque_imports):
            if a in self.toplevel_names:
                self.opaque_imports.discard(a)

    def functions(self, cname):
        return [n for n in self.classes[cname].body if isinstance(n, ast.FunctionDef)]

    def bases(self, cname):
        c = self.classes[cname]
        out = []
        for b in c.bases:
            if isinstance(b, ast.Name):
                out.append(b.id)
            else:
                _un("class %s: bases not read" % cname)
        return out

    def resolve(self, cname, member):
        """FunctionDef of `member` of class `cname` (no inheritance between the classes read here, except
        from tuple / Sequence / object, which define none of the members read)"""
        if cname == "":
            fn = self.functions_.get(member)
            return fn
        if cname not in self.classes:
            return None
        for b in self.bases(cname):
            if b not in ("tuple", "Sequence", "object"):
                _un("class %s: base class %s not read" % (cname, b))
        defs = [f for f in self.functions(cname) if f.name == member]
        if len(defs) > 1:
            _un("%s.%s defined twice" % (cname, member))
        # a class attribute of that name assigned in the class body would shadow / be shadowed: refuse
        for n in self.classes[cname].body:
            if isinstance(n, (ast.Assign, ast.AnnAssign)):
                tg = n.targets if isinstance(n, ast.Assign) else [n.target]
                for t in tg:
                    if isinstance(t, ast.Name) and t.id == member:
                        _un("%s.%s is also assigned in the class body" % (cname, member))
        return defs[0] if defs else None


def _decorator_kind(fn):
    if not fn.decorator_list:
        return "plain"
    if len(fn.decorator_list) != 1 or not isinstance(fn.decorator_list[0], ast.Name):
        _un("decorators of %s not read" % fn.name)
    d = fn.decorator_list[0].id
    if d in ("lazyproperty", "property"):
        return "lazy"
    if d == "staticmethod":
        return "static"
    if d == "classmethod":
        return "class"
    _un("decorator @%s of %s not read" % (d, fn.name))


class _Enums(object):
    """enums.py: DIMENSION_TYPE members / subsets, the enum.Enum classes (member -> value)"""

    def __init__(self, text):
        tree = ast.parse(text)
        self.classes = {n.name: n for n in tree.body if isinstance(n, ast.ClassDef)}

    def dt_members(self):
        """{name: canonical member name} incl. aliases"""
        c = self.classes.get("DIMENSION_TYPE")
        if c is None:
            _un("enums.DIMENSION_TYPE not found")
        out = {}
        for n in c.body:
            if isinstance(n, ast.Assign) and len(n.targets) == 1 and isinstance(n.targets[0], ast.Name):
                name, v = n.targets[0].id, n.value
                if isinstance(v, ast.Call) and isinstance(v.func, ast.Name) and v.func.id == "_DimensionType" \
                        and len(v.args) == 1 and _is_str_const(v.args[0]) and not v.keywords:
                    if v.args[0].value != name or name not in DT_MEMBERS or name in out:
                        _un("DIMENSION_TYPE.%s: member not read" % name)
                    out[name] = name
                elif isinstance(v, ast.Name) and v.id in out:
                    if name in out:
                        _un("DIMENSION_TYPE.%s bound twice" % name)
                    out[name] = out[v.id]
                elif name in DT_SETS or isinstance(v, ast.Call):
                    if name in out:
                        _un("DIMENSION_TYPE.%s bound twice" % name)
                else:
                    _un("DIMENSION_TYPE.%s: binding not read" % name)
        return out

    def dt_set(self, name):
        c = self.classes.get("DIMENSION_TYPE")
        members = self.dt_members()
        found = None
        for n in c.body:
            if isinstance(n, ast.Assign) and len(n.targets) == 1 and isinstance(n.targets[0], ast.Name) \
                    and n.targets[0].id == name:
                if found is not None:
                    _un("DIMENSION_TYPE.%s bound twice" % name)
                v = n.value
                if not (isinstance(v, ast.Call) and isinstance(v.func, ast.Name) and v.func.id == "frozenset"
                        and len(v.args) == 1 and not v.keywords and isinstance(v.args[0], (ast.Tuple, ast.List))):
                    _un("DIMENSION_TYPE.%s is no frozenset((..))" % name)
                items = []
                for e in v.args[0].elts:
                    if not (isinstance(e, ast.Name) and e.id in members):
                        _un("DIMENSION_TYPE.%s: item not read" % name)
                    items.append(members[e.id])
                found = items
        if found is None:
            _un("DIMENSION_TYPE.%s not found" % name)
        return found

    def enum_members(self, cname):
        """[(MEMBER, value)] of an enum.Enum class whose members are string constants"""
        c = self.classes.get(cname)
        if c is None:
            _un("enums.%s not found" % cname)
        if not (len(c.bases) == 1 and isinstance(c.bases[0], ast.Attribute) and c.bases[0].attr == "Enum"
                and isinstance(c.bases[0].value, ast.Name) and c.bases[0].value.id == "enum"):
            _un("enums.%s is no enum.Enum" % cname)
        out = []
        for n in c.body:
            if isinstance(n, ast.Expr) and _is_str_const(n.value):
                continue
            if isinstance(n, ast.Assign) and len(n.targets) == 1 and isinstance(n.targets[0], ast.Name) \
                    and _is_str_const(n.value):
                if any(n.targets[0].id == m or n.value.value == v for m, v in out):
                    _un("enums.%s: member / value twice" % cname)
                out.append((n.targets[0].id, n.value.value))
                continue
            if isinstance(n, ast.FunctionDef) and n.name == "has_value":
                # return value in cls._value2member_map_
                ok = (_decorator_kind(n) == "class" and [a.arg for a in n.args.args] == ["cls", "value"]
                      and len(n.body) == 1 and isinstance(n.body[0], ast.Return)
                      and isinstance(n.body[0].value, ast.Compare) and len(n.body[0].value.ops) == 1
                      and isinstance(n.body[0].value.ops[0], ast.In)
                      and isinstance(n.body[0].value.left, ast.Name) and n.body[0].value.left.id == "value"
                      and isinstance(n.body[0].value.comparators[0], ast.Attribute)
                      and n.body[0].value.comparators[0].attr == "_value2member_map_"
                      and isinstance(n.body[0].value.comparators[0].value, ast.Name)
                      and n.body[0].value.comparators[0].value.id == "cls")
                if not ok:
                    _un("enums.%s.has_value not read" % cname)
                continue
            _un("enums.%s: class body statement not read" % cname)
        return out

    def has_has_value(self, cname):
        c = self.classes.get(cname)
        return c is not None and any(isinstance(n, ast.FunctionDef) and n.name == "has_value" for n in c.body)


# ------------------------------------------------------------------------------------------------
# one member
# ------------------------------------------------------------------------------------------------
class _Var(object):
    def __init__(self, ty, coq, fresh=False, alias=None):
        # fresh: bound to an object this function created and has not stored / passed on / re-named since
        # alias: (root variable, (key terms ..)): this fresh dict is also reachable as root[k1][k2]..
        self.ty, self.coq, self.fresh, self.alias = ty, coq, fresh, alias
        self.fresh_keys = set()   # keys k for which self[k] is a dict this function created and has not shared


def _monadic(binds):
    return any(k == "bind" for k, _, _ in binds)


class _Member(object):
    def __init__(self, reg, cname, name, fn, kind, sig):
        self.reg, self.cname, self.name, self.fn, self.kind = reg, cname, name, fn, kind
        self.params, self.ret = sig
        self.deps = []
        self.ntemp = 0
        self.in_gen = 0
        self.ret_wrap = []      # stack: how a `return` is rendered inside try / blocks with an outcome
        self.loop_k = []        # stack: where `continue` goes

    # -- plumbing ------------------------------------------------------------------------------
    def fresh(self):
        self.ntemp += 1
        return "t%d" % self.ntemp

    @staticmethod
    def wrap(binds, body):
        for kind, pat, term in reversed(binds):
            if kind == "bind":
                body = "(bind %s (fun %s => %s))" % (term, pat, body)
            else:
                body = "(let %s := %s in %s)" % (pat, term, body)
        return body

    def mwrap(self, binds, term):
        """monadic term: binds, then Ok term"""
        return self.wrap(binds, "(Ok %s)" % term)

    def dep(self, cname, name):
        info = self.reg.get(cname, name)  # raises Unavailable if that member is unavailable
        key = (cname, name)
        if key not in self.deps:
            self.deps.append(key)
        return info

    def dep_const(self, ident_):
        """a generated constant (DT subset, enum table) this member reads"""
        self.reg.const(ident_)
        key = ("#", ident_)
        if key not in self.deps:
            self.deps.append(key)
        return "c_" + ident_

    def atom(self, b, t, ty):
        """make `t` a variable (so that it can be mentioned several times)"""
        if t.isidentifier() or (t.startswith("l_") and t.replace("_", "").isalnum()):
            return b, t
        n = self.fresh()
        return b + [("let", n, t)], n

    # -- patterns --------------------------------------------------------------------------------
    def pattern(self, target, ty, env):
        if isinstance(target, ast.Name):
            if target.id in ("self", "cls", "yield"):
                _un("assignment to `%s`" % target.id, target)
            if target.id != "_":
                env[target.id] = _Var(ty, lname(target.id))
            return lname(target.id), False
        if isinstance(target, ast.Tuple):
            if ty[0] != "tup" or len(ty[1]) != len(target.elts):
                _un("tuple target does not fit the element type %r" % (ty,), target)
            parts = [self.pattern(t, x, env)[0] for t, x in zip(target.elts, ty[1])]
            return "(%s)" % ", ".join(parts), True
        _un("assignment target not read", target)

    @staticmethod
    def binder(pat, is_tuple):
        return "'" + pat if is_tuple else pat

    # -- expressions -----------------------------------------------------------------------------
    def tr(self, e, env, exp=None):
        b, t, ty = self._tr(e, env, exp)
        if exp is not None:
            t, ty = coerce(t, ty, exp)
        return b, t, ty

    def tr_jv(self, e, env):
        return self.tr(e, env, JV)

    def escape(self, e, env):
        """the value of `e` is stored / passed on: a fresh local loses the right to be changed in place"""
        if isinstance(e, ast.Name) and e.id in env:
            env[e.id].fresh = False
            env[e.id].alias = None

    def _tr(self, e, env, exp):
        if isinstance(e, ast.Name):
            if e.id in env:
                v = env[e.id]
                return [], v.coq, v.ty
            so = self.self_object(e, env)
            if so is not None:
                return [], so[0], so[1]
            if e.id in self.reg.mod.opaque_imports and e.id != "partial":
                return [], "tt", OPAQUE
            _un("name `%s` not read" % e.id, e)
        if isinstance(e, ast.Constant):
            if e.value is None:
                return [], "JNone", NONE
            if isinstance(e.value, bool):
                return [], "true" if e.value else "false", BOOL
            if isinstance(e.value, int):
                return [], "(%d)" % e.value, Z
            if isinstance(e.value, str):
                return [], _coq_string(e.value), STR
            _un("constant %r not read" % (e.value,), e)
        if isinstance(e, ast.Attribute):
            return self.attribute(e, env)
        if isinstance(e, ast.Tuple):
            return self.tuple_(e, env, exp)
        if isinstance(e, ast.List):
            return self.list_(e, env, exp)
        if isinstance(e, ast.Dict):
            return self.dict_(e, env)
        if isinstance(e, ast.BinOp):
            return self.binop(e, env)
        if isinstance(e, ast.UnaryOp):
            if isinstance(e.op, ast.USub) and isinstance(e.operand, ast.Constant) \
                    and isinstance(e.operand.value, int) and not isinstance(e.operand.value, bool):
                return [], "(-%d)" % e.operand.value, Z
            if isinstance(e.op, ast.Not):
                b, t = self.truth(e.operand, env)
                return b, "(negb %s)" % t, BOOL
            _un("unary operator not read", e)
        if isinstance(e, ast.BoolOp):
            return self.boolop(e, env, exp)
        if isinstance(e, ast.Compare):
            return self.compare(e, env)
        if isinstance(e, ast.IfExp):
            return self.ifexp(e, env, exp)
        if isinstance(e, ast.Call):
            return self.call(e, env, exp)
        if isinstance(e, (ast.GeneratorExp, ast.ListComp)):
            return self.comp(e.elt, e.generators, env, exp[1] if exp and exp[0] == "list" else None)
        if isinstance(e, ast.DictComp):
            return self.dictcomp(e, env)
        if isinstance(e, ast.Subscript):
            return self.subscript(e, env)
        if isinstance(e, ast.JoinedStr):
            return self.fstring(e, env)
        _un("expression %s not read" % type(e).__name__, e)

    # f"ins_{x}": a bogus id; it is the value x (the prefix is checked here)
    def fstring(self, e, env):
        v = e.values
        if len(v) == 2 and _is_str_const(v[0]) and v[0].value == "ins_" and isinstance(v[1], ast.FormattedValue) \
                and v[1].conversion == -1 and v[1].format_spec is None:
            b, t, ty = self.tr_jv(v[1].value, env)
            return b, t, JV
        _un("f-string other than f\"ins_{..}\"", e)

    def self_object(self, v, env):
        """`self` in a method / property: (term, type)"""
        if isinstance(v, ast.Name) and v.id == "self" and "self" not in env and self.kind in ("lazy", "plain") \
                and self.cname and self.name != "__init__":
            return "self", self_type(self.cname)
        return None

    def enum_class(self, v, env):
        if isinstance(v, ast.Name) and v.id not in env and v.id in self.reg.mod.enum_alias:
            return self.reg.mod.enum_alias[v.id]
        return None

    def attribute(self, e, env):
        v = e.value
        ec = self.enum_class(v, env)
        if ec == "DIMENSION_TYPE":
            if e.attr in DT_SETS:
                c = self.dep_const("DT_" + e.attr)
                return [], c, SET(DT)
            members = self.reg.enums.dt_members()
            if e.attr in members:
                return [], "DT_" + members[e.attr], DT
            _un("DIMENSION_TYPE.%s" % e.attr, e)
        if ec in ENUM_CLASSES:
            for m, val in self.reg.enums.enum_members(ec):
                if m == e.attr:
                    return [], _coq_string(val), ENUMV
            _un("%s.%s" % (ec, e.attr), e)
        if isinstance(v, ast.Name) and v.id == "np" and e.attr == "nan" and "np" not in env:
            return [], "(JFloat NaN)", JV
        so = self.self_object(v, env)
        if so is not None:
            b, t, ty = [], so[0], so[1]
        else:
            b, t, ty = self.tr(v, env)
        return self.getattr_(b, t, ty, e.attr, e)

    def getattr_(self, b, t, ty, attr, node):
        """<t : ty>.attr"""
        cname = None
        if ty[0] == "obj":
            cname = ty[1]
            for pyattr, proj, fty in CLASSES[cname][2]:
                if pyattr == attr:
                    if proj is None:
                        return b, "tt", OPAQUE
                    self.reg.check_field(cname, attr)
                    return b, "(%s %s)" % (proj, t), fty
            if (cname, attr) in OPAQUE_ATTRS:
                return b, "tt", OPAQUE
        else:
            for sc, sty in SEQ_CLASSES.items():
                if sty == ty:
                    cname = sc
        if cname is not None and (cname, attr) in SIGS:
            info = self.dep(cname, attr)
            if info["kind"] != "lazy":
                _un("%s.%s is a method, read as an attribute" % (cname, attr), node)
            n = self.fresh()
            return b + [("bind", n, "(%s %s)" % (mname_of(cname, attr), t))], n, info["ret"]
        _un("attribute .%s of a %r not read" % (attr, ty), node)

    def tuple_(self, e, env, exp):
        return self.list_(e, env, exp)

    def list_(self, e, env, exp):
        if not e.elts:
            return [], "[]", L(ANY)
        want = exp[1] if exp is not None and exp[0] == "list" else None
        binds, terms, ty = [], [], ANY
        for el in e.elts:
            if isinstance(el, ast.Starred):
                _un("starred item in a display", el)
            b, t, ty1 = self.tr(el, env, want)
            self.escape(el, env)
            binds += b
            terms.append((t, ty1))
            if ty1 == NONE:
                ty1 = JV
            try:
                ty = join(ty, ty1)
            except Unavailable:
                ty = JV
        out = []
        for t, ty1 in terms:
            t2, _ = coerce(t, ty1, ty)
            out.append(t2)
        return binds, "[%s]" % "; ".join(out), L(ty)

    def dict_(self, e, env):
        """{} / {k: v, ..} with constant keys / {**a, **b} / {**a, k: v}"""
        if not e.keys:
            return [], "[]", D(ANY, ANY)
        binds = []
        cur = None
        for k, v in zip(e.keys, e.values):
            if k is None:
                b, t, ty = self.tr(v, env)
                binds += b
                if ty == JV:
                    n = self.fresh()
                    binds.append(("bind", n, "(pj_mapping %s)" % t))
                    t = n
                elif ty[0] == "dict":
                    t, _ = coerce(t, ty, JDICT)
                else:
                    _un("** of a %r" % (ty,), v)
                cur = t if cur is None else "(jd_update %s %s)" % (cur, t)
            else:
                bk, tk, tyk = self.tr_jv(k, env)
                if not isinstance(k, ast.Constant):
                    n = self.fresh()
                    bk = bk + [("bind", n, "(pj_key %s)" % tk)]
                    tk = n
                bv, tv, tyv = self.tr_jv(v, env)
                self.escape(v, env)
                binds += bk + bv
                cur = "(jd_set %s %s %s)" % ("[]" if cur is None else cur, tk, tv)
        return binds, cur, JDICT

    def binop(self, e, env):
        bl, tl, tyl = self.tr(e.left, env)
        br, tr_, tyr = self.tr(e.right, env)
        if isinstance(e.op, ast.Add):
            if tyl[0] == "list" and tyr[0] == "list":
                ty = join(tyl, tyr)
                return bl + br, "(%s ++ %s)" % (tl, tr_), ty
            if tyl == Z and tyr == Z:
                return bl + br, "(%s + %s)" % (tl, tr_), Z
            if JV in (tyl, tyr):
                tl, _ = coerce(tl, tyl, JV)
                tr_, _ = coerce(tr_, tyr, JV)
                n = self.fresh()
                return bl + br + [("bind", n, "(pj_add %s %s)" % (tl, tr_))], n, JV
        if isinstance(e.op, ast.Sub) and tyl == Z and tyr == Z:
            return bl + br, "(%s - %s)" % (tl, tr_), Z
        _un("binary operator on %r and %r not read" % (tyl, tyr), e)

    def truth_of(self, t, ty, node=None):
        if ty == BOOL:
            return t
        if ty in (JV, NONE):
            return "(jv_truthy %s)" % t
        if ty[0] in ("list", "set", "dict"):
            return "(py_truthy %s)" % t
        if ty == Z:
            return "(negb (Z.eqb %s 0))" % t
        if ty in (STR, ENUMV):
            return "(negb (String.eqb %s \"\"%%string))" % t
        _un("truth value of a %r" % (ty,), node)

    def truth(self, e, env):
        b, t, ty = self.tr(e, env)
        return b, self.truth_of(t, ty, e)

    def lazy(self, e, env, exp=None):
        """an expression that is evaluated only on one path: (binds, term, type), env changes are not kept"""
        return self.tr(e, env, exp)

    def boolop(self, e, env, exp):
        """a or b / a and b: the value of the deciding operand; later operands are evaluated lazily"""
        is_or = isinstance(e.op, ast.Or)
        parts = [self.tr(v, env) for v in e.values]
        tys = [p[2] for p in parts]
        if all(t == BOOL for t in tys):
            ty = BOOL
        else:
            ty = None
            for t in tys:
                t = JV if t == NONE else t
                if ty is None:
                    ty = t
                else:
                    try:
                        ty = join(ty, t)
                    except Unavailable:
                        ty = JV
        if exp is not None and exp != ty and not (ty[0] == "list" and exp[0] == "list"):
            # the operands are coerced one by one (e.g. `x.get(..) or []` used as a jv)
            try:
                for b, t, t0 in parts:
                    coerce(t, t0, exp)
                ty = exp
            except Unavailable:
                pass
        parts = [(b, coerce(t, t0, ty)[0]) for b, t, t0 in parts]
        b0, t0 = parts[0]
        b0, t0 = self.atom(b0, t0, ty) if len(parts) > 1 else (b0, t0)
        # build from the right
        bN, tN = parts[-1]
        mon = any(_monadic(b) for b, _ in parts[1:])
        acc = self.mwrap(bN, tN) if mon else self.wrap(bN, tN)
        for b, t in reversed(parts[1:-1]):
            b, t = self.atom(b, t, ty)
            c = self.truth_of(t, ty, e)
            inner = "(if %s then %s else %s)" % ((c, "(Ok %s)" % t if mon else t, acc) if is_or
                                                   else (c, acc, "(Ok %s)" % t if mon else t))
            acc = self.wrap(b, inner)
        c = self.truth_of(t0, ty, e)
        if is_or:
            term = "(if %s then %s else %s)" % (c, "(Ok %s)" % t0 if mon else t0, acc)
        else:
            term = "(if %s then %s else %s)" % (c, acc, "(Ok %s)" % t0 if mon else t0)
        if mon:
            n = self.fresh()
            return b0 + [("bind", n, term)], n, ty
        return b0, term, ty

    def effects_only(self, e, env):
        """binds of evaluating a condition whose VALUE is not needed (its operands may be opaque)"""
        if isinstance(e, ast.BoolOp):
            out = []
            for i, v in enumerate(e.values):
                b = self.effects_only(v, env)
                if i > 0 and _monadic(b):
                    _un("a lazily evaluated operand that may raise, in a condition whose value is opaque", e)
                out += b
            return out
        b, t, ty = self.tr(e, env)
        return b

    def ifexp(self, e, env, exp):
        # <opaque> if <cond> else <opaque>: an opaque value whatever the condition says (only its effects count)
        try:
            o1 = self.tr(e.body, self._fork(env))
            o2 = self.tr(e.orelse, self._fork(env))
            if o1[2] == OPAQUE and o2[2] == OPAQUE and not _monadic(o1[0]) and not _monadic(o2[0]):
                return self.effects_only(e.test, env), "tt", OPAQUE
        except Unavailable:
            pass
        bc, tc = self.truth(e.test, env)
        b1, t1, ty1 = self.lazy(e.body, env, exp)
        b2, t2, ty2 = self.lazy(e.orelse, env, exp)
        try:
            ty = join(JV if ty1 == NONE else ty1, JV if ty2 == NONE else ty2)
        except Unavailable:
            ty = JV
        t1, _ = coerce(t1, ty1, ty)
        t2, _ = coerce(t2, ty2, ty)
        if _monadic(b1) or _monadic(b2):
            n = self.fresh()
            term = "(if %s then %s else %s)" % (tc, self.mwrap(b1, t1), self.mwrap(b2, t2))
            return bc + [("bind", n, term)], n, ty
        return bc, "(if %s then %s else %s)" % (tc, self.wrap(b1, t1), self.wrap(b2, t2)), ty

    def compare(self, e, env):
        if len(e.ops) != 1:
            _un("chained comparison", e)
        op, lhs, rhs = e.ops[0], e.left, e.comparators[0]
        if isinstance(op, (ast.Is, ast.IsNot)):
            if not isinstance(rhs, ast.Constant) or not (rhs.value is None or rhs.value is True or rhs.value is False):
                _un("`is` with something other than None / True / False", e)
            b, t, ty = self.tr(lhs, env)
            if ty not in (JV, NONE):
                _un("`is` on a %r" % (ty,), e)
            f = "jv_is_none" if rhs.value is None else "jv_is_true" if rhs.value is True else "jv_is_false"
            r = "(%s %s)" % (f, t)
            return b, r if isinstance(op, ast.Is) else "(negb %s)" % r, BOOL
        if isinstance(op, (ast.In, ast.NotIn)):
            bl, tl, tyl = self.tr(lhs, env)
            br, tr_, tyr = self.tr(rhs, env)
            binds = bl + br
            if tyr == JV:
                tl, _ = coerce(tl, tyl, JV)
                n = self.fresh()
                binds = binds + [("bind", n, "(pj_contains %s %s)" % (tl, tr_))]
                r = n
            elif tyr[0] in ("list", "set"):
                ety = tyr[1]
                if ety == ANY:
                    _un("`in` on a sequence of unknown item type", e)
                if tyl in (JV, NONE) and ety != JV:
                    tr_, _ = coerce(tr_, L(ety), L(JV))
                    ety = JV
                tl, _ = coerce(tl, tyl, ety)
                if tyr[0] == "set" and ety == JV:
                    n = self.fresh()
                    binds = binds + [("bind", n, "(pj_key %s)" % tl)]
                    tl = n
                r = "(PyList.py_in %s %s %s)" % (eqb_of(ety), tl, tr_)
            elif tyr[0] == "dict":
                kty = tyr[1]
                tl, _ = coerce(tl, tyl, kty)
                if kty == JV:
                    if tyr[2] != JV:   # pd_contains reads a jdict (JSON keys AND values): fail closed otherwise
                        _un("`in` on a dict with JSON keys whose values are %r" % (tyr[2],), e)
                    n = self.fresh()
                    binds = binds + [("bind", n, "(pd_contains %s %s)" % (tr_, tl))]
                    r = n
                else:
                    r = "(py_dict_mem %s %s %s)" % (eqb_of(kty), tr_, tl)
            else:
                _un("`in` on a %r" % (tyr,), e)
            return binds, r if isinstance(op, ast.In) else "(negb %s)" % r, BOOL
        if isinstance(op, (ast.Eq, ast.NotEq)):
            bl, tl, tyl = self.tr(lhs, env)
            br, tr_, tyr = self.tr(rhs, env)
            if tyl == tyr and tyl in (Z, STR, BOOL, DT, ENUMV, JV):
                ty = tyl
            elif JV in (tyl, tyr) or NONE in (tyl, tyr):
                tl, _ = coerce(tl, tyl, JV)
                tr_, _ = coerce(tr_, tyr, JV)
                ty = JV
            else:
                _un("== between %r and %r" % (tyl, tyr), e)
            r = "(%s %s %s)" % (eqb_of(ty), tl, tr_)
            return bl + br, r if isinstance(op, ast.Eq) else "(negb %s)" % r, BOOL
        cmpf = {ast.Lt: "Z.ltb", ast.LtE: "Z.leb", ast.Gt: "Z.gtb", ast.GtE: "Z.geb"}
        for k, f in cmpf.items():
            if isinstance(op, k):
                bl, tl, tyl = self.tr(lhs, env)
                br, tr_, tyr = self.tr(rhs, env)
                if tyl != Z or tyr != Z:
                    _un("order comparison between %r and %r" % (tyl, tyr), e)
                return bl + br, "(%s %s %s)" % (f, tl, tr_), BOOL
        _un("comparison operator not read", e)

    def subscript(self, e, env):
        bd, td, tyd = self.tr(e.value, env)
        if isinstance(e.slice, ast.Slice):
            _un("slice", e)
        if tyd == JV:
            bk, tk, _ = self.tr_jv(e.slice, env)
            n = self.fresh()
            return bd + bk + [("bind", n, "(pj_getitem %s %s)" % (td, tk))], n, JV
        if tyd[0] == "dict":
            if has_any(tyd):
                _un("subscript of a dict of unknown type", e)
            bk, tk, _ = self.tr(e.slice, env, tyd[1])
            n = self.fresh()
            if tyd[1] == JV:
                if tyd[2] != JV:   # pd_getitem reads a jdict: fail closed otherwise
                    _un("subscript of a dict with JSON keys whose values are %r" % (tyd[2],), e)
                return bd + bk + [("bind", n, "(pd_getitem %s %s)" % (td, tk))], n, tyd[2]
            return bd + bk + [("bind", n, "(py_dict_getitem %s %s %s)" % (eqb_of(tyd[1]), td, tk))], n, tyd[2]
        if tyd[0] == "list":
            bk, tk, tyk = self.tr(e.slice, env)
            n = self.fresh()
            if tyk == Z:
                return bd + bk + [("bind", n, "(pl_getitem %s %s)" % (td, tk))], n, tyd[1]
            if tyk == JV:
                return bd + bk + [("bind", n, "(pl_getitem_jv %s %s)" % (td, tk))], n, tyd[1]
            _un("sequence index of type %r" % (tyk,), e)
        _un("subscript of a %r" % (tyd,), e)

    # -- iteration / comprehensions -----------------------------------------------------------------
    def iter_of(self, e, env):
        """the items `for .. in e` walks over: (binds, list term, item type)"""
        if isinstance(e, (ast.GeneratorExp, ast.ListComp)):
            b, t, ty = self.comp(e.elt, e.generators, env, None)
            return b, t, ty[1]
        so = self.self_object(e, env)
        if so is not None:
            b, t, ty = [], so[0], so[1]
        else:
            b, t, ty = self.tr(e, env)
        return self.iter_value(b, t, ty, e)

    def iter_value(self, b, t, ty, node):
        if ty[0] in ("list",):
            if ty[1] == ANY:
                _un("iteration over a sequence of unknown item type", node)
            return b, t, ty[1]
        if ty == JV:
            n = self.fresh()
            return b + [("bind", n, "(pj_iter %s)" % t)], n, JV
        if ty[0] == "dict":
            return b, "(map fst %s)" % t, ty[1]
        if ty[0] == "obj" and ty[1] in ITER_MEMBER:
            self.reg.check_iter(ty[1])
            info = self.dep(ty[1], ITER_MEMBER[ty[1]])
            n = self.fresh()
            return b + [("bind", n, "(%s %s)" % (mname_of(ty[1], ITER_MEMBER[ty[1]]), t))], n, info["ret"][1]
        _un("iteration over a %r" % (ty,), node)

    def comp(self, elt, generators, env, exp_elem):
        if len(generators) != 1 or generators[0].is_async:
            _un("comprehension with several `for`", elt)
        g = generators[0]
        bi, ti, ity = self.iter_of(g.iter, env)
        env2 = self._fork(env)
        pat, is_t = self.pattern(g.target, ity, env2)
        bnd = self.binder(pat, is_t)
        conds = []
        for c in g.ifs:
            conds.append(self.truth(c, env2))
        be, te, tye = self.tr(elt, env2, exp_elem)
        if tye == NONE:
            te, tye = te, JV
        self.escape(elt, env2)
        if _monadic(be) or any(_monadic(b) for b, _ in conds):
            inner = self.wrap(be, "(Ok (Some %s))" % te)
            for b, c in reversed(conds):
                inner = self.wrap(b, "(if %s then %s else (Ok None))" % (c, inner))
            n = self.fresh()
            term = "(py_compM (fun %s => %s) %s)" % (bnd, inner, ti)
            return bi + [("bind", n, term)], n, L(tye)
        src = ti
        if conds:
            c = None
            for b, c1 in conds:
                c1 = self.wrap(b, c1)
                c = c1 if c is None else "(andb %s %s)" % (c, c1)
            src = "(filter (fun %s => %s) %s)" % (bnd, c, ti)
        body = self.wrap(be, te)
        if not is_t and body == pat:
            return bi, src, L(tye)
        return bi, "(map (fun %s => %s) %s)" % (bnd, body, src), L(tye)

    def dictcomp(self, e, env):
        if len(e.generators) != 1:
            _un("dict comprehension with several `for`", e)
        g = e.generators[0]
        bi, ti, ity = self.iter_of(g.iter, env)
        env2 = self._fork(env)
        pat, is_t = self.pattern(g.target, ity, env2)
        bnd = self.binder(pat, is_t)
        conds = [self.truth(c, env2) for c in g.ifs]
        bk, tk, tyk = self.tr(e.key, env2)
        bv, tv, tyv = self.tr(e.value, env2)
        self.escape(e.value, env2)
        if tyk == NONE:
            tyk = JV
        if tyv == NONE:
            tyv = JV
        if tyk == JV:
            n = self.fresh()
            # Python evaluates the key, then the value, then stores (hashing the key)
            store = [("bind", n, "(pj_key %s)" % tk)]
            tk2 = n
        else:
            store, tk2 = [], tk
        binds_item = bk + bv + store
        if _monadic(binds_item) or any(_monadic(b) for b, _ in conds):
            inner = self.wrap(binds_item, "(Ok (Some (%s, %s)))" % (tk2, tv))
            for b, c in reversed(conds):
                inner = self.wrap(b, "(if %s then %s else (Ok None))" % (c, inner))
            n2 = self.fresh()
            term = "(py_compM (fun %s => %s) %s)" % (bnd, inner, ti)
            return bi + [("bind", n2, term)], "(py_dict_of_pairs %s %s)" % (eqb_of(tyk), n2), D(tyk, tyv)
        src = ti
        if conds:
            c = None
            for b, c1 in conds:
                c1 = self.wrap(b, c1)
                c = c1 if c is None else "(andb %s %s)" % (c, c1)
            src = "(filter (fun %s => %s) %s)" % (bnd, c, ti)
        return bi, "(py_dict_of_pairs %s (map (fun %s => %s) %s))" % (
            eqb_of(tyk), bnd, self.wrap(binds_item, "(%s, %s)" % (tk2, tv)), src), D(tyk, tyv)

    def seq_arg(self, a, env, exp_elem=None):
        """argument of tuple() / list() / frozenset(): the list of its items"""
        if isinstance(a, (ast.GeneratorExp, ast.ListComp)):
            return self.comp(a.elt, a.generators, env, exp_elem)
        b, t, ity = self.iter_of(a, env)
        return b, t, L(ity)

    # -- calls ------------------------------------------------------------------------------------------
    def args_of(self, e, params, env, what):
        """positional / keyword arguments against a parameter list [(name, type, default term | None)]"""
        if any(isinstance(a, ast.Starred) for a in e.args) or any(k.arg is None for k in e.keywords):
            _un("%s: * / ** arguments" % what, e)
        if len(e.args) > len(params):
            _un("%s: too many arguments" % what, e)
        given = {}
        order = []
        for a, (pn, pty, _) in zip(e.args, params):
            given[pn] = a
            order.append(pn)
        for k in e.keywords:
            if k.arg in given or k.arg not in [p[0] for p in params]:
                _un("%s: keyword argument `%s`" % (what, k.arg), e)
            given[k.arg] = k.value
            order.append(k.arg)
        binds, terms = [], {}
        ptys = {p[0]: p[1] for p in params}
        for pn in order:  # Python evaluates the arguments in the order they are written
            b, t, _ = self.tr(given[pn], env, ptys[pn])
            self.escape(given[pn], env)
            b, t = self.atom(b, t, ptys[pn]) if len(order) > 1 and b else (b, t)
            binds += b
            terms[pn] = t
        out = []
        for pn, pty, dflt in params:
            if pn in terms:
                out.append(terms[pn])
            elif dflt is not None:
                out.append(dflt)
            else:
                _un("%s: no argument for `%s`" % (what, pn), e)
        return binds, out

    def call_member(self, cname, name, recv_binds, recv, e, env):
        info = self.dep(cname, name)
        params = [(p, t, None) for p, t in info["params"]]
        b, args = self.args_of(e, params, env, "%s.%s" % (cname, name))
        n = self.fresh()
        term = "(%s%s%s)" % (mname_of(cname, name), " " + recv if recv is not None else "",
                             "".join(" " + a for a in args))
        return recv_binds + b + [("bind", n, term)], n, info["ret"]

    def construct(self, cname, e, env):
        if cname in SEQ_CLASSES:
            if len(e.args) != 1 or e.keywords:
                _un("%s(..): one positional argument expected" % cname, e)
            b, t, ty = self.seq_arg(e.args[0], env, SEQ_CLASSES[cname][1])
            t, ty = coerce(t, ty, SEQ_CLASSES[cname])
            return b, t, ty
        info = self.dep(cname, "__init__")
        b, args = self.args_of(e, info["init_params"], env, "%s(..)" % cname)
        return b, "(%s %s)" % (mname_of(cname, "__init__"), " ".join(args)), ("obj", cname)

    def call(self, e, env, exp):
        f = e.func
        nargs = len(e.args)
        kw = {k.arg: k.value for k in e.keywords}
        if None in kw:
            _un("**kwargs", e)
        if any(isinstance(a, ast.Starred) for a in e.args):
            _un("*args", e)
        mod = self.reg.mod
        if isinstance(f, ast.Name) and f.id not in env:
            name = f.id
            if name in mod.classes:
                if name in CLASSES or name in SEQ_CLASSES:
                    return self.construct(name, e, env)
                _un("constructor %s(..) not read" % name, e)
            if name in mod.functions_:
                if ("", name) not in SIGS:
                    _un("module function %s not read" % name, e)
                return self.call_member("", name, [], None, e, env)
            if name == "cls" and self.kind == "class":
                return self.construct(self.cname, e, env)
            ec = self.enum_class(f, env)
            if ec in ENUM_CLASSES and nargs == 1 and not kw:
                b, t, _ = self.tr_jv(e.args[0], env)
                c = self.dep_const("ENUM_" + ec)
                n = self.fresh()
                return b + [("bind", n, "(pj_enum_call %s %s)" % (c, t))], n, ENUMV
            if name == "partial" and name in mod.opaque_imports:
                binds = []
                for a in list(e.args) + [k.value for k in e.keywords]:
                    b, t, ty = self.tr(a, env)
                    binds += b
                return binds, "tt", OPAQUE
            if name in mod.toplevel_names or name in mod.enum_alias:
                _un("call of module-level `%s` not read" % name, e)
            return self.builtin(name, e, env, exp, kw)
        if isinstance(f, ast.Attribute):
            return self.method_call(f, e, env, exp, kw)
        _un("call not read", e)

    def builtin(self, name, e, env, exp, kw):
        nargs = len(e.args)
        if name in ("tuple", "list") and not kw:
            if nargs == 0:
                return [], "[]", L(ANY)
            if nargs == 1:
                return self.seq_arg(e.args[0], env, exp[1] if exp and exp[0] == "list" else None)
        if name == "frozenset" and nargs == 1 and not kw:
            b, t, ty = self.seq_arg(e.args[0], env)
            if ty[1] == JV:
                n = self.fresh()
                return b + [("bind", n, "(pl_frozenset %s)" % t)], n, SET(JV)
            if ty[1] in (Z, STR, DT):
                return b, t, SET(ty[1])
            _un("frozenset() of a %r" % (ty,), e)
        if name == "len" and nargs == 1 and not kw:
            b, t, ty = self.tr(e.args[0], env)
            if ty[0] in ("list", "dict"):
                return b, "(py_len %s)" % t, Z
            if ty == JV:
                n = self.fresh()
                return b + [("bind", n, "(pj_len %s)" % t)], n, Z
            _un("len() of a %r" % (ty,), e)
        if name == "range" and nargs == 1 and not kw:
            b, t, _ = self.tr(e.args[0], env, Z)
            return b, "(py_range %s)" % t, L(Z)
        if name == "enumerate" and nargs == 1 and not kw:
            b, t, ity = self.iter_of(e.args[0], env)
            return b, "(py_enumerate %s)" % t, L(TUP(Z, ity))
        if name == "zip" and nargs == 2 and not kw:
            b1, t1, i1 = self.iter_of(e.args[0], env)
            b2, t2, i2 = self.iter_of(e.args[1], env)
            return b1 + b2, "(py_zip %s %s)" % (t1, t2), L(TUP(i1, i2))
        if name == "dict" and nargs == 1:
            b, t, ty = self.tr(e.args[0], env)
            if ty == JV:
                n = self.fresh()
                b = b + [("bind", n, "(pj_dict %s)" % t)]
                t = n
            elif ty[0] == "dict":
                t, _ = coerce(t, ty, JDICT)
            else:
                _un("dict() of a %r" % (ty,), e)
            for k, v in kw.items():
                bv, tv, _ = self.tr_jv(v, env)
                b += bv
                t = "(jd_set %s (JStr %s) %s)" % (t, _coq_string(k), tv)
            return b, t, JDICT
        if name == "int" and nargs == 1 and not kw:
            b, t, ty = self.tr(e.args[0], env)
            if ty == Z:
                return b, t, Z
            if ty in (JV, NONE):
                n = self.fresh()
                return b + [("bind", n, "(pj_int %s)" % t)], n, Z
            _un("int() of a %r" % (ty,), e)
        if name == "str" and nargs == 1 and not kw:
            b, t, ty = self.tr(e.args[0], env)
            if ty == Z:
                return b, "(dec %s)" % t, STR
            if ty == STR:
                return b, t, STR
            if ty in (JV, NONE):
                n = self.fresh()
                return b + [("bind", n, "(pj_str %s)" % t)], n, STR
            _un("str() of a %r" % (ty,), e)
        if name == "bool" and nargs == 1 and not kw:
            b, t = self.truth(e.args[0], env)
            return b, t, BOOL
        if name == "isinstance" and nargs == 2 and not kw and isinstance(e.args[1], ast.Name) \
                and e.args[1].id in ("dict", "str", "list") and e.args[1].id not in env \
                and e.args[1].id not in self.reg.mod.toplevel_names:
            b, t, ty = self.tr(e.args[0], env)
            if ty not in (JV, NONE):
                _un("isinstance() of a %r" % (ty,), e)
            return b, "(jv_is_%s %s)" % (e.args[1].id, t), BOOL
        if name in ("all", "any") and nargs == 1 and not kw and isinstance(e.args[0], (ast.GeneratorExp, ast.ListComp)):
            g = e.args[0]
            if len(g.generators) != 1 or g.generators[0].ifs:
                _un("%s(): generator with a condition / several `for`" % name, e)
            bi, ti, ity = self.iter_of(g.generators[0].iter, env)
            env2 = self._fork(env)
            pat, is_t = self.pattern(g.generators[0].target, ity, env2)
            bc, tc = self.truth(g.elt, env2)
            if isinstance(e.args[0], ast.ListComp) and _monadic(bc):
                _un("%s([..]) of a list whose items may raise" % name, e)  # no short circuit: not read
            if _monadic(bc):
                n = self.fresh()
                term = "(py_%sM (fun %s => %s) %s)" % (name, self.binder(pat, is_t), self.mwrap(bc, tc), ti)
                return bi + [("bind", n, term)], n, BOOL
            fn = "forallb" if name == "all" else "existsb"
            return bi, "(%s (fun %s => %s) %s)" % (fn, self.binder(pat, is_t), self.wrap(bc, tc), ti), BOOL
        _un("call of `%s` not read" % name, e)

    def method_call(self, f, e, env, exp, kw):
        o = f.value
        nargs = len(e.args)
        mod = self.reg.mod
        # np.fromiter(<generator>, dtype=np.int64)
        if isinstance(o, ast.Name) and o.id == "np" and "np" not in env and f.attr == "fromiter":
            d = kw.get("dtype")
            if nargs == 1 and set(kw) == {"dtype"} and isinstance(d, ast.Attribute) and d.attr == "int64" \
                    and isinstance(d.value, ast.Name) and d.value.id == "np":
                b, t, ty = self.seq_arg(e.args[0], env)
                if ty[1] != Z:
                    _un("np.fromiter(.., dtype=np.int64) of a %r" % (ty,), e)
                return b, t, L(Z)
            _un("np.fromiter(..) not read", e)
        # MODULE_LEVEL_STR_DICT.get(k)
        if isinstance(o, ast.Name) and o.id not in env and o.id in mod.str_dicts and f.attr == "get" \
                and nargs in (1, 2) and not kw:
            bk, tk, _ = self.tr_jv(e.args[0], env)
            if nargs == 2:
                bd, tdf, _ = self.tr_jv(e.args[1], env)
            else:
                bd, tdf = [], "JNone"
            c = self.dep_const("STRDICT_" + o.id)
            n = self.fresh()
            return bk + bd + [("bind", n, "(pj_strdict_get %s %s %s)" % (c, tk, tdf))], n, JV
        # Class.method(..) / cls.method(..) / EnumClass.has_value(x)
        ec = self.enum_class(o, env)
        if ec in ENUM_CLASSES and f.attr == "has_value" and nargs == 1 and not kw:
            if not self.reg.enums.has_has_value(ec):
                _un("%s.has_value not defined" % ec, e)
            b, t, _ = self.tr_jv(e.args[0], env)
            c = self.dep_const("ENUM_" + ec)
            n = self.fresh()
            return b + [("bind", n, "(pj_enum_has %s %s)" % (c, t))], n, BOOL
        target_cls = None
        if isinstance(o, ast.Name) and o.id not in env:
            if o.id in mod.classes:
                target_cls = o.id
            elif o.id == "cls" and self.kind == "class":
                target_cls = self.cname
        if target_cls is not None:
            if (target_cls, f.attr) not in SIGS:
                _un("%s.%s(..) not read" % (target_cls, f.attr), e)
            info = self.dep(target_cls, f.attr)
            if info["kind"] not in ("class", "static"):
                _un("%s.%s is no classmethod" % (target_cls, f.attr), e)
            return self.call_member(target_cls, f.attr, [], None, e, env)
        # {"a", "b"}.issubset(x)
        if isinstance(o, ast.Set) and f.attr == "issubset" and nargs == 1 and not kw:
            if not all(_is_str_const(x) for x in o.elts):
                _un("set display with items other than string constants", e)
            b, t, ity = self.iter_of(e.args[0], env)
            if ity != JV:
                _un("issubset() of a sequence of %r" % (ity,), e)
            ks = "[%s]" % "; ".join("JStr %s" % _coq_string(x.value) for x in o.elts)
            return b, "(forallb (fun k_ => jv_in k_ %s) %s)" % (t, ks), BOOL
        so = self.self_object(o, env)
        if so is not None:
            b, t, ty = [], so[0], so[1]
        else:
            b, t, ty = self.tr(o, env)
        # methods of the classes read here
        cname = ty[1] if ty[0] == "obj" else None
        for sc, sty in SEQ_CLASSES.items():
            if sty == ty:
                cname = sc
        if cname is not None and (cname, f.attr) in SIGS:
            info = self.dep(cname, f.attr)
            if info["kind"] != "plain":
                _un("%s.%s is not a method" % (cname, f.attr), e)
            return self.call_member(cname, f.attr, b, t, e, env)
        if ty in (Z, BOOL, STR):
            t, ty = coerce(t, ty, JV)
        if ty in (JV, NONE):
            if f.attr == "get" and nargs in (1, 2) and not kw:
                bk, tk, _ = self.tr_jv(e.args[0], env)
                if nargs == 2:
                    bd, tdf, _ = self.tr_jv(e.args[1], env)
                else:
                    bd, tdf = [], "JNone"
                n = self.fresh()
                return b + bk + bd + [("bind", n, "(pj_get %s %s %s)" % (t, tk, tdf))], n, JV
            simple = {"keys": ("pj_keys", L(JV)), "items": ("pj_items", L(TUP(JV, JV))), "lower": ("pj_lower", JV),
                      "isnumeric": ("pj_isnumeric", BOOL)}
            if f.attr in simple and nargs == 0 and not kw:
                fn, rty = simple[f.attr]
                n = self.fresh()
                return b + [("bind", n, "(%s %s)" % (fn, t))], n, rty
            _un("method .%s() of a JSON value not read" % f.attr, e)
        if ty[0] == "dict" and not has_any(ty):
            kty, vty = ty[1], ty[2]
            if f.attr == "get" and nargs in (1, 2) and not kw:
                bk, tk, _ = self.tr(e.args[0], env, kty)
                if nargs == 2:
                    bd, tdf, _ = self.tr(e.args[1], env, vty)
                elif vty == JV:
                    bd, tdf = [], "JNone"
                else:
                    _un(".get() without default on a dict of %r" % (vty,), e)
                if kty == JV:
                    if vty != JV:   # pd_get reads a jdict: fail closed otherwise
                        _un(".get() on a dict with JSON keys whose values are %r" % (vty,), e)
                    n = self.fresh()
                    return b + bk + bd + [("bind", n, "(pd_get %s %s %s)" % (t, tk, tdf))], n, vty
                return b + bk + bd, "(py_dict_get_default %s %s %s %s)" % (eqb_of(kty), t, tk, tdf), vty
            if f.attr == "keys" and nargs == 0 and not kw:
                return b, "(map fst %s)" % t, L(kty)
            if f.attr == "items" and nargs == 0 and not kw:
                return b, t, L(TUP(kty, vty))
        if ty[0] == "list" and f.attr == "index" and nargs == 1 and not kw and ty[1] == JV:
            ba, ta, _ = self.tr_jv(e.args[0], env)
            n = self.fresh()
            return b + ba + [("bind", n, "(pl_index %s %s)" % (t, ta))], n, Z
        if ty == SET(JV) and f.attr == "intersection" and nargs == 1 and not kw:
            ba, ta, _ = self.tr_jv(e.args[0], env)
            n = self.fresh()
            return b + ba + [("bind", n, "(pl_intersection %s %s)" % (t, ta))], n, SET(JV)
        _un("method .%s() of a %r not read" % (f.attr, ty), e)

    # -- statements ------------------------------------------------------------------------------
    @staticmethod
    def _is_doc(s):
        return isinstance(s, ast.Expr) and isinstance(s.value, ast.Constant) and isinstance(s.value.value, str)

    @staticmethod
    def _fork(env):
        out = {}
        for k, v in env.items():
            nv = _Var(v.ty, v.coq, v.fresh, v.alias)
            nv.fresh_keys = set(getattr(v, "fresh_keys", ()))
            out[k] = nv
        return out

    def retn(self, t):
        return "(Ok (inl %s))" % t if self.ret_wrap and self.ret_wrap[-1] == "inl" else "(Ok %s)" % t

    @staticmethod
    def _always_returns(stmts):
        if not stmts:
            return False
        s = stmts[-1]
        if isinstance(s, ast.Return):
            return True
        if isinstance(s, ast.If):
            return _Member._always_returns(s.body) and _Member._always_returns(s.orelse)
        if isinstance(s, ast.Try):
            return _Member._always_returns(s.body) and all(_Member._always_returns(h.body) for h in s.handlers) \
                and not s.orelse and not s.finalbody
        return False

    @staticmethod
    def _has_jump(stmts):
        """a return / continue / yield / try anywhere inside (so the block is not a plain state change)"""
        for s in stmts:
            for n in ast.walk(s):
                if isinstance(n, (ast.Return, ast.Continue, ast.Break, ast.Yield, ast.YieldFrom, ast.Try)):
                    return True
        return False

    def mutated(self, stmts, env):
        """names of env a block may rebind / change in place (sorted; `yield` first)"""
        out = []

        def add(n):
            if n in env and n not in out:
                out.append(n)

        def target_names(t):
            if isinstance(t, ast.Name):
                add(t.id)
            elif isinstance(t, ast.Tuple):
                for x in t.elts:
                    target_names(x)
            elif isinstance(t, ast.Subscript):
                r = t.value
                while isinstance(r, ast.Subscript):
                    r = r.value
                if isinstance(r, ast.Name):
                    add(r.id)
                    if r.id in env and env[r.id].alias is not None:
                        add(env[r.id].alias[0])
                else:
                    _un("assignment target not read", t)
            else:
                _un("assignment target not read", t)

        def walk(ss):
            for s in ss:
                if isinstance(s, (ast.Assign, ast.AnnAssign)):
                    tgs = s.targets if isinstance(s, ast.Assign) else [s.target]
                    if len(tgs) != 1:
                        _un("multiple assignment", s)
                    target_names(tgs[0])
                elif isinstance(s, ast.Expr) and isinstance(s.value, ast.Yield):
                    add("yield")
                elif isinstance(s, ast.Expr) and isinstance(s.value, ast.Call) \
                        and isinstance(s.value.func, ast.Attribute) and s.value.func.attr in ("append", "pop") \
                        and isinstance(s.value.func.value, ast.Name):
                    add(s.value.func.value.id)
                elif isinstance(s, ast.If):
                    walk(s.body)
                    walk(s.orelse)
                elif isinstance(s, ast.For):
                    target_names(s.target)
                    walk(s.body)
                elif isinstance(s, ast.Try):
                    walk(s.body)
                    for h in s.handlers:
                        walk(h.body)
                elif isinstance(s, (ast.Return, ast.Continue, ast.Expr, ast.Pass)):
                    pass
                else:
                    _un("statement %s not read" % type(s).__name__, s)

        walk(stmts)
        return [n for n in ("yield",) if n in out] + sorted(n for n in out if n != "yield")

    def state(self, names, env):
        pats = [env[n].coq for n in names]
        if not pats:
            return "_", "tt"
        if len(pats) == 1:
            return pats[0], pats[0]
        tup = "(%s)" % ", ".join(pats)
        return "'" + tup, tup

    def block(self, stmts, env, k):
        """Coq term (of type res <result>) for `stmts`, then k(env) when control falls off the end"""
        if not stmts:
            if k is None:
                _un("control reaches the end of the function without `return`")
            return k(env)
        s, rest = stmts[0], list(stmts[1:])
        if self._is_doc(s) or isinstance(s, ast.Pass):
            return self.block(rest, env, k)
        if isinstance(s, ast.Return):
            if rest:
                _un("statements after `return`", rest[0])
            if self.in_gen:
                _un("`return` in a generator", s)
            if s.value is None:
                b, t, ty = [], "JNone", NONE
                t, _ = coerce(t, ty, self.ret)
            else:
                b, t, _ = self.tr(s.value, env, self.ret)
            return self.wrap(b, self.retn(t))
        if isinstance(s, ast.Continue):
            if rest:
                _un("statements after `continue`", rest[0])
            if not self.loop_k or self.ret_wrap:
                _un("`continue` outside the body of a loop", s)
            return self.loop_k[-1](env)
        if isinstance(s, (ast.Assign, ast.AnnAssign)):
            return self.assign(s, rest, env, k)
        if isinstance(s, ast.Expr) and isinstance(s.value, ast.Yield):
            if not self.in_gen or s.value.value is None:
                _un("`yield` not read here", s)
            y = env["yield"]
            b, t, ty = self.tr(s.value.value, env)
            self.escape(s.value.value, env)
            y.ty = L(join(y.ty[1], ty))
            return self.wrap(b, "(let %s := (%s ++ [%s]) in %s)" % (y.coq, y.coq, t, self.block(rest, env, k)))
        if isinstance(s, ast.Expr) and isinstance(s.value, ast.Call):
            c = s.value
            if isinstance(c.func, ast.Attribute) and c.func.attr == "append" and isinstance(c.func.value, ast.Name) \
                    and len(c.args) == 1 and not c.keywords:
                return self.append(c, rest, env, k)
            _un("expression statement not read", s)
        if isinstance(s, ast.If):
            return self.if_(s, rest, env, k)
        if isinstance(s, ast.For):
            return self.for_(s, rest, env, k)
        if isinstance(s, ast.Try):
            return self.try_(s, rest, env, k)
        _un("statement %s not read" % type(s).__name__, s)

    # x = <value>
    def assign(self, s, rest, env, k):
        if isinstance(s, ast.Assign):
            if len(s.targets) != 1:
                _un("multiple assignment", s)
            tg, v = s.targets[0], s.value
        else:
            tg, v = s.target, s.value  # the annotation is not read
            if v is None:
                _un("annotation without value", s)
        if isinstance(tg, ast.Subscript):
            return self.setitem(tg, v, rest, env, k)
        if not isinstance(tg, ast.Name) or tg.id in ("_", "self", "cls", "yield"):
            _un("assignment target not read", s)
        # new = d.get(key, []); new.append(x); d[key] = new      (d a dict this function built)
        idiom = self.get_append_store(tg, v, rest, env)
        if idiom is not None:
            dname, kt, xt, kty, xty = idiom
            d = env[dname]
            d.ty = D(join(d.ty[1], kty), L(join(d.ty[2][1] if d.ty[2][0] == "list" else ANY, xty)))
            term = "(py_dict_set %s %s %s ((py_dict_get_default %s %s %s []) ++ [%s]))" % (
                eqb_of(d.ty[1]), d.coq, kt, eqb_of(d.ty[1]), d.coq, kt, xt)
            env[tg.id] = _Var(d.ty[2], lname(tg.id))
            return "(let %s := %s in %s)" % (d.coq, term, self.block(rest[2:], env, k))
        b, t, ty = self.tr(v, env)
        fresh = self.creates(v, env)
        if isinstance(v, ast.Name) and v.id in env:
            env[v.id].fresh = False   # two names for one object: neither may change it in place from here on
            env[v.id].alias = None
        if ty == NONE:
            ty = JV
        nv = _Var(ty, lname(tg.id), fresh=fresh)
        nv.fresh_keys = set()
        # a variable that other variables are an alias into is re-bound: the alias ends
        for o in env.values():
            if o.alias is not None and o.alias[0] == tg.id:
                o.alias = None
                o.fresh = False
        env[tg.id] = nv
        return self.wrap(b + [("let", lname(tg.id), t)], self.block(rest, env, k))

    def creates(self, v, env):
        """does the expression create a new object (list / dict) nobody else holds?"""
        if isinstance(v, (ast.List, ast.Dict, ast.ListComp, ast.DictComp)):
            return True
        if isinstance(v, ast.Call) and isinstance(v.func, ast.Name) and v.func.id in ("dict", "list") \
                and v.func.id not in env:
            return True
        return False

    def get_append_store(self, tg, v, rest, env):
        if not (isinstance(v, ast.Call) and isinstance(v.func, ast.Attribute) and v.func.attr == "get"
                and isinstance(v.func.value, ast.Name) and len(v.args) == 2 and not v.keywords
                and isinstance(v.args[1], ast.List) and not v.args[1].elts and len(rest) >= 2):
            return None
        dname = v.func.value.id
        if dname not in env or env[dname].ty[0] != "dict" or not env[dname].fresh:
            return None
        key = v.args[0]
        a, st = rest[0], rest[1]
        if not (isinstance(a, ast.Expr) and isinstance(a.value, ast.Call) and isinstance(a.value.func, ast.Attribute)
                and a.value.func.attr == "append" and isinstance(a.value.func.value, ast.Name)
                and a.value.func.value.id == tg.id and len(a.value.args) == 1 and not a.value.keywords):
            return None
        if not (isinstance(st, ast.Assign) and len(st.targets) == 1 and isinstance(st.targets[0], ast.Subscript)
                and isinstance(st.targets[0].value, ast.Name) and st.targets[0].value.id == dname
                and isinstance(st.value, ast.Name) and st.value.id == tg.id
                and ast.dump(st.targets[0].slice) == ast.dump(key)):
            return None
        if not isinstance(key, (ast.Name, ast.Constant)) or not isinstance(a.value.args[0], (ast.Name, ast.Constant)):
            return None
        # the list is not used under its own name afterwards (it stays shared with the dict)
        for later in rest[2:]:
            for n in ast.walk(later):
                if isinstance(n, ast.Name) and n.id == tg.id:
                    return None
        bk, kt, kty = self.tr(key, env)
        bx, xt, xty = self.tr(a.value.args[0], env)
        if bk or bx or kty not in (Z, STR):
            return None
        return dname, kt, xt, kty, xty

    # x.append(v)
    def append(self, c, rest, env, k):
        recv = c.func.value.id
        if recv not in env:
            _un("`%s` not read" % recv, c)
        x = env[recv]
        b, t, ty = self.tr(c.args[0], env)
        self.escape(c.args[0], env)
        if x.ty[0] != "list" or not x.fresh:
            # in-place change of an object this function did not create (or has shared)
            return self.wrap(b, "(bind (Err MutatesCaller) (fun _ : unit => %s))" % self.block(rest, env, k))
        if ty == NONE:
            ty = JV
        try:
            x.ty = L(join(x.ty[1], ty))
        except Unavailable:
            t, _ = coerce(t, ty, JV)
            x.ty = L(JV)
        return self.wrap(b, "(let %s := (%s ++ [%s]) in %s)" % (x.coq, x.coq, t, self.block(rest, env, k)))

    # X[k] = v   /   X[k1][k2] = v
    def setitem(self, tg, v, rest, env, k):
        path = []
        r = tg
        while isinstance(r, ast.Subscript):
            path.insert(0, r.slice)
            r = r.value
        if not isinstance(r, ast.Name) or r.id not in env or len(path) > 2:
            _un("item assignment target not read", tg)
        x = env[r.id]
        keys = []
        for p in path:
            if not _is_str_const(p):
                _un("item assignment with a key that is no string constant", tg)
            keys.append("(JStr %s)" % _coq_string(p.value))
        poison = None
        if x.ty not in (JDICT, D(ANY, ANY)) or not x.fresh:
            poison = True
        elif len(path) == 2 and keys[0] not in getattr(x, "fresh_keys", set()):
            poison = True
        # the value; a fresh local dict stored here stays reachable under its own name: an alias
        alias_of = None
        if isinstance(v, ast.Name) and v.id in env and env[v.id].fresh and env[v.id].ty == JDICT and not poison:
            alias_of = (v.id, tuple(keys))
        stored_kw = None
        if isinstance(v, ast.Call) and isinstance(v.func, ast.Name) and v.func.id == "dict" and "dict" not in env \
                and len(v.args) == 1 and len(v.keywords) == 1 and isinstance(v.keywords[0].value, ast.Name) \
                and v.keywords[0].value.id in env and env[v.keywords[0].value.id].fresh \
                and env[v.keywords[0].value.id].ty == JDICT and len(path) == 1 and not poison:
            stored_kw = v.keywords[0].value.id
            kwkey = "(JStr %s)" % _coq_string(v.keywords[0].arg)
            was = env[stored_kw]
            bv, tv, tyv = self.tr(v, env)      # (escape is not called by `dict(..)` keyword values)
            env[stored_kw] = was
        else:
            bv, tv, tyv = self.tr_jv(v, env)
        if poison:
            return self.wrap(bv, "(bind (Err MutatesCaller) (fun _ : unit => %s))" % self.block(rest, env, k))
        tv, _ = coerce(tv, tyv, JV)
        x.ty = JDICT
        makes_fresh = self.creates(v, env) or alias_of is not None
        if len(path) == 1:
            binds = bv + [("let", x.coq, "(jd_set %s %s %s)" % (x.coq, keys[0], tv))]
            if makes_fresh:
                x.fresh_keys.add(keys[0])
            else:
                x.fresh_keys.discard(keys[0])
        else:
            n1, n2 = self.fresh(), self.fresh()
            binds = bv + [("bind", n1, "(pd_getitem %s %s)" % (x.coq, keys[0])),
                          ("bind", n2, "(pj_setitem %s %s %s)" % (n1, keys[1], tv)),
                          ("let", x.coq, "(jd_set %s %s %s)" % (x.coq, keys[0], n2))]
        # aliases INTO x that this assignment overwrites end
        for o in env.values():
            if o.alias is not None and o.alias[0] == r.id and tuple(o.alias[1][:len(keys)]) == tuple(keys):
                o.alias = None
                o.fresh = False
        if alias_of is not None:
            env[alias_of[0]].alias = (r.id, alias_of[1])
        if stored_kw is not None:
            env[stored_kw].alias = (r.id, (keys[0], kwkey))
        # x itself is an alias into another variable: write through
        if x.alias is not None:
            root, rkeys = x.alias
            if root not in env or len(rkeys) != 2:
                _un("alias into a structure of depth other than 2", tg)
            rt = env[root]
            m1, m2 = self.fresh(), self.fresh()
            binds += [("bind", m1, "(pd_getitem %s %s)" % (rt.coq, rkeys[0])),
                      ("bind", m2, "(pj_setitem %s %s (JDict %s))" % (m1, rkeys[1], x.coq)),
                      ("let", rt.coq, "(jd_set %s %s %s)" % (rt.coq, rkeys[0], m2))]
        return self.wrap(binds, self.block(rest, env, k))

    def merge_env(self, env, names, *branches):
        for n in names:
            ty = env[n].ty
            fr = env[n].fresh
            fk = set(env[n].fresh_keys)
            for e in branches:
                ty = join(ty, e[n].ty)
                fr = fr and e[n].fresh
                fk &= e[n].fresh_keys
                if e[n].alias != env[n].alias:
                    env[n].alias = None
                    fr = False
            env[n].ty, env[n].fresh, env[n].fresh_keys = ty, fr, fk
        # anything else a branch may have shared
        for n, v in env.items():
            for e in branches:
                if n in e and not e[n].fresh:
                    v.fresh = False

    def if_(self, s, rest, env, k):
        bc, tc = self.truth(s.test, env)
        # if c: continue
        if len(s.body) == 1 and isinstance(s.body[0], ast.Continue) and not s.orelse:
            if not self.loop_k or self.ret_wrap:
                _un("`continue` outside the body of a loop", s)
            return self.wrap(bc, "(if %s then %s else %s)" % (
                tc, self.loop_k[-1](self._fork(env)), self.block(rest, env, k)))
        if not self._has_jump(list(s.body) + list(s.orelse)):
            # first reading: the static types the branches give to the state; a branch that makes a local an
            # alias into another one (or ends such an alias) is NOT joined with the other branch: each then
            # continues with its own copy of the rest, so that what may be changed in place is known per path
            save = self.ntemp
            e1, e2 = self._fork(env), self._fork(env)
            self.block(list(s.body), e1, lambda e: "tt")
            self.block(list(s.orelse), e2, lambda e: "tt")
            self.ntemp = save
            dup = any(e[n].alias != env[n].alias for e in (e1, e2) for n in env if n in e)
        else:
            dup = True
        if not dup:
            # a block that changes locals and falls through: the locals it changes are the state
            names = self.mutated(list(s.body) + list(s.orelse), env)
            # a local first bound in BOTH branches is bound afterwards
            def top_names(ss):
                out = set()
                for x in ss:
                    if isinstance(x, (ast.Assign, ast.AnnAssign)):
                        t = x.targets[0] if isinstance(x, ast.Assign) else x.target
                        if isinstance(t, ast.Name):
                            out.add(t.id)
                return out
            newn = sorted(n for n in (top_names(s.body) & top_names(s.orelse)) if n not in env and n in e1 and n in e2)
            for n in newn:
                env[n] = _Var(ANY, lname(n))
            names = [n for n in names if n == "yield"] + sorted([n for n in names if n != "yield"] + newn)
            want = {}
            for n in names:
                try:
                    want[n] = join(join(env[n].ty, e1[n].ty), e2[n].ty)
                except Unavailable:
                    want[n] = JV

            def done(e):
                parts = [coerce(e[n].coq, e[n].ty, want[n])[0] for n in names]
                for n in names:
                    e[n].ty = want[n]
                return "(Ok %s)" % (parts[0] if len(parts) == 1 else "(%s)" % ", ".join(parts) if parts else "tt")

            e1, e2 = self._fork(env), self._fork(env)
            t1 = self.block(list(s.body), e1, done)
            t2 = self.block(list(s.orelse), e2, done)
            for n in names:
                env[n].ty = want[n]
            self.merge_env(env, names, e1, e2)
            pat, tup = self.state(names, env)
            return self.wrap(bc, "(bind (if %s then %s else %s) (fun %s => %s))" % (
                tc, t1, t2, pat, self.block(rest, env, k)))
        # general case: each branch continues with (its own copy of) the rest
        if rest:
            def cont(e):
                return self.block(rest, e, k)
        else:
            cont = k
        e1, e2 = self._fork(env), self._fork(env)
        t1 = self.block(list(s.body), e1, cont)
        t2 = self.block(list(s.orelse), e2, cont)
        return self.wrap(bc, "(if %s then %s else %s)" % (tc, t1, t2))

    def for_(self, s, rest, env, k):
        if s.orelse:
            _un("for ... else", s)
        for n in ast.walk(s):
            if isinstance(n, (ast.Return, ast.Break)):
                _un("`return` / `break` inside a loop", n)
        bi, ti, ity = self.iter_of(s.iter, env)
        names = self.mutated(s.body, env)
        pat, tup = self.state(names, env)
        # the state's static types may be refined by the body (first append / first store): read it twice
        for attempt in (0, 1):
            body_env = self._fork(env)
            ipat, is_t = self.pattern(s.target, ity, body_env)

            def done(e):
                return "(Ok %s)" % self.state(names, e)[1]

            save = self.ntemp
            self.loop_k.append(done)
            try:
                body = self.block(list(s.body), body_env, done)
            finally:
                self.loop_k.pop()
            changed = any(body_env[n].ty != env[n].ty for n in names)
            self.merge_env(env, names, body_env)
            if not changed:
                break
            if attempt == 0:
                self.ntemp = save
        else:
            _un("the types of the loop state do not settle", s)
        return self.wrap(bi, "(bind (py_foldM (fun %s %s => %s) %s %s) (fun %s => %s))" % (
            pat, self.binder(ipat, is_t), body, ti, tup, pat, self.block(rest, env, k)))

    def try_(self, s, rest, env, k):
        """try: s1 .. sn  except (A, B): <handler that returns>  -- statement by statement, so that the handler
        sees the locals as they are when the exception is raised"""
        if s.orelse or s.finalbody or len(s.handlers) != 1:
            _un("try statement with else / finally / several handlers", s)
        h = s.handlers[0]
        if h.name is not None:
            _un("except .. as name", s)
        codes = []
        types = h.type.elts if isinstance(h.type, ast.Tuple) else [h.type]
        known = {"ValueError": "ValueError", "TypeError": "TypeError", "KeyError": "KeyError",
                 "IndexError": "IndexError", "AttributeError": "AttributeError"}
        for t in types:
            if not (isinstance(t, ast.Name) and t.id in known and t.id not in env
                    and t.id not in self.reg.mod.toplevel_names):
                _un("except clause not read", s)
            codes.append(known[t.id])
        if not self._always_returns(h.body):
            _un("an except handler that does not return", s)
        if self.ret_wrap:
            _un("try inside try", s)
        codes_t = "[%s]" % "; ".join(codes)

        def steps(ss, e):
            if not ss:
                if rest or k is not None:
                    return self.block(rest, e, k)
                _un("control reaches the end of the function without `return`", s)
            st, more = ss[0], ss[1:]
            if self._is_doc(st) or isinstance(st, ast.Pass):
                return steps(more, e)
            handler = self.block(list(h.body), self._fork(e), None)
            self.ret_wrap.append("inl")
            try:
                if isinstance(st, ast.Return):
                    if more:
                        _un("statements after `return`", more[0])
                    self.ret_wrap.pop()
                    try:
                        return "(py_try %s %s %s)" % (self.block([st], e, None), codes_t, handler)
                    finally:
                        self.ret_wrap.append("inl")
                elif isinstance(st, (ast.Assign, ast.AnnAssign)) and isinstance(
                        st.targets[0] if isinstance(st, ast.Assign) else st.target, ast.Name):
                    tg = st.targets[0] if isinstance(st, ast.Assign) else st.target
                    if isinstance(st, ast.Assign) and len(st.targets) != 1:
                        _un("multiple assignment", st)
                    b, t, ty = self.tr(st.value, e)
                    if isinstance(st.value, ast.Name) and st.value.id in e:
                        e[st.value.id].fresh = False
                    if ty == NONE:
                        ty = JV
                    step = self.wrap(b, "(Ok (inr %s))" % t)
                    e[tg.id] = _Var(ty, lname(tg.id), fresh=self.creates(st.value, e))
                    spat = lname(tg.id)
                elif isinstance(st, ast.If) and not st.orelse and self._always_returns(st.body) \
                        and not any(isinstance(n, (ast.Assign, ast.AnnAssign, ast.Try, ast.For))
                                    for x in st.body for n in ast.walk(x)):
                    bc, tc = self.truth(st.test, e)
                    step = self.wrap(bc, "(if %s then %s else (Ok (inr tt)))" % (
                        tc, self.block(list(st.body), self._fork(e), None)))
                    spat = "_"
                else:
                    _un("statement %s inside try not read" % type(st).__name__, st)
            finally:
                self.ret_wrap.pop()
            return "(py_try_step %s %s %s (fun %s => %s))" % (step, codes_t, handler, spat, steps(more, e))

        return steps(list(s.body), env)

    # -- the member -----------------------------------------------------------------------------
    @staticmethod
    def _own_nodes(fn):
        stack = list(fn.body)
        while stack:
            n = stack.pop()
            if isinstance(n, (ast.FunctionDef, ast.Lambda)):
                continue
            yield n
            stack.extend(ast.iter_child_nodes(n))

    def translate_init(self):
        """__init__ of a record class: every stored attribute is a parameter, stored as it is"""
        fn = self.fn
        a = fn.args
        if a.vararg or a.kwarg or a.kwonlyargs or a.posonlyargs or a.kw_defaults:
            _un("parameter list not read")
        names = [x.arg for x in a.args]
        if not names or names[0] != "self":
            _un("first parameter is not `self`")
        pnames = names[1:]
        defaults = {}
        for pn, d in zip(reversed(pnames), reversed(a.defaults)):
            if not isinstance(d, ast.Constant) or not (d.value is None or isinstance(d.value, bool)):
                _un("default value of `%s` not read" % pn)
            defaults[pn] = d
        stored = {}
        for s in fn.body:
            if self._is_doc(s) or isinstance(s, ast.Pass):
                continue
            if isinstance(s, ast.Assign) and len(s.targets) == 1 and isinstance(s.targets[0], ast.Attribute) \
                    and isinstance(s.targets[0].value, ast.Name) and s.targets[0].value.id == "self" \
                    and isinstance(s.value, ast.Name) and s.value.id in pnames:
                attr = s.targets[0].attr
                if attr in stored or s.value.id in stored.values():
                    _un("__init__ stores self.%s / `%s` twice" % (attr, s.value.id), s)
                stored[attr] = s.value.id
                continue
            _un("__init__: statement not read", s)
        rec, mk, fields = CLASSES[self.cname]
        ptype = {}
        args = []
        for pyattr, proj, fty in fields:
            if pyattr not in stored:
                _un("__init__ does not store self.%s" % pyattr)
            ptype[stored[pyattr]] = fty
            if proj is not None:
                args.append(lname(stored[pyattr]))
        if set(stored) != set(f[0] for f in fields):
            _un("__init__ stores attributes the record does not have: %s" % sorted(set(stored) - set(f[0] for f in fields)))
        if set(ptype) != set(pnames):
            _un("a parameter of __init__ is not stored")
        params = []
        for pn in pnames:
            dflt = None
            if pn in defaults:
                d = defaults[pn]
                b, t, ty = self._tr(d, {}, None)
                dflt, _ = coerce(t, ty, ptype[pn])
            params.append((pn, ptype[pn], dflt))
        binders = "".join(" (%s : %s)" % (lname(p), coq_ty(t)) for p, t, _ in params)
        self.init_params = params
        self.params = tuple((p, t) for p, t, _ in params)
        self.ret = ("obj", self.cname)
        return "(fun%s => (%s %s))" % (binders, mk, " ".join(args))

    def translate(self):
        fn = self.fn
        if self.name == "__init__":
            return self.translate_init()
        a = fn.args
        if a.vararg or a.kwarg or a.kwonlyargs or a.posonlyargs or a.defaults or a.kw_defaults:
            _un("parameter list not read")
        names = [x.arg for x in a.args]
        first = {"static": [], "class": ["cls"]}.get(self.kind, ["self"]) if self.cname else []
        want = first + [p for p, _ in self.params]
        if names != want:
            _un("parameters %r, expected %r" % (names, want))
        if self.kind == "lazy" and self.params:
            _un("a property with parameters")
        env = {}
        for p, ty in self.params:
            env[p] = _Var(ty, lname(p))
        is_gen = any(isinstance(n, (ast.Yield, ast.YieldFrom)) for n in self._own_nodes(fn))
        if is_gen:
            if self.ret[0] != "list":
                _un("a generator whose declared result is no sequence")
            env["yield"] = _Var(L(ANY), "y_out")
            self.in_gen += 1

            def end(e):
                t, _ = coerce("y_out", e["yield"].ty, self.ret)
                return "(Ok %s)" % t

            body = "(let y_out := [] in %s)" % self.block(list(fn.body), env, end)
            self.in_gen -= 1
        else:
            body = self.block(list(fn.body), env, None)
        binders = "".join(" (%s : %s)" % (lname(p), coq_ty(ty)) for p, ty in self.params)
        if self.cname and self.kind in ("lazy", "plain"):
            binders = " (self : %s)" % coq_ty(self_type(self.cname)) + binders
        if not binders:
            binders = " (_ : unit)"
        return "(fun%s => %s)" % (binders, body)



def sig_type(cname, kind, params, ret, is_init=False):
    r = coq_ty(ret)
    if not is_init:
        r = "res (%s)" % r
    parts = []
    if cname and kind in ("lazy", "plain") and not is_init:
        parts.append(coq_ty(self_type(cname)))
    parts += [coq_ty(t) for _, t in params]
    if not parts:
        parts = ["unit"]
    return " -> ".join(parts + [r])


class _Registry(object):
    """every member, translated on demand in dependency order"""

    def __init__(self, mod, enums):
        self.mod, self.enums = mod, enums
        self.done = {}
        self.types = {}      # key -> Coq type of the definition, once known
        self.order = []
        self.busy = set()
        self.consts = {}     # identifier -> (type, term | Unavailable)
        self._fields_ok = {}
        self._iter_ok = {}

    def get(self, cname, name):
        key = (cname, name)
        if key in self.busy:
            _un("members read each other in a cycle (%s.%s)" % key)
        if key not in self.done:
            self.busy.add(key)
            try:
                self.done[key] = self._make(cname, name)
            except Unavailable as ex:
                self.done[key] = ex
            except RecursionError:
                raise
            except Exception as ex:  # an AST shape the reader did not expect: fail closed for THIS member
                self.done[key] = Unavailable("not read (%s: %s)" % (type(ex).__name__, ex))
            finally:
                self.busy.discard(key)
            self.order.append(key)
        r = self.done[key]
        if isinstance(r, Unavailable):
            _un("reads %s.%s, which is not available" % (cname or "<module>", name))
        return r

    def const(self, ident_):
        if ident_ in self.consts:
            r = self.consts[ident_]
        else:
            try:
                if ident_.startswith("DT_"):
                    items = self.enums.dt_set(ident_[3:])
                    r = ("list dtype", "[%s]" % "; ".join("DT_" + x for x in items))
                elif ident_.startswith("STRDICT_"):
                    if ident_[8:] not in self.mod.str_dicts:
                        _un("module-level dict %s not read" % ident_[8:])
                    items = self.mod.str_dicts[ident_[8:]]
                    r = ("list (string * string)",
                         "[%s]" % "; ".join("(%s, %s)" % (_coq_string(m), _coq_string(v)) for m, v in items))
                elif ident_.startswith("ENUM_"):
                    items = self.enums.enum_members(ident_[5:])
                    r = ("list (string * string)",
                         "[%s]" % "; ".join("(%s, %s)" % (_coq_string(m), _coq_string(v)) for m, v in items))
                else:
                    _un("constant %s not read" % ident_)
            except Unavailable as ex:
                r = ex
            self.consts[ident_] = r
            self.order.append(("#", ident_))
        if isinstance(r, Unavailable):
            _un("reads %s, which is not available" % ident_)
        return r

    def check_field(self, cname, attr):
        key = (cname, attr)
        if key not in self._fields_ok:
            self._fields_ok[key] = self._check_field(cname, attr)
        if self._fields_ok[key] is not True:
            _un(self._fields_ok[key])

    def _check_field(self, cname, attr):
        if cname not in self.mod.classes:
            return "class %s not found" % cname
        stores = []
        for fn in self.mod.functions(cname):
            for n in ast.walk(fn):
                if isinstance(n, ast.Attribute) and n.attr == attr and isinstance(n.ctx, (ast.Store, ast.Del)) \
                        and isinstance(n.value, ast.Name) and n.value.id == "self":
                    stores.append(fn.name)
        if attr in CUT_ATTRS.get(cname, ()):
            fn = None
            try:
                fn = self.mod.resolve(cname, attr)
            except Unavailable as ex:
                return str(ex)
            if stores or fn is None or _decorator_kind(fn) != "lazy":
                return "%s.%s is not the lazyproperty the translator takes it for" % (cname, attr)
            return True
        if stores != ["__init__"]:
            return "%s: self.%s is not stored exactly once, by __init__" % (cname, attr)
        return True

    def check_iter(self, cname):
        if cname not in self._iter_ok:
            ok = "%s.__iter__ not read" % cname
            try:
                fn = self.mod.resolve(cname, "__iter__")
            except Unavailable:
                fn = None
            if fn is not None and not fn.decorator_list and [a.arg for a in fn.args.args] == ["self"]:
                body = [s for s in fn.body if not _Member._is_doc(s)]
                if len(body) == 1 and isinstance(body[0], ast.Return):
                    v = body[0].value
                    if isinstance(v, ast.Call) and isinstance(v.func, ast.Name) and v.func.id == "iter" \
                            and len(v.args) == 1 and not v.keywords and isinstance(v.args[0], ast.Attribute) \
                            and isinstance(v.args[0].value, ast.Name) and v.args[0].value.id == "self" \
                            and v.args[0].attr == ITER_MEMBER[cname]:
                        ok = True
            self._iter_ok[cname] = ok
        if self._iter_ok[cname] is not True:
            _un(self._iter_ok[cname])

    def _make(self, cname, name):
        is_init = name == "__init__"
        if is_init:
            if cname not in CLASSES:
                _un("no record for class %s" % cname)
            sig = ((), ("obj", cname))
        elif (cname, name) in SIGS:
            sig = SIGS[(cname, name)]
        else:
            _un("no signature for this member in the translator's table")
        fn = self.mod.resolve(cname, name)
        if fn is None:
            _un("not defined")
        kind = _decorator_kind(fn) if cname else "static"
        if is_init and kind != "plain":
            _un("decorated __init__")
        if not is_init:
            self.types[(cname, name)] = sig_type(cname, kind, sig[0], sig[1])
        m = _Member(self, cname, name, fn, kind, sig)
        body = m.translate()
        info = {"kind": kind, "params": m.params, "ret": m.ret, "deps": list(m.deps), "body": body}
        if is_init:
            info["init_params"] = m.init_params
            self.types[(cname, name)] = sig_type(cname, kind, m.params, m.ret, is_init=True)
        return info


HEADER = """(* GENERATED by harness/translate/x_dimension.py from %s
   -- do not edit; rewritten (only when its text changes) on every check.
   One definition per member of dimension.py named in the translator's signature table: [Some f] = what the
   source says, as a Gallina function over the Python-semantics combinators of Base/PyList.v, Base/PyDict.v and
   Model/PyDimension.v ([m_<Class>_<x>] = the generated function of the member it reads, [c_<X>] = a constant
   read from enums.py); [None] = the translator could not read the member or one it reads (it is then tied to
   the model by the correspondence check only). *)
From Coq Require Import List ZArith String Bool.
From CC Require Import Base.XQ Base.Ident Base.PyList Base.PyDict Model.DimType Model.PyDimension.
Import ListNotations.
Local Close Scope Q_scope.
Local Open Scope Z_scope.

"""


def targets():
    out = []
    for key in SIGS:
        out.append(key)
    return out


def _generate(text, enums_text, report):
    mod = _Module(text)
    reg = _Registry(mod, _Enums(enums_text))
    for cname, name in targets():
        try:
            reg.get(cname, name)
        except Unavailable:
            pass
    out = []
    for key in reg.order:
        if key[0] == "#":
            ident_ = "src_" + key[1]
            r = reg.consts[key[1]]
            if isinstance(r, Unavailable):
                report["unavailable"].append({"method": "%s:%s" % (MODNAME, key[1]), "reason": str(r)})
                out.append("(* %s not read: %s *)" % (key[1], T._coq_comment(str(r))))
                kind = "list dtype" if key[1].startswith("DT_") else "list (string * string)"
                out.append("Definition %s : option (%s) := None." % (ident_, kind))
            else:
                out.append("Definition %s : option (%s) := Some %s." % (ident_, r[0], r[1]))
            continue
        cname, name = key
        what = "%s.%s" % (cname, name) if cname else name
        r = reg.done[key]
        ident_ = ident_of(cname, name)
        if key not in reg.types:
            report["unavailable"].append({"method": "%s:%s" % (MODNAME, what), "reason": str(r)})
            out.append("(* %s not read: %s *)" % (what, T._coq_comment(str(r))))
            continue
        ty = reg.types[key]
        if isinstance(r, Unavailable):
            report["unavailable"].append({"method": "%s:%s" % (MODNAME, what), "reason": str(r)})
            out.append("(* %s not read: %s *)" % (what, T._coq_comment(str(r))))
            out.append("Definition %s : option (%s) := None." % (ident_, ty))
            continue
        report["methods_translated"].append("%s:%s" % (MODNAME, what))
        out.append("(* %s *)" % what)
        head, foot = "", ""
        for d in r["deps"]:
            if d[0] == "#":
                head += "  match src_%s with Some c_%s =>\n" % (d[1], d[1])
            else:
                head += "  match %s with Some %s =>\n" % (ident_of(*d), mname_of(*d))
            foot = " | None => None end" + foot
        out.append("Definition %s : option (%s) :=\n%s  Some %s%s." % (ident_, ty, head, r["body"], foot))
    return HEADER % ("src/" + SRC + ", src/" + ENUMS) + "\n".join(out) + "\n"


def _fallback(ex):
    return "(* GENERATED by harness/translate/x_dimension.py: the translator failed: %s *)\n" % T._coq_comment(repr(ex))


def regenerate(repo_src, gen_dir, report):
    """Adds Gen/DimensionSrc.v; extends `report`."""
    report["x_dimension_version"] = VERSION
    texts = {}
    for rel in (SRC, ENUMS):
        p = os.path.join(repo_src, rel)
        try:
            with open(p, encoding="utf-8") as f:
                texts[rel] = f.read()
            report["files"]["src/" + rel] = T._sha(texts[rel])
        except (OSError, UnicodeDecodeError) as ex:
            report["files"].setdefault("src/" + rel, None)
            report["errors"].append("cannot read %s: %r" % (rel, ex))
    try:
        if SRC not in texts or ENUMS not in texts:
            raise Unavailable("source file not readable")
        out = _generate(texts[SRC], texts[ENUMS], report)
    except Exception as ex:  # SyntaxError of the source, a bug of ours: fail closed
        report["errors"].append("DimensionSrc.v: %r" % (ex,))
        out = _fallback(ex)
    os.makedirs(gen_dir, exist_ok=True)
    changed = T._write_if_changed(os.path.join(gen_dir, "DimensionSrc.v"), out)
    report["gen_files"]["Gen/DimensionSrc.v"] = {"sha256": T._sha(out), "rewritten": changed}
    return report


if __name__ == "__main__":  # manual run: python -m harness.translate.x_dimension <repo_src> <gen_dir>
    import json
    import sys

    rep = {"files": {}, "errors": [], "gen_files": {}, "methods_translated": [], "unavailable": []}
    regenerate(sys.argv[1], sys.argv[2], rep)
    json.dump(rep, sys.stdout, indent=1)
