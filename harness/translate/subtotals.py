# -*- coding: utf-8 -*-
"""Third source translator (DESIGN 2.4 (a), extension): reads the SUBTOTAL STRATEGIES

    <repo>/src/cr/cube/matrix/subtotals.py     (_BaseSubtotals, SumSubtotals, PositiveTermSubtotals,
                                                NegativeTermSubtotals, NanSubtotals, WaveDiffSubtotal)
    <repo>/src/cr/cube/stripe/insertion.py     (the strand twins)

with Python's `ast` and writes them as terms of the deep-embedded language `sexp`
(coq/Base/SubtotalExp.v) into coq/Gen/SubtotalsSrc.v and coq/Gen/StripeInsertionSrc.v.
coq/Proofs/GenAgreeSubtotals.v then proves, for every translated member, for all array sizes and
all in-range index lists, that the term denotes the definition of coq/Model/Subtotals.v,
Model/Proportions.v (wave differences) and Model/Variance.v (positive / negative term blocks) --
the very definitions the environments of the SECOND translator (Base/MeasureExp.v, [e_strat],
[e_wave], [e_vstrat], [e_vwave]) are instantiated with.  So the meaning of a strategy call
recorded by measures.py is itself derived from the source.

Same rules as translate.py / measures.py:

* WHITELIST, fail-closed.  Only the AST shapes listed in `_S.expr` / `_S.body` are read; anything
  else makes THAT member unavailable: the emitted definition is `None`, the report lists it and
  `NOTE translator-unavailable <Class.member>` is printed.  Never guesses, never repairs.
* Inheritance is flattened (single, plain); `self.<lazyproperty>` and `self._method(args)` are
  inlined with virtual dispatch from the class being translated; local names are inlined;
  `if c: return a` ... `return b` is `SIf c a b`; a classmethod `return cls(args).<member>` is
  the member with the fields bound through the `__init__` chain to the classmethod's parameters.
* What a constructor parameter IS is decided by its NAME (matrix: `base_values`, `counts`,
  `default_insertions` 2-D arrays, `dimensions` the pair of dimensions, `diff_cols_nan` /
  `diff_rows_nan` booleans; stripe: `base_values`, `counts`, `default_values` 1-D arrays,
  `rows_dimension`); of a `_Subtotal` only `.addend_idxs` / `.subtrahend_idxs` are read, of a
  dimension only `.subtotals` and `.dimension_type == DT.CAT_DATE`.  The translator tracks the
  RANK of every array expression and refuses what it cannot rank.
* Files are rewritten only if their text changed.

`regenerate(repo_src, gen_dir, report)` is called from translate.regenerate on every check.
"""
import ast
import os
from fractions import Fraction

from harness.translate import translate as T
from harness.translate import measures as M

VERSION = "subtotals.py/1"

S_MATRIX = "cr/cube/matrix/subtotals.py"
S_STRIPE = "cr/cube/stripe/insertion.py"

Unavailable = T.Unavailable
_un = T._un
q = T.q


# ------------------------------------------------------------------------------------
# Coq printing of sexp
# ------------------------------------------------------------------------------------


def p_ref(r):
    return "(RArg %d)" % r[1] if r[0] == "RArg" else "(RLoop %s)" % r[1]


def p_idxs(l):
    return "(%s %s)" % (l[0], p_ref(l[1]))


def p_dim(n):
    k = n[0]
    if k == "NLit":
        return "(NLit %d)" % n[1]
    if k == "NShape":
        return "(NShape %s %d)" % (q(n[1]), n[2])
    if k == "NLenSubs":
        return "(NLenSubs %s)" % n[1]
    raise AssertionError(n)


def p_cond(c):
    k = c[0]
    if k == "KParam":
        return "KParam %s" % q(c[1])
    if k == "KLenGt":
        return "KLenGt %s %d" % (p_idxs(c[1]), c[2])
    if k in ("KNoSubs", "KDate"):
        return "%s %s" % (k, c[1])
    if k in ("KAnd", "KOr"):
        return "%s (%s) (%s)" % (k, p_cond(c[1]), p_cond(c[2]))
    if k == "KNot":
        return "KNot (%s)" % p_cond(c[1])
    raise AssertionError(c)


def p_z(z):
    return "None" if z is None else "(Some (%s))" % p_sexp(z)


def p_sexp(t):
    k = t[0]
    if k == "SArr":
        return "SArr %s" % q(t[1])
    if k in ("SDflt", "SNan", "SEmptyVec"):
        return k
    if k == "SNum":
        return "SNum %s" % M.p_q(t[1])
    if k == "SFull":
        return "SFull %s (%s)" % (p_dim(t[1]), p_sexp(t[2]))
    if k == "SFullLike":
        return "SFullLike %s (%s)" % (q(t[1]), p_sexp(t[2]))
    if k in ("SEmptyCols", "SEmptyRows"):
        return "%s %s" % (k, p_dim(t[1]))
    if k == "SRow":
        return "SRow (%s) %d" % (p_sexp(t[1]), t[2])
    if k in ("STake", "STakeRows", "STakeCols"):
        return "%s (%s) %s" % (k, p_sexp(t[1]), p_idxs(t[2]))
    if k == "SSum":
        return "SSum (%s) %s" % (p_sexp(t[1]), "None" if t[2] is None else "(Some %d)" % t[2])
    if k in ("SAdd", "SSub", "SMul", "SDiv"):
        return "%s (%s) (%s)" % (k, p_sexp(t[1]), p_sexp(t[2]))
    if k == "ST":
        return "ST (%s)" % p_sexp(t[1])
    if k == "SIf":
        return "SIf (%s) (%s) (%s)" % (p_cond(t[1]), p_sexp(t[2]), p_sexp(t[3]))
    if k == "SHstack":
        return "SHstack %s %s %s (%s)" % (t[1], p_dim(t[2]), p_z(t[3]), p_sexp(t[4]))
    if k in ("SVstack", "SVecOf"):
        return "%s %s %s (%s)" % (k, t[1], p_z(t[2]), p_sexp(t[3]))
    if k == "SGrid":
        return "SGrid %s %s (%s) %s %s" % (t[1], t[2], p_sexp(t[3]), p_dim(t[4]), p_dim(t[5]))
    raise AssertionError(t)


# ------------------------------------------------------------------------------------
# module model: measures._Mod + class-level constants + __init__ defaults
# ------------------------------------------------------------------------------------


def _class_const(st):
    """`NAME = np.nan` / `NAME = <int literal>` at class level -> (NAME, abstract value)"""
    if not (isinstance(st, ast.Assign) and len(st.targets) == 1 and isinstance(st.targets[0], ast.Name)):
        return None
    if T._is_attr(st.value, "np", "nan"):
        return st.targets[0].id, ("arr", ("SNan",), 0)
    if isinstance(st.value, ast.Constant) and type(st.value.value) is int:
        return st.targets[0].id, ("int", st.value.value)
    return None


class _SMod(M._Mod):
    def mro(self, cname):
        out, seen = [], set()
        while True:
            if cname in seen or cname in self.dup or cname not in self.classes:
                _un("class %s: unknown, duplicated or cyclic base" % cname)
            seen.add(cname)
            c = self.classes[cname]
            if c.node.decorator_list or c.node.keywords:
                _un("class %s is decorated / has class keywords" % cname, c.node)
            names = set()
            for st in c.other:
                cc = _class_const(st)
                if cc is None or cc[0] in names or cc[0] in c.methods:
                    _un("class %s has class-level statements that are not read" % cname, st)
                names.add(cc[0])
            for m in c.methods:
                if m in M._ACCESS_DUNDERS:
                    _un("class %s defines %s (attribute access may not be plain)" % (cname, m))
            out.append(c)
            bases = c.bases
            if len(bases) == 0 or (len(bases) == 1 and T._is_name(bases[0], "object")):
                return out
            if len(bases) != 1 or not isinstance(bases[0], ast.Name):
                _un("class %s: multiple / computed bases" % cname)
            cname = bases[0].id

    def lookup(self, cname, name):
        """('method', fn) / ('const', value) / None, first class on the MRO that binds `name`"""
        for c in self.mro(cname):
            for st in c.other:
                cc = _class_const(st)
                if cc is not None and cc[0] == name:
                    return ("const", cc[1])
            if name in c.methods:
                return ("method", c.methods[name])
        return None

    def init_params(self, cname):
        """parameter names (without self) of the first __init__ on the MRO"""
        for c in self.mro(cname):
            if "__init__" in c.methods:
                return [a.arg for a in c.methods["__init__"].args.args][1:]
        return []

    def init_fields(self, cname, argvals, node=None):
        """bind ALL constructor arguments (abstract values) to the fields the __init__ chain
        assigns; defaults are tolerated only when they are the literal False and every argument
        is passed"""
        fields = {}
        chain = self.mro(cname)

        def run(k, vals):
            while k < len(chain) and "__init__" not in chain[k].methods:
                k += 1
            if k == len(chain):
                if vals:
                    _un("%s: constructor arguments but no __init__" % cname, node)
                return
            init = chain[k].methods["__init__"]
            a = init.args
            params = [x.arg for x in a.args]
            if (
                not params or params[0] != "self" or a.vararg or a.kwarg or a.kwonlyargs
                or a.posonlyargs or init.decorator_list
                or not all(isinstance(d, ast.Constant) and d.value is False for d in a.defaults)
            ):
                _un("%s.__init__: signature not read" % chain[k].name, init)
            if len(params) - 1 != len(vals):
                _un("%s.__init__: arity" % chain[k].name, node or init)
            env = dict(zip(params[1:], vals))
            for st in T._strip_doc(init.body):
                if (
                    isinstance(st, ast.Assign)
                    and len(st.targets) == 1
                    and isinstance(st.targets[0], ast.Attribute)
                    and T._is_name(st.targets[0].value, "self")
                    and isinstance(st.value, ast.Name)
                    and st.value.id in env
                ):
                    if st.targets[0].attr in fields:
                        _un("%s.__init__: field assigned twice" % chain[k].name, st)
                    fields[st.targets[0].attr] = env[st.value.id]
                elif T._Tr._is_super_init(st, chain[k].name):
                    call = st.value
                    if call.keywords or not all(isinstance(x, ast.Name) and x.id in env for x in call.args):
                        _un("%s.__init__: super().__init__ arguments not read" % chain[k].name, st)
                    run(k + 1, [env[x.id] for x in call.args])
                else:
                    _un("%s.__init__: statement not read" % chain[k].name, st)

        run(0, list(argvals))
        for c in chain:
            for mname, fn in c.methods.items():
                if mname == "__init__":
                    continue
                for n in ast.walk(fn):
                    if (
                        isinstance(n, ast.Attribute)
                        and isinstance(n.ctx, (ast.Store, ast.Del))
                        and T._is_name(n.value, "self")
                    ):
                        _un("%s.%s assigns an attribute of self" % (c.name, mname), n)
        # a field shadowed by a method / constant of the class chain is not a plain field
        for f in fields:
            if self.lookup(cname, f) is not None:
                _un("%s: the field %s is also a class attribute" % (cname, f))
        return fields


# ------------------------------------------------------------------------------------
# the translator of one module
# ------------------------------------------------------------------------------------

_ARITH = {ast.Add: "SAdd", ast.Sub: "SSub", ast.Mult: "SMul", ast.Div: "SDiv"}
_RESERVED = ("self", "cls", "np", "DT", "len", "zip", "super", "lazyproperty")

MATRIX_PARAMS = {
    "base_values": ("arr", ("SArr", "base_values"), 2),
    "counts": ("arr", ("SArr", "counts"), 2),
    "default_insertions": ("arr", ("SArr", "default_insertions"), 2),
    "dimensions": ("dims",),
    "diff_cols_nan": ("bool", ("KParam", "diff_cols_nan")),
    "diff_rows_nan": ("bool", ("KParam", "diff_rows_nan")),
}
STRIPE_PARAMS = {
    "base_values": ("arr", ("SArr", "base_values"), 1),
    "counts": ("arr", ("SArr", "counts"), 1),
    "default_values": ("arr", ("SArr", "default_values"), 1),
    "rows_dimension": ("dimobj", "Rows"),
}


def _full_slice(n):
    return isinstance(n, ast.Slice) and n.lower is None and n.upper is None and n.step is None


class _S(object):
    def __init__(self, text, kind):
        self.kind = kind
        self.text = text
        self.m = _SMod(text, S_MATRIX if kind == "matrix" else S_STRIPE)
        self.params = MATRIX_PARAMS if kind == "matrix" else STRIPE_PARAMS
        self.problem = self._check_module()

    def _check_module(self):
        if not self.m.only_imports_and_classes():
            return "module-level statements other than imports and classes"
        imp = self.m.imported()
        want = {
            "np": ("numpy", None),
            "DT": ("cr.cube.enums", "DIMENSION_TYPE"),
            "lazyproperty": ("cr.cube.util", "lazyproperty"),
        }
        for nm, v in want.items():
            if imp.get(nm) != v:
                return "the name %s is not imported as expected" % nm
        for nm in imp:
            if nm not in want:
                return "unexpected import %s" % nm
        for c in self.m.classes:
            if c in _RESERVED:
                return "a class shadows the name %s" % c
        return None

    # -- entry points ---------------------------------------------------------------
    def param_value(self, p, node=None):
        if p not in self.params:
            _un("constructor parameter %s is not one the sub-language knows" % p, node)
        return self.params[p]

    def instance_fields(self, cname):
        if self.problem:
            _un(self.problem)
        ps = self.m.init_params(cname)
        return self.m.init_fields(cname, [self.param_value(p) for p in ps])

    def member(self, cname, mname):
        """an instance-level member (lazyproperty, or a method whose parameters are free:
        `*subtotal*` -> RArg k in positional order, `default` -> SDflt)"""
        fields = self.instance_fields(cname)
        return self._member(cname, fields, mname)

    def _member(self, cname, fields, mname):
        hit = self.m.lookup(cname, mname)
        if hit is None or hit[0] != "method":
            _un("%s has no method / property %s" % (cname, mname))
        fn = hit[1]
        ctx = {"cname": cname, "fields": fields, "env": {}, "stack": ((cname, mname),), "loops": ()}
        if M._plain_lazy(fn):
            return self.body(T._strip_doc(fn.body), ctx, fn)
        if not M._plain_method(fn):
            _un("%s.%s is neither a plain @lazyproperty nor a plain method" % (cname, mname), fn)
        env, k = {}, 0
        for a in fn.args.args[1:]:
            if a.arg in _RESERVED:
                _un("parameter shadows %s" % a.arg, fn)
            if "subtotal" in a.arg:
                env[a.arg] = ("sub", ("RArg", k))
                k += 1
            elif a.arg == "default":
                env[a.arg] = ("arr", ("SDflt",), self.default_rank(mname, fn))
            else:
                _un("%s.%s: parameter %s is neither a subtotal nor `default`" % (cname, mname, a.arg), fn)
        return self.body(T._strip_doc(fn.body), dict(ctx, env=env), fn)

    def default_rank(self, mname, node):
        # `default` is one column / row of the default insertions (matrix), one value (stripe)
        return 1 if self.kind == "matrix" else 0

    def classmethod_member(self, cname, mname):
        """`@classmethod def m(cls, p..): return cls(p..).<member>`"""
        if self.problem:
            _un(self.problem)
        hit = self.m.lookup(cname, mname)
        if hit is None or hit[0] != "method":
            _un("%s has no classmethod %s" % (cname, mname))
        fn = hit[1]
        a = fn.args
        if not (len(fn.decorator_list) == 1 and T._is_name(fn.decorator_list[0], "classmethod")):
            _un("%s.%s is not a plain @classmethod" % (cname, mname), fn)
        params = [x.arg for x in a.args]
        if (
            not params or params[0] != "cls" or a.vararg or a.kwarg or a.kwonlyargs or a.posonlyargs
            or not all(isinstance(d, ast.Constant) and d.value is False for d in a.defaults)
            or len(set(params)) != len(params)
        ):
            _un("%s.%s: signature not read" % (cname, mname), fn)
        body = T._strip_doc(fn.body)
        if not (len(body) == 1 and isinstance(body[0], ast.Return) and isinstance(body[0].value, ast.Attribute)):
            _un("%s.%s is not `return cls(..).<member>`" % (cname, mname), fn)
        attr = body[0].value
        call = attr.value
        if not (
            isinstance(call, ast.Call) and T._is_name(call.func, "cls") and not call.keywords
            and all(isinstance(x, ast.Name) and x.id in params[1:] for x in call.args)
        ):
            _un("%s.%s: constructor call not read" % (cname, mname), fn)
        vals = [self.param_value(x.id, x) for x in call.args]
        fields = self.m.init_fields(cname, vals, call)
        return self._member(cname, fields, attr.attr)

    # -- statements -----------------------------------------------------------------
    def body(self, stmts, ctx, where):
        if not stmts:
            _un("no `return <expr>` on this path", where)
        st, rest = stmts[0], stmts[1:]
        if isinstance(st, ast.Return):
            if st.value is None:
                _un("bare return", st)
            return self.expr(st.value, ctx)
        if (
            isinstance(st, ast.Assign)
            and len(st.targets) == 1
            and isinstance(st.targets[0], ast.Name)
            and st.targets[0].id not in _RESERVED
        ):
            env = dict(ctx["env"])
            env[st.targets[0].id] = self.expr(st.value, ctx)
            return self.body(rest, dict(ctx, env=env), where)
        if isinstance(st, ast.Expr) and isinstance(st.value, ast.Constant) and isinstance(st.value.value, str):
            return self.body(rest, ctx, where)
        if isinstance(st, ast.If):
            c = self.cond(self.expr(st.test, ctx), st.test)
            a = self.body(list(st.body), ctx, st)  # must return on every path
            if st.orelse:
                if rest:
                    _un("statements after an if / else", rest[0])
                b = self.body(list(st.orelse), ctx, st)
            else:
                b = self.body(list(rest), ctx, where)
            return self.sif(c, a, b, st)
        _un("statement not read", st)

    def sif(self, c, a, b, node):
        if a[0] == "bool" and b[0] == "bool":
            # (c and a) or (not c and b)
            return ("bool", ("KOr", ("KAnd", c, a[1]), ("KAnd", ("KNot", c), b[1])))
        ta, ra = self.arr(a, node)
        tb, rb = self.arr(b, node)
        if ra != rb:
            _un("the two branches have different ranks (%d, %d)" % (ra, rb), node)
        return ("arr", ("SIf", c, ta, tb), ra)

    # -- coercions ------------------------------------------------------------------
    def arr(self, v, node):
        """(term, rank) of an array / scalar valued abstract value"""
        if v[0] == "arr":
            return v[1], v[2]
        if v[0] == "int":
            return ("SNum", Fraction(v[1])), 0
        _un("not an array-valued expression (%s)" % v[0], node)

    def cond(self, v, node):
        if v[0] == "bool":
            return v[1]
        _un("not a boolean expression of the sub-language (%s)" % v[0], node)

    def dim(self, v, node):
        if v[0] == "int" and v[1] >= 0:
            return ("NLit", v[1])
        if v[0] == "len":
            return v[1]
        _un("not a length expression (%s)" % v[0], node)

    # -- expressions ----------------------------------------------------------------
    def expr(self, e, ctx):
        if isinstance(e, ast.Constant):
            if type(e.value) is int:
                return ("int", e.value)
            _un("literal outside the sub-language", e)
        if isinstance(e, ast.Name):
            if e.id in ctx["env"]:
                return ctx["env"][e.id]
            if e.id == "self":
                return ("self",)
            _un("name not bound in the method", e)
        if isinstance(e, ast.Attribute):
            return self.attribute(e, ctx)
        if isinstance(e, ast.Subscript):
            return self.subscript(e, ctx)
        if isinstance(e, ast.BinOp):
            if type(e.op) not in _ARITH:
                _un("operator outside the sub-language", e)
            a, ra = self.arr(self.expr(e.left, ctx), e.left)
            b, rb = self.arr(self.expr(e.right, ctx), e.right)
            if ra != rb and ra != 0 and rb != 0:
                _un("arithmetic on arrays of different rank", e)
            return ("arr", (_ARITH[type(e.op)], a, b), max(ra, rb))
        if isinstance(e, ast.BoolOp):
            vs = [self.cond(self.expr(x, ctx), x) for x in e.values]
            k = "KAnd" if isinstance(e.op, ast.And) else "KOr"
            out = vs[0]
            for v in vs[1:]:
                out = (k, out, v)
            return ("bool", out)
        if isinstance(e, ast.UnaryOp) and isinstance(e.op, ast.Not):
            return ("bool", ("KNot", self.cond(self.expr(e.operand, ctx), e.operand)))
        if isinstance(e, ast.Compare):
            return self.compare(e, ctx)
        if isinstance(e, ast.IfExp):
            c = self.cond(self.expr(e.test, ctx), e.test)
            return self.sif(c, self.expr(e.body, ctx), self.expr(e.orelse, ctx), e)
        if isinstance(e, ast.Tuple):
            return ("tuple", [self.expr(x, ctx) for x in e.elts])
        if isinstance(e, ast.List):
            if len(e.elts) == 2:
                # an entry that cannot be read makes THAT entry unavailable (("bad", reason)), not
                # the whole block structure
                vs = []
                for x in e.elts:
                    try:
                        v = self.expr(x, ctx)
                        if v[0] != "brow":
                            v = ("cell",) + tuple(self.arr(v, x))
                    except Unavailable as ex:
                        v = ("bad", ex)
                    vs.append(v)
                if vs[0][0] == "brow" and vs[1][0] == "brow":
                    return ("blocks", [vs[0][1], vs[1][1]])
                if any(v[0] == "brow" for v in vs):
                    _un("list display mixing rows and cells", e)
                return ("brow", vs)
            if not e.elts:
                return ("emptylist",)
            _un("list display outside the sub-language", e)
        if isinstance(e, ast.ListComp):
            return self.listcomp(e, ctx)
        if isinstance(e, ast.Call):
            return self.call(e, ctx)
        _un("expression outside the sub-language", e)

    def compare(self, e, ctx):
        if len(e.ops) != 1:
            _un("chained comparison", e)
        op, l, r = e.ops[0], self.expr(e.left, ctx), self.expr(e.comparators[0], ctx)
        # <dimension>.dimension_type ==/!= DT.CAT_DATE
        if l[0] == "dimtype" and r == ("DT", "CAT_DATE"):
            if isinstance(op, ast.Eq):
                return ("bool", ("KDate", l[1]))
            if isinstance(op, ast.NotEq):
                return ("bool", ("KNot", ("KDate", l[1])))
        # len(<idxs>) > k ;  len(<subtotals>) == 0
        if l[0] == "lenidxs" and r[0] == "int" and r[1] >= 0 and isinstance(op, ast.Gt):
            return ("bool", ("KLenGt", l[1], r[1]))
        if l[0] == "len" and l[1][0] == "NLenSubs" and r == ("int", 0) and isinstance(op, ast.Eq):
            return ("bool", ("KNoSubs", l[1][1]))
        _un("comparison outside the sub-language", e)

    def attribute(self, e, ctx):
        if T._is_name(e.value, "np") and "np" not in ctx["env"]:
            if e.attr == "nan":
                return ("arr", ("SNan",), 0)
            _un("np.%s outside the sub-language" % e.attr, e)
        if T._is_name(e.value, "DT") and "DT" not in ctx["env"]:
            return ("DT", e.attr)
        base = self.expr(e.value, ctx)
        if base == ("self",):
            if e.attr in ctx["fields"]:
                return ctx["fields"][e.attr]
            hit = self.m.lookup(ctx["cname"], e.attr)
            if hit is None:
                _un("self.%s is neither a field, a constant nor a member" % e.attr, e)
            if hit[0] == "const":
                return hit[1]
            fn = hit[1]
            if not M._plain_lazy(fn):
                _un("self.%s is not a plain @lazyproperty" % e.attr, e)
            key = (ctx["cname"], e.attr)
            if key in ctx["stack"]:
                _un("%s.%s refers to itself" % key, e)
            sub = dict(ctx, env={}, stack=ctx["stack"] + (key,))
            return self.body(T._strip_doc(fn.body), sub, fn)
        if base[0] == "dimobj":
            if e.attr == "subtotals":
                return ("subs", base[1])
            if e.attr == "dimension_type":
                return ("dimtype", base[1])
            _un("attribute of a dimension other than subtotals / dimension_type", e)
        if base[0] == "sub":
            if e.attr == "addend_idxs":
                return ("idxs", ("IAdd", base[1]))
            if e.attr == "subtrahend_idxs":
                return ("idxs", ("ISub", base[1]))
            _un("attribute of a subtotal other than addend_idxs / subtrahend_idxs", e)
        if base[0] == "arr":
            if e.attr == "shape" and base[1][0] == "SArr":
                return ("shape", base[1][1], base[2])
            if e.attr == "T":
                return ("arr", ("ST", base[1]), base[2])
            _un("array attribute outside the sub-language", e)
        _un("attribute outside the sub-language", e)

    def subscript(self, e, ctx):
        base = self.expr(e.value, ctx)
        sl = e.slice
        if base[0] == "dims":
            k = T._nat(sl)
            if self.kind == "matrix" and k in (0, 1):
                return ("dimobj", "Rows" if k == 0 else "Cols")
            _un("dimension index other than 0 / 1", e)
        if base[0] == "shape":
            k = T._nat(sl)
            if k is None and isinstance(sl, ast.Name):  # a parameter bound to a literal (axis=0)
                v = self.expr(sl, ctx)
                k = v[1] if v[0] == "int" and v[1] >= 0 else None
            if k is not None and k < base[2]:
                return ("len", ("NShape", base[1], k))
            _un("shape index outside the array's rank", e)
        if base[0] in ("blocks", "brow"):
            k = T._nat(sl)
            if k in (0, 1):
                if base[0] == "blocks":
                    return ("brow", base[1][k])
                c = base[1][k]
                if c[0] == "bad":
                    raise c[1]
                return ("arr", c[1], c[2])
            _un("block index other than 0 / 1", e)
        if base[0] == "arr":
            t, rank = base[1], base[2]
            if rank == 1:
                ix = self.expr(sl, ctx) if not isinstance(sl, (ast.Slice, ast.Tuple)) else None
                if ix is not None and ix[0] == "idxs":
                    return ("arr", ("STake", t, ix[1]), 1)
            if rank == 2 and isinstance(sl, ast.Tuple) and len(sl.elts) == 2:
                a, b = sl.elts
                if _full_slice(a) and not isinstance(b, ast.Slice):
                    ix = self.expr(b, ctx)
                    if ix[0] == "idxs":
                        return ("arr", ("STakeCols", t, ix[1]), 2)
                if _full_slice(b) and not isinstance(a, ast.Slice):
                    if T._nat(a) is not None:
                        return ("arr", ("SRow", t, T._nat(a)), 1)
                    ix = self.expr(a, ctx)
                    if ix[0] == "idxs":
                        return ("arr", ("STakeRows", t, ix[1]), 2)
            _un("indexing outside the sub-language", e)
        _un("subscript outside the sub-language", e)

    # -- comprehensions ---------------------------------------------------------------
    def _generator(self, g, ctx):
        """one `for <target> in <iter>` -> (direction, zipped array term or None, new ctx)"""
        if g.ifs or getattr(g, "is_async", 0):
            _un("comprehension with a condition", g.iter)
        it = self.expr(g.iter, ctx)
        env = dict(ctx["env"])
        if it[0] == "subs":
            d, z = it[1], None
            if not isinstance(g.target, ast.Name) or g.target.id in _RESERVED:
                _un("loop target not read", g.target)
            env[g.target.id] = ("sub", ("RLoop", d))
        elif it[0] == "zip":
            d, z, zr = it[1], it[2], it[3]
            tg = g.target
            if not (
                isinstance(tg, ast.Tuple) and len(tg.elts) == 2
                and all(isinstance(x, ast.Name) and x.id not in _RESERVED for x in tg.elts)
                and tg.elts[0].id != tg.elts[1].id
            ):
                _un("loop target not read", tg)
            if any(self._mentions_dflt(v) for v in env.values()):
                _un("nested `default` bindings")
            env[tg.elts[0].id] = ("sub", ("RLoop", d))
            env[tg.elts[1].id] = ("arr", ("SDflt",), zr - 1)
        else:
            _un("iteration over something other than subtotals / zip(subtotals, array)", g.iter)
        if d in ctx["loops"]:
            _un("nested loops over the subtotals of one dimension", g.iter)
        # a name bound outside that refers to the loop variable of the same direction would be
        # captured: there is none, loop variables only exist inside their comprehension
        return d, z, dict(ctx, env=env, loops=ctx["loops"] + (d,))

    @staticmethod
    def _mentions_dflt(v):
        def walk(t):
            if isinstance(t, tuple):
                return t[:1] == ("SDflt",) or any(walk(x) for x in t)
            if isinstance(t, list):
                return any(walk(x) for x in t)
            return False
        return walk(v)

    def listcomp(self, e, ctx):
        if len(e.generators) == 1:
            d, z, sub = self._generator(e.generators[0], ctx)
            return ("comp", d, z, self.expr(e.elt, sub), e.elt)
        if len(e.generators) == 2:
            d1, z1, sub1 = self._generator(e.generators[0], ctx)
            d2, z2, sub2 = self._generator(e.generators[1], sub1)
            if z1 is not None or z2 is not None:
                _un("zip in a nested comprehension", e)
            return ("comp2", d1, d2, self.expr(e.elt, sub2), e.elt)
        _un("comprehension with more than two loops", e)

    # -- calls ------------------------------------------------------------------------
    def call(self, e, ctx):
        f = e.func
        if any(isinstance(a, ast.Starred) for a in e.args) or any(k.arg is None for k in e.keywords):
            _un("star arguments", e)
        # len(x)
        if T._is_name(f, "len") and "len" not in ctx["env"]:
            if len(e.args) != 1 or e.keywords:
                _un("len arity", e)
            v = self.expr(e.args[0], ctx)
            if v[0] == "idxs":
                return ("lenidxs", v[1])
            if v[0] == "subs":
                return ("len", ("NLenSubs", v[1]))
            _un("len of something other than an index list / the subtotals", e)
        # zip(subtotals, array)
        if T._is_name(f, "zip") and "zip" not in ctx["env"]:
            if len(e.args) != 2 or e.keywords:
                _un("zip arity", e)
            a, b = self.expr(e.args[0], ctx), self.expr(e.args[1], ctx)
            if a[0] == "subs" and b[0] == "arr" and b[2] >= 1:
                return ("zip", a[1], b[1], b[2])
            _un("zip of something other than (subtotals, array)", e)
        # np.*
        if isinstance(f, ast.Attribute) and T._is_name(f.value, "np") and "np" not in ctx["env"]:
            return self.np_call(f.attr, e, ctx)
        # x.reshape(..)
        if isinstance(f, ast.Attribute) and f.attr == "reshape":
            if e.keywords:
                _un("reshape keywords", e)
            v = self.expr(f.value, ctx)
            dims = [self.expr(a, ctx) for a in e.args]
            if len(dims) == 1 and dims[0][0] == "tuple":
                dims = dims[0][1]
            if v[0] == "flat2" and len(dims) == 2:
                return ("arr", ("SGrid", v[1], v[2], v[3], self.dim(dims[0], e), self.dim(dims[1], e)), 2)
            if v[0] == "arr" and v[2] == 1 and len(dims) == 2 and dims[1] == ("int", 1):
                return ("column", v[1], self.dim(dims[0], e))
            _un("reshape outside the sub-language", e)
        # self._method(args)
        if isinstance(f, ast.Attribute) and T._is_name(f.value, "self") and "self" not in ctx["env"]:
            return self.call_method(f.attr, e, ctx)
        _un("call outside the sub-language", e)

    def call_method(self, mname, e, ctx):
        cname = ctx["cname"]
        if mname in ctx["fields"]:
            _un("call of a field", e)
        hit = self.m.lookup(cname, mname)
        if hit is None or hit[0] != "method":
            _un("%s has no method %s" % (cname, mname), e)
        fn = hit[1]
        if not M._plain_method(fn):
            _un("%s.%s is not a plain method" % (cname, mname), fn)
        key = (cname, mname)
        if key in ctx["stack"]:
            _un("%s.%s refers to itself" % key, e)
        params = [a.arg for a in fn.args.args][1:]
        if any(p in _RESERVED for p in params) or len(set(params)) != len(params):
            _un("%s.%s: parameter names" % key, fn)
        if len(e.args) > len(params):
            _un("%s.%s: arity" % key, e)
        env = {}
        for p, a in zip(params, e.args):
            env[p] = self.expr(a, ctx)
        for kw in e.keywords:
            if kw.arg not in params or kw.arg in env:
                _un("%s.%s: keyword %s" % (key + (kw.arg,)), e)
            env[kw.arg] = self.expr(kw.value, ctx)
        if set(env) != set(params):
            _un("%s.%s: arity" % key, e)
        sub = dict(ctx, env=env, stack=ctx["stack"] + (key,))
        return self.body(T._strip_doc(fn.body), sub, fn)

    def np_call(self, name, e, ctx):
        args = [self.expr(a, ctx) for a in e.args]
        kws = {k.arg: self.expr(k.value, ctx) for k in e.keywords}
        if name == "sum":
            if len(args) != 1 or set(kws) - {"axis"}:
                _un("np.sum arguments", e)
            t, rank = self.arr(args[0], e)
            if "axis" in kws:
                ax = kws["axis"]
                if ax[0] != "int" or not (0 <= ax[1] < rank):
                    _un("np.sum axis is not a literal axis of the operand", e)
                return ("arr", ("SSum", t, ax[1]), rank - 1)
            if rank != 1:
                _un("np.sum without axis of an array that is not 1-D", e)
            return ("arr", ("SSum", t, None), 0)
        if name == "full":
            if len(args) != 2 or kws:
                _un("np.full arguments", e)
            x, rx = self.arr(args[1], e)
            if rx != 0:
                _un("np.full fill value is not a scalar", e)
            if args[0][0] == "shape":
                return ("arr", ("SFullLike", args[0][1], x), args[0][2])
            return ("arr", ("SFull", self.dim(args[0], e), x), 1)
        if name == "empty":
            if len(args) != 1 or kws or args[0][0] != "tuple" or len(args[0][1]) != 2:
                _un("np.empty arguments", e)
            a, b = args[0][1]
            if b == ("int", 0):
                return ("arr", ("SEmptyCols", self.dim(a, e)), 2)
            if a == ("int", 0):
                return ("arr", ("SEmptyRows", self.dim(b, e)), 2)
            _un("np.empty of a shape without a literal 0", e)
        if name == "array":
            if len(args) != 1 or kws:
                _un("np.array arguments", e)
            v = args[0]
            if v == ("emptylist",):
                return ("arr", ("SEmptyVec",), 1)
            if v[0] == "comp":
                t, r = self.arr(v[3], v[4])
                if r > 1:
                    _un("np.array of a comprehension of matrices", e)
                # vectors: 2-D -- except that it is the 1-D empty array when there is no subtotal
                # (the evaluator knows; the rank only guards the translator's own checks)
                return ("arr", ("SVecOf", v[1], v[2], t), r + 1)
            if v[0] == "comp2":
                t, r = self.arr(v[3], v[4])
                if r != 0:
                    _un("np.array of a comprehension of non-scalars", e)
                return ("flat2", v[1], v[2], t)
            _un("np.array of something other than [] / a comprehension over subtotals", e)
        if name == "hstack":
            if len(args) != 1 or kws or args[0][0] != "comp" or args[0][3][0] != "column":
                _un("np.hstack of something other than [<1-D>.reshape(n, 1) for ..]", e)
            v = args[0]
            return ("arr", ("SHstack", v[1], v[3][2], v[2], v[3][1]), 2)
        if name == "vstack":
            if len(args) != 1 or kws or args[0][0] != "comp":
                _un("np.vstack of something other than a comprehension over subtotals", e)
            v = args[0]
            t, r = self.arr(v[3], v[4])
            if r != 1:
                _un("np.vstack of a comprehension of non-vectors", e)
            return ("arr", ("SVstack", v[1], v[2], t), 2)
        _un("np.%s outside the sub-language" % name, e)


# ------------------------------------------------------------------------------------
# emission
# ------------------------------------------------------------------------------------

HEADER = """(* GENERATED by harness/translate/subtotals.py from %s
   -- do not edit; rewritten (only when its text changes) on every check.
   One definition per (class, member) -- for `_blocks` / `blocks` one per block: [Some <sexp>] =
   what the source says, read through the whitelist of the translator (Base/SubtotalExp.v gives
   the meaning); [None] = the translator could not read the member (it is then tied to the
   model by the correspondence check only). *)
From Coq Require Import List String QArith.
From CC Require Import Base.SubtotalExp.
Import ListNotations.
Local Close Scope Q_scope.
Local Open Scope string_scope.

"""

# (class, [(member, kind)]);  kind: "i" instance member -> option sexp, "c" classmethod,
# "ib" / "cb" the same returning the 2x2 blocks (four definitions), "k" a boolean member
_BASE_M = [("_subtotal_column", "i"), ("_subtotal_row", "i"), ("_intersection", "i"),
           ("_subtotal_columns", "i"), ("_subtotal_rows", "i"), ("_intersections", "i"),
           ("_blocks", "ib"), ("blocks", "cb")]
MATRIX_TARGETS = (
    ("SumSubtotals", _BASE_M + [("intersections", "c"), ("subtotal_columns", "c"), ("subtotal_rows", "c")]),
    ("PositiveTermSubtotals", _BASE_M),
    ("NegativeTermSubtotals", _BASE_M),
    ("NanSubtotals", _BASE_M),
    ("WaveDiffSubtotal", [("_multiple_subtrahends_or_addends", "k"), ("_subtotal_column", "i"),
                          ("_subtotal_row", "i"), ("_subtotal_columns", "i"), ("_subtotal_rows", "i"),
                          ("subtotal_columns", "c"), ("subtotal_rows", "c")]),
    ("OverlapSubtotals", [("_subtotal_rows", "i")]),
)
_BASE_S = [("_subtotal_value", "i"), ("_subtotal_values", "i"), ("subtotal_values", "c")]
STRIPE_TARGETS = (
    ("SumSubtotals", _BASE_S),
    ("PositiveTermSubtotals", _BASE_S),
    ("NegativeTermSubtotals", _BASE_S),
    ("NanSubtotals", [("_subtotal_values", "i"), ("subtotal_values", "c")]),
    ("WaveDiffSubtotals", [("_multiple_subtrahends_or_addends", "k")] + _BASE_S),
)


def _emit(tr, targets, prefix, modname, report, L):
    for cname, members in targets:
        L.append("(** * %s *)" % cname)
        for m, kind in members:
            what = "%s.%s" % (cname, m)
            val, err = None, None
            try:
                val = tr.classmethod_member(cname, m) if kind[0] == "c" else tr.member(cname, m)
            except Unavailable as ex:
                err = ex
            if kind in ("ib", "cb"):
                idents = [("%s%s_%s_%d%d" % (prefix, cname, m, i, j), (i, j)) for i in (0, 1) for j in (0, 1)]
            else:
                idents = [("%s%s_%s" % (prefix, cname, m), None)]
            for ident, ij in idents:
                term, ty, e2 = "None", "sexp", err
                if kind == "k":
                    ty = "scond"
                if val is not None:
                    try:
                        if kind == "k":
                            term = "Some (%s)" % p_cond(tr.cond(val, None))
                        elif ij is not None:
                            if val[0] != "blocks":
                                _un("not a 2x2 block structure of the sub-language")
                            c = val[1][ij[0]][ij[1]]
                            if c[0] == "bad":
                                raise c[1]
                            term = "Some (%s)" % p_sexp(c[1])
                        else:
                            term = "Some (%s)" % p_sexp(tr.arr(val, None)[0])
                    except Unavailable as ex:
                        e2 = ex
                w = what if ij is None else "%s[%d][%d]" % (what, ij[0], ij[1])
                if term == "None":
                    report["unavailable"].append({"method": "%s:%s" % (modname, w), "reason": str(e2)})
                    L.append("(* %s not read: %s *)" % (w, T._coq_comment(str(e2))))
                else:
                    report["methods_translated"].append("%s:%s" % (modname, w))
                L.append("Definition %s : option %s := %s." % (ident, ty, term))
        L.append("")


def _gen(text, kind, report):
    tr = _S(text, kind)
    L = []
    if kind == "matrix":
        _emit(tr, MATRIX_TARGETS, "src_", "matrix-subtotals", report, L)
        return HEADER % ("src/" + S_MATRIX) + "\n".join(L) + "\n"
    _emit(tr, STRIPE_TARGETS, "ssrc_", "stripe-insertion", report, L)
    return HEADER % ("src/" + S_STRIPE) + "\n".join(L) + "\n"


GEN_FILES = ("SubtotalsSrc.v", "StripeInsertionSrc.v")


def _fallback(what, ex):
    return HEADER % what + "(* translator failed: %s *)\n" % T._coq_comment(repr(ex))


def regenerate(repo_src, gen_dir, report):
    """Adds Gen/SubtotalsSrc.v, Gen/StripeInsertionSrc.v; extends `report`."""
    report["subtotals_version"] = VERSION
    texts = {}
    for rel in (S_MATRIX, S_STRIPE):
        p = os.path.join(repo_src, rel)
        try:
            with open(p, encoding="utf-8") as f:
                texts[rel] = f.read()
            report["files"]["src/" + rel] = T._sha(texts[rel])
        except (OSError, UnicodeDecodeError) as ex:
            texts[rel] = None
            report["files"].setdefault("src/" + rel, None)
            report["errors"].append("cannot read %s: %r" % (rel, ex))
    jobs = (
        ("SubtotalsSrc.v", lambda: _gen(texts[S_MATRIX], "matrix", report), "src/" + S_MATRIX),
        ("StripeInsertionSrc.v", lambda: _gen(texts[S_STRIPE], "stripe", report), "src/" + S_STRIPE),
    )
    outs = {}
    for name, job, what in jobs:
        try:
            outs[name] = job()
        except Exception as ex:  # SyntaxError of the source, missing file, a bug of ours
            report["errors"].append("%s: %r" % (name, ex))
            outs[name] = _fallback(what, ex)
    os.makedirs(gen_dir, exist_ok=True)
    for name, text in sorted(outs.items()):
        changed = T._write_if_changed(os.path.join(gen_dir, name), text)
        report["gen_files"]["Gen/" + name] = {"sha256": T._sha(text), "rewritten": changed}
    return report


if __name__ == "__main__":  # manual run: python -m harness.translate.subtotals <repo_src> <gen_dir>
    import json
    import sys

    rep = {"files": {}, "errors": [], "gen_files": {}, "methods_translated": [], "unavailable": []}
    regenerate(sys.argv[1], sys.argv[2], rep)
    json.dump(rep, sys.stdout, indent=1)
