# -*- coding: utf-8 -*-
"""Respondent-level surveys and the Crunch cube responses they tabulate to.

One Python description of a case (variables, respondents, weights) is emitted as
Crunch JSON for the implementation; the property modules additionally emit Gallina
literals for the model.  All random choices come from the `random.Random` passed in.

Variable kinds
  cat / cat_date / logical-like categorical:   one answer = index into `cats`
  mr  (multiple response):                     per item a state 0=selected 1=other 2=missing
  ca  (categorical array):                     per item an index into `cats`
  datetime / text / binned (enum dims):        one answer = index into `elements`
Numeric variables (for mean / sum / stddev / median measures): a value or None.
"""
import copy
import itertools
from fractions import Fraction

SEL, OTH, MIS = 0, 1, 2


def dy(rng, lo=0, hi=12, den=4):
    """dyadic rational in [lo/den, hi/den]"""
    return Fraction(rng.randint(lo, hi), den)


def fnum(fr):
    """Fraction -> JSON number (int when integral, else exact float for dyadics)"""
    if fr is None:
        return None
    fr = Fraction(fr)
    if fr.denominator == 1:
        return int(fr)
    return float(fr)


class Var(object):
    kind = None
    alias = None
    name = None

    def __init__(self, **kw):
        self.view_insertions = None
        self.description = None
        self.__dict__.update(kw)


def make_cat(rng, alias, n_valid=None, n_missing=None, date=False, numeric=None,
             missing_anywhere=True, ids=None):
    """A categorical variable.  Missing categories may sit anywhere in the payload."""
    n_valid = rng.randint(1, 5) if n_valid is None else n_valid
    n_missing = rng.choice([0, 0, 1, 1, 2]) if n_missing is None else n_missing
    n = n_valid + n_missing
    if ids is None:
        pool = list(range(1, 3 * n + 3))
        if rng.random() < 0.2:
            pool += [-1, 0, 32767]
        ids = rng.sample(pool, n)
        if rng.random() < 0.6:
            ids = sorted(ids)
    flags = [False] * n_valid + [True] * n_missing
    if missing_anywhere and rng.random() < 0.6:
        rng.shuffle(flags)
    numeric = rng.choice([None, "all", "partial", "partial"]) if numeric is None else numeric
    cats = []
    for k in range(n):
        nv = None
        if not flags[k]:
            if numeric == "all" or (numeric == "partial" and rng.random() < 0.6):
                nv = Fraction(rng.randint(-6, 12), rng.choice([1, 1, 2]))
        c = {"id": ids[k], "missing": flags[k], "name": "%s_c%d" % (alias, ids[k]),
             "numeric_value": nv}
        if date and not flags[k]:
            c["date"] = "20%02d-%02d" % (10 + k // 12, 1 + k % 12)
        cats.append(c)
    kind = "cat_date" if date and n_valid > 0 else "cat"
    return Var(kind=kind, alias=alias, name=alias.upper(), cats=cats)


def make_mr(rng, alias, n_items=None, n_missing_items=0):
    n_items = rng.randint(1, 4) if n_items is None else n_items
    items = []
    ids = list(range(1, n_items + 1)) if rng.random() < 0.7 else sorted(
        rng.sample(range(0, 3 * n_items + 2), n_items))
    for k in range(n_items):
        items.append({"id": ids[k], "subvar_id": "%04d" % (k + (0 if rng.random() < .5 else 7)),
                      "alias": "%s_i%d" % (alias, k), "name": "%s item %d" % (alias, k),
                      "missing": False})
    # make subvar ids unique
    for k, it in enumerate(items):
        it["subvar_id"] = "%s%02d" % (it["subvar_id"][:2], k)
    return Var(kind="mr", alias=alias, name=alias.upper(), items=items)


def make_ca(rng, alias, n_items=None, n_valid=None, n_missing=None):
    n_items = rng.randint(1, 3) if n_items is None else n_items
    v = make_cat(rng, alias, n_valid=n_valid, n_missing=n_missing)
    items = [{"id": k + 1, "subvar_id": "%04d" % k, "alias": "%s_s%d" % (alias, k),
              "name": "%s sub %d" % (alias, k), "missing": False} for k in range(n_items)]
    return Var(kind="ca", alias=alias, name=alias.upper(), items=items, cats=v.cats)


def make_enum(rng, alias, kind, n_valid=None, with_missing=None):
    n_valid = rng.randint(1, 4) if n_valid is None else n_valid
    with_missing = (rng.random() < 0.5) if with_missing is None else with_missing
    els = []
    for k in range(n_valid):
        if kind == "datetime":
            val = "20%02d-%02d" % (10 + k // 12, 1 + k % 12)
        elif kind == "text":
            val = "%s_t%d" % (alias, k)
        else:
            val = [k * 10, k * 10 + 10]
        els.append({"id": k, "value": val, "missing": False})
    if with_missing:
        els.append({"id": n_valid, "value": {"?": -1}, "missing": True})
    return Var(kind=kind, alias=alias, name=alias.upper(), elements=els)


# ------------------------------------------------------------------------------------


class Survey(object):
    """variables + respondents (answers per variable, weight, numeric values)."""

    def __init__(self, variables, n_resp, rng, weighted=None, numvars=(), zero_weights=True,
                 integer_weights=False):
        self.vars = list(variables)
        self.numvars = list(numvars)  # names
        self.weighted = (rng.random() < 0.6) if weighted is None else weighted
        self.resp = []
        for _ in range(n_resp):
            ans = {}
            for v in self.vars:
                ans[v.alias] = random_answer(rng, v)
            if self.weighted:
                if integer_weights:
                    w = Fraction(rng.randint(0 if zero_weights else 1, 4))
                else:
                    w = dy(rng, 0 if zero_weights else 1, 12, 4)
            else:
                w = Fraction(1)
            nums = {}
            for nv in self.numvars:
                nums[nv] = None if rng.random() < 0.2 else Fraction(rng.randint(-8, 40), rng.choice([1, 2, 4]))
            self.resp.append({"ans": ans, "w": w, "num": nums})

    def var(self, alias):
        for v in self.vars:
            if v.alias == alias:
                return v
        raise KeyError(alias)


def random_answer(rng, v, skew=None):
    if v.kind in ("cat", "cat_date"):
        n = len(v.cats)
        if rng.random() < 0.25:
            # concentrate on few categories => empty rows/cols elsewhere
            return rng.randrange(min(n, 2))
        return rng.randrange(n)
    if v.kind == "mr":
        return [rng.choice([SEL, SEL, OTH, OTH, MIS]) for _ in v.items]
    if v.kind == "ca":
        return [rng.randrange(len(v.cats)) for _ in v.items]
    return rng.randrange(len(v.elements))


def var_shape(v):
    if v.kind in ("cat", "cat_date"):
        return (len(v.cats),)
    if v.kind == "mr":
        return (len(v.items), 3)
    if v.kind == "ca":
        return (len(v.items), len(v.cats))
    return (len(v.elements),)


def contributions(v, a):
    """index tuples (within the variable's own axes) a respondent's answer contributes to"""
    if v.kind in ("cat", "cat_date"):
        return [(a,)]
    if v.kind == "mr":
        return [(k, s) for k, s in enumerate(a)]
    if v.kind == "ca":
        return [(k, c) for k, c in enumerate(a)]
    return [(a,)]


def tabulate(survey, aliases, weight=True, value=None):
    """Flat row-major tensor over the variables `aliases`.

    value: None -> sum of weights;  callable(resp) -> Fraction or None: sum of w*value over
    respondents with a value (used for numeric measures)."""
    vs = [survey.var(a) for a in aliases]
    shape = tuple(itertools.chain.from_iterable(var_shape(v) for v in vs))
    size = 1
    for s in shape:
        size *= s
    data = [Fraction(0)] * size
    strides = []
    acc = 1
    for s in reversed(shape):
        strides.insert(0, acc)
        acc *= s
    for r in survey.resp:
        w = r["w"] if weight else Fraction(1)
        if value is not None:
            x = value(r)
            if x is None:
                continue
            w = w * x
        contribs = [contributions(v, r["ans"][v.alias]) for v in vs]
        for combo in itertools.product(*contribs):
            idx = tuple(itertools.chain.from_iterable(combo))
            off = sum(i * s for i, s in zip(idx, strides))
            data[off] += w
    return shape, data


# ------------------------------------------------------------------------------------
# Crunch JSON
# ------------------------------------------------------------------------------------


def _refs(v, extra=None):
    r = {"alias": v.alias, "name": v.name}
    if v.description is not None:
        r["description"] = v.description
    if v.view_insertions is not None:
        r["view"] = {"transform": {"insertions": copy.deepcopy(v.view_insertions)}}
    if extra:
        r.update(extra)
    return r


def cat_json(c):
    d = {"id": c["id"], "missing": c["missing"], "name": c["name"],
         "numeric_value": fnum(c["numeric_value"])}
    if "date" in c:
        d["date"] = c["date"]
    if "selected" in c:  # only variables built to stress dimension-type detection carry it
        d["selected"] = c["selected"]
    return d


def dimension_dicts(v):
    """The list of (1 or 2) dimension dicts a variable contributes to a cube response."""
    if v.kind in ("cat", "cat_date"):
        t = {"class": "categorical", "ordinal": False, "categories": [cat_json(c) for c in v.cats]}
        if getattr(v, "order", None) is not None:
            t["order"] = list(v.order)
        return [{"derived": False, "references": _refs(v), "type": t}]
    if v.kind in ("mr", "ca"):
        subrefs = [{"alias": it["alias"], "name": it["name"]} for it in v.items]
        refs = _refs(v, {"subreferences": subrefs})
        els = []
        for it in v.items:
            val = {"derived": bool(it.get("derived", False)), "id": it["subvar_id"],
                   "references": {"alias": it["alias"], "name": it["name"]}}
            if "anchor" in it:
                val["references"]["anchor"] = it["anchor"]
            els.append({"id": it["id"], "missing": bool(it.get("missing", False)), "value": val})
        d1 = {"derived": True, "references": copy.deepcopy(refs),
              "type": {"class": "enum", "elements": els, "subtype": {"class": "variable"}}}
        if v.kind == "mr" and getattr(v, "mr_cats", None):
            # a selection dimension spelled differently (names, explicit selected:false ...)
            cats = copy.deepcopy(v.mr_cats)
        elif v.kind == "mr":
            cats = [
                {"id": 1, "missing": False, "name": "Selected", "numeric_value": 1, "selected": True},
                {"id": 0, "missing": False, "name": "Not Selected", "numeric_value": 0},
                {"id": -1, "missing": True, "name": "No Data", "numeric_value": None},
            ]
        else:
            cats = [cat_json(c) for c in v.cats]
        refs2 = copy.deepcopy(refs)
        # view insertions on a CA apply to the categories dimension
        d2 = {"derived": True, "references": refs2,
              "type": {"class": "categorical", "ordinal": False, "categories": cats,
                       "subvariables": [it["subvar_id"] for it in v.items]}}
        return [d1, d2]
    sub = {"datetime": {"class": "datetime", "resolution": "M"},
           "text": {"class": "text"},
           "binned": {"class": "numeric"}}[v.kind]
    return [{"derived": v.kind == "binned", "references": _refs(v),
             "type": {"class": "enum", "elements": copy.deepcopy(v.elements), "subtype": sub}}]


def cell_json(x):
    if x is None:
        return {"?": -8}
    return fnum(x)


def cube_response(survey, aliases, measures=("count",), numvar=None, valid_counts=False,
                  filter_stats=None, extra_result=None, unavailable=None, weighted_measure=None):
    """Crunch cube response (dict) for the crosstab of `aliases` (table, rows, cols order).

    measures: subset of count, mean, sum, stddev, median (numeric ones on `numvar`).
    unavailable: set of flat offsets whose numeric-measure cell is reported as {"?": -8}.
    """
    shape, ucounts = tabulate(survey, aliases, weight=False)
    _, wcounts = tabulate(survey, aliases, weight=True)
    dims = []
    for a in aliases:
        dims.extend(dimension_dicts(survey.var(a)))
    result = {"counts": [fnum(x) for x in ucounts], "dimensions": dims, "measures": {},
              "element": "crunch:cube", "n": len(survey.resp), "missing": 0}
    meas = result["measures"]
    weighted = survey.weighted if weighted_measure is None else weighted_measure
    if "count" in measures:
        meas["count"] = {"data": [fnum(x) for x in (wcounts if weighted else ucounts)],
                         "metadata": {"derived": True, "references": {},
                                      "type": {"class": "numeric", "integer": not weighted}},
                         "n_missing": 0}
    unavailable = unavailable or set()
    if numvar is not None:
        val = lambda r: r["num"][numvar]
        one = lambda r: (Fraction(1) if r["num"][numvar] is not None else None)
        _, wsum = tabulate(survey, aliases, weight=True, value=val)
        _, wn = tabulate(survey, aliases, weight=True, value=one)
        _, un = tabulate(survey, aliases, weight=False, value=one)
        md = {"derived": True, "references": {"alias": numvar, "name": numvar.upper()},
              "type": {"class": "numeric", "integer": False}}
        for m in measures:
            if m == "mean":
                data = [None if (n == 0 or k in unavailable) else s / n
                        for k, (s, n) in enumerate(zip(wsum, wn))]
            elif m == "sum":
                data = [None if k in unavailable else s for k, s in enumerate(wsum)]
            elif m in ("stddev", "median"):
                # pass-through values: any number will do; derive deterministically
                data = [None if (n == 0 or k in unavailable) else (abs(s) + n) / 4 if m == "stddev"
                        else s / n
                        for k, (s, n) in enumerate(zip(wsum, wn))]
            else:
                continue
            meas[m] = {"data": [cell_json(x) for x in data], "metadata": copy.deepcopy(md),
                       "n_missing": 0}
        if valid_counts:
            meas["valid_count_unweighted"] = {"data": [fnum(x) for x in un],
                                              "metadata": copy.deepcopy(md), "n_missing": 0}
            if survey.weighted and valid_counts != "unweighted_only":
                meas["valid_count_weighted"] = {"data": [fnum(x) for x in wn],
                                                "metadata": copy.deepcopy(md), "n_missing": 0}
    if filter_stats:
        result.update(copy.deepcopy(filter_stats))
    if extra_result:
        result.update(copy.deepcopy(extra_result))
    return {"query": {}, "result": result}


def valid_cat_ids(v):
    return [c["id"] for c in v.cats if not c["missing"]]


def random_insertions(rng, v, max_n=3, differences=True, stale=True, with_ids=None,
                      anchors=None):
    """A list of subtotal insertion dicts on categorical variable v."""
    valid = valid_cat_ids(v)
    missing = [c["id"] for c in v.cats if c["missing"]]
    n = rng.randint(0, max_n)
    out = []
    with_ids = rng.choice([True, False, "some"]) if with_ids is None else with_ids
    used_ids = rng.sample(range(1, 10), n)
    for k in range(n):
        pool = list(valid)
        if stale and rng.random() < 0.3:
            pool += missing + [999]
        if not pool:
            break
        pos = rng.sample(pool, rng.randint(1, min(3, len(pool))))
        neg = []
        if differences and rng.random() < 0.3:
            rest = [p for p in pool if p not in pos] or pool
            neg = rng.sample(rest, rng.randint(1, min(2, len(rest))))
        if anchors is not None:
            anchor = rng.choice(anchors)
        else:
            r = rng.random()
            if r < 0.2:
                anchor = "top"
            elif r < 0.4:
                anchor = "bottom"
            elif r < 0.9 and valid:
                anchor = rng.choice(valid)
            else:
                anchor = rng.choice([999, None] + missing)
        d = {"function": "subtotal", "name": "%s_ins%d" % (v.alias, k), "anchor": anchor}
        if rng.random() < 0.5 and not neg:
            d["args"] = pos
        else:
            d["kwargs"] = {"positive": pos}
            if neg:
                d["kwargs"]["negative"] = neg
            if rng.random() < 0.3:
                d["args"] = pos
        if with_ids is True or (with_ids == "some" and rng.random() < 0.5):
            d["id"] = used_ids[k]
        out.append(d)
    return out
