# -*- coding: utf-8 -*-
"""Shared machinery of the /verif checks.

* builds the Coq development (full .vo build, never -vos) under a lock,
* compiles a property file and reads back its obligations / Print Assumptions,
* runs the executable Gallina model on generated cases (`cases_k.v` + vm_compute),
* decodes the token streams, compares exact rationals with float64 results,
* handles known findings, replays, VIOLATION lines and evidence files.

Everything runs under /venv/bin/python with /repo/src first on sys.path, so the
implementation that is exercised is always the current working tree of /repo.
"""
import fcntl
import hashlib
import json
import math
import os
import re
import subprocess
import sys
import time
from fractions import Fraction

VERIF = os.path.dirname(os.path.dirname(os.path.abspath(__file__)))
COQ = os.path.join(VERIF, "coq")
WORK = os.path.join(VERIF, "work")
EVID = os.path.join(VERIF, "evidence")
REPLAYS = os.path.join(VERIF, "replays")
REPO = os.environ.get("VERIF_REPO", "/repo")
REPO_SRC = os.path.join(REPO, "src")
GUARD = "CRUNCH_CUBE_VERIF"

os.environ.setdefault("PYTHONHASHSEED", "0")
os.environ[GUARD] = "1"
if REPO_SRC not in sys.path:
    sys.path.insert(0, REPO_SRC)
# the editable install pins the `cr` namespace package to /repo/src through a .pth file;
# make sure `cr.cube` is imported from the tree we were asked to check.
try:
    import cr as _cr

    _cr.__path__[:] = [os.path.join(REPO_SRC, "cr")]
    for _m in [m for m in sys.modules if m.startswith("cr.")]:
        del sys.modules[_m]
except ImportError:
    pass

FORBIDDEN = re.compile(
    r"\b(Admitted|admit|Axiom|Axioms|Parameter|Parameters|Conjecture|Conjectures|"
    r"Hypothesis|Hypotheses|Variable|Variables|Abort)\b|Unset\s+Guard|bypass_check|"
    r"type-in-type|impredicative-set|Admit\s+Obligations|Unset\s+Universe|"
    r"Unset\s+Positivity|\bgive_up\b|Declare\s+Module|Module\s+Type\b"
)

# ------------------------------------------------------------------------------------
# build
# ------------------------------------------------------------------------------------


def _sh(cmd, cwd=None, timeout=1800, env=None):
    p = subprocess.run(
        cmd,
        cwd=cwd,
        shell=isinstance(cmd, str),
        stdout=subprocess.PIPE,
        stderr=subprocess.STDOUT,
        timeout=timeout,
        env=env,
    )
    return p.returncode, p.stdout.decode("utf-8", "replace")


def coq_files():
    """All .v files of the development in dependency-irrelevant (sorted) order."""
    out = []
    for sub in ("Base", "Spec", "Model", "Gen", "Proofs", "Props"):
        d = os.path.join(COQ, sub)
        if not os.path.isdir(d):
            continue
        for f in sorted(os.listdir(d)):
            if f.endswith(".v"):
                out.append(sub + "/" + f)
    return out


def write_coqproject():
    text = "-Q . CC\n" + "\n".join(coq_files()) + "\n"
    path = os.path.join(COQ, "_CoqProject")
    old = open(path).read() if os.path.exists(path) else None
    if old != text:
        with open(path, "w") as f:
            f.write(text)
        return True
    return False


class BuildError(Exception):
    pass


def run_translator():
    """Regenerate coq/Gen/*.v from /repo (fail-closed).  Returns the translator report."""
    try:
        from harness.translate import translate
    except ImportError:
        return {"available": False}
    return translate.regenerate(REPO_SRC, os.path.join(COQ, "Gen"))


def ensure_built(jobs=16, only=None):
    """Translate, then `make` the whole development (or `only` targets).  Serialised by a lock
    so that checks started in parallel do not build concurrently.  Returns (ok, log, report)."""
    os.makedirs(WORK, exist_ok=True)
    lock = open(os.path.join(WORK, ".build.lock"), "w")
    fcntl.flock(lock, fcntl.LOCK_EX)
    try:
        report = run_translator()
        changed = write_coqproject()
        mk = os.path.join(COQ, "Makefile")
        if changed or not os.path.exists(mk):
            rc, out = _sh("coq_makefile -f _CoqProject -o Makefile", cwd=COQ, timeout=120)
            if rc != 0:
                return False, out, report
        tgt = " ".join(only) if only else ""
        rc, out = _sh(
            "timeout 1500 make -j%d %s" % (jobs, tgt), cwd=COQ, timeout=1600
        )
        return rc == 0, out, report
    finally:
        fcntl.flock(lock, fcntl.LOCK_UN)
        lock.close()


def props_deps(prop_id):
    """Transitive .v dependencies (inside coq/) of Props/<id>.v, via coqdep."""
    rc, out = _sh(
        "coqdep -Q . CC -sort Props/%s.v" % prop_id, cwd=COQ, timeout=120
    )
    files = [w for w in out.split() if w.endswith(".v")]
    return [f[2:] if f.startswith("./") else f for f in files]


def scan_forbidden(files):
    """Return list of (file, lineno, text) with forbidden vernacular (comments stripped)."""
    hits = []
    for rel in files:
        path = os.path.join(COQ, rel)
        try:
            src = open(path).read()
        except OSError:
            continue
        # strip (possibly nested) comments
        out, depth, i = [], 0, 0
        while i < len(src):
            if src.startswith("(*", i):
                depth += 1
                i += 2
            elif src.startswith("*)", i) and depth > 0:
                depth -= 1
                i += 2
            else:
                if depth == 0:
                    out.append(src[i])
                elif src[i] == "\n":
                    out.append("\n")
                i += 1
        for n, line in enumerate("".join(out).split("\n"), 1):
            # section variables/hypotheses are allowed only inside sections: we simply
            # forbid them everywhere except in files that declare a Section and close it.
            m = FORBIDDEN.search(line)
            if m:
                word = m.group(0)
                if word.split()[0] in (
                    "Variable",
                    "Variables",
                    "Hypothesis",
                    "Hypotheses",
                ) and _inside_section("".join(out), n):
                    continue
                hits.append((rel, n, line.strip()))
    return hits


def _inside_section(text, lineno):
    depth = 0
    for n, line in enumerate(text.split("\n"), 1):
        if n >= lineno:
            break
        if re.match(r"\s*Section\s+\w+", line):
            depth += 1
        elif re.match(r"\s*End\s+\w+", line) and depth > 0:
            depth -= 1
    return depth > 0


def check_obligations(prop_id):
    """Force-recompile Props/<id>.v, read the theorems and their Print Assumptions.

    Returns dict(ok, obligations, discharged, theorems, axioms, log, forbidden).
    """
    rel = "Props/%s.v" % prop_id
    path = os.path.join(COQ, rel)
    res = {
        "ok": False,
        "obligations": 0,
        "discharged": 0,
        "theorems": [],
        "axioms": [],
        "log": "",
        "forbidden": [],
        "checker_cmd": "cd /verif/coq && make (coq_makefile, full .vo) && coqc -Q . CC %s"
        % rel,
    }
    if not os.path.exists(path):
        res["log"] = "missing " + rel
        return res
    src = open(path).read()
    names = re.findall(r"^\s*(?:Theorem|Lemma|Corollary)\s+([A-Za-z0-9_']+)", src, re.M)
    examples = re.findall(r"^\s*Example\s+([A-Za-z0-9_']+)", src, re.M)
    res["theorems"] = names
    res["examples"] = examples
    res["obligations"] = len(names) + len(examples)
    deps = props_deps(prop_id)
    res["files"] = deps
    res["forbidden"] = scan_forbidden(deps)
    # every theorem must be followed by Print Assumptions
    printed = re.findall(r"Print Assumptions\s+([A-Za-z0-9_']+)", src)
    missing_pa = [n for n in names if n not in printed]
    rc, out = _sh("timeout 900 coqc -Q . CC %s" % rel, cwd=COQ, timeout=1000)
    res["log"] = out[-4000:]
    if rc != 0:
        return res
    blocks = re.split(r"(?=Closed under the global context|Axioms:)", out)
    axioms = []
    n_closed = 0
    for b in blocks:
        if b.startswith("Closed under the global context"):
            n_closed += 1
        elif b.startswith("Axioms:"):
            for m in re.finditer(r"^([A-Za-z0-9_.']+)\s*:", b[len("Axioms:"):], re.M):
                if m.group(1) not in axioms:
                    axioms.append(m.group(1))
    res["axioms"] = axioms
    res["assumption_reports"] = n_closed + sum(
        1 for b in blocks if b.startswith("Axioms:")
    )
    allowed = allowed_axiom
    bad_axioms = [a for a in axioms if not allowed(a)]
    res["bad_axioms"] = bad_axioms
    res["missing_print_assumptions"] = missing_pa
    if not res["forbidden"] and not bad_axioms and not missing_pa and names:
        res["ok"] = True
        res["discharged"] = res["obligations"]
    return res


STDLIB_AXIOMS = (
    "ClassicalDedekindReals.sig_forall_dec",
    "ClassicalDedekindReals.sig_not_dec",
    "FunctionalExtensionality.functional_extensionality_dep",
    "Classical_Prop.classic",
    "Eqdep.Eq_rect_eq.eq_rect_eq",
    "ProofIrrelevance.proof_irrelevance",
    "JMeq.JMeq_eq",
)


def allowed_axiom(name):
    return any(name == a or name.endswith("." + a.split(".")[-1]) for a in STDLIB_AXIOMS)


# ------------------------------------------------------------------------------------
# Gallina literals
# ------------------------------------------------------------------------------------


def g_Z(z):
    z = int(z)
    return "(%d)%%Z" % z


def g_nat(n):
    n = int(n)
    assert 0 <= n < 5000, n
    return "%d%%nat" % n


def g_bool(b):
    return "true" if b else "false"


def g_q(fr):
    fr = Fraction(fr)
    return "(%d # %d)%%Q" % (fr.numerator, fr.denominator)


def to_exact(x):
    """float / int / Fraction / None -> Fraction or 'nan' / 'inf' / '-inf'."""
    if x is None:
        return "nan"
    if isinstance(x, str):
        return x
    if isinstance(x, Fraction):
        return x
    if isinstance(x, (int,)) and not isinstance(x, bool):
        return Fraction(x)
    x = float(x)
    if math.isnan(x):
        return "nan"
    if math.isinf(x):
        return "inf" if x > 0 else "-inf"
    return Fraction(x)


def g_xq(x):
    e = to_exact(x)
    if e == "nan":
        return "NaN"
    if e == "inf":
        return "(Inf false)"
    if e == "-inf":
        return "(Inf true)"
    return "(Fin %s)" % g_q(e)


def g_list(items):
    return "[" + "; ".join(items) + "]"


def g_vec(v):
    return g_list([g_xq(x) for x in v])


def g_mat(m):
    return g_list([g_vec(r) for r in m])


def g_opt(x, f):
    return "None" if x is None else "(Some %s)" % f(x)


def g_str(s):
    assert all(32 <= ord(c) < 127 and c != '"' for c in s), s
    return '"%s"%%string' % s


# ------------------------------------------------------------------------------------
# running the model inside Coq
# ------------------------------------------------------------------------------------

CASE_RE = re.compile(r"=\s*\[(.*?)\]\s*:\s*list Z", re.S)


_IMPORTS_BUILT = set()


def ensure_imports_built(imports):
    """The cases files import compiled libraries of the development (CC.Model.X ...); make sure
    each is up to date with its sources (a model file edited since the last full build would
    otherwise be loaded stale, or fail with 'inconsistent assumptions').  Once per header."""
    if imports in _IMPORTS_BUILT:
        return
    mods = []
    for line in re.findall(r"From\s+CC\s+Require\s+(?:Import|Export)\s+(.*?)\.(?=\s|$)", imports, re.S):
        for m in line.split():
            rel = m.replace(".", "/") + ".v"
            if os.path.exists(os.path.join(COQ, rel)):
                mods.append(rel + "o")
    if mods:
        ok, log, _ = ensure_built(only=sorted(set(mods)))
        if not ok:
            raise ModelEvalError("could not build the libraries the cases import:\n" + log[-3000:])
    _IMPORTS_BUILT.add(imports)


def run_coq_cases(prop_id, imports, terms, shard=200, jobs=16, timeout=900, tag="cases"):
    """Evaluate Gallina terms of type `list Z` with vm_compute; return list of int lists.

    `imports` is the Coq header (Require lines).  Output order == input order.
    A term that fails to evaluate aborts its shard: the error is raised (model bug).
    """
    # a directory private to this process: two runs of one check in the same tree (quick and thorough,
    # a replay next to a run) must not clobber each other's cases files; stale directories of dead
    # processes are removed
    top = os.path.join(WORK, prop_id)
    os.makedirs(top, exist_ok=True)
    for d in os.listdir(top):
        m = re.match(r"^p(\d+)$", d)
        if m and not os.path.exists("/proc/%s" % m.group(1)):
            import shutil
            shutil.rmtree(os.path.join(top, d), ignore_errors=True)
    wd = os.path.join(top, "p%d" % os.getpid())
    os.makedirs(wd, exist_ok=True)
    ensure_imports_built(imports)
    for f in os.listdir(wd):
        if f.startswith(tag + "_"):
            os.remove(os.path.join(wd, f))
    shards = [terms[i : i + shard] for i in range(0, len(terms), shard)]
    files = []
    for k, sh in enumerate(shards):
        name = "%s_%d.v" % (tag, k)
        with open(os.path.join(wd, name), "w") as f:
            f.write(imports.rstrip() + "\n")
            f.write("Set Printing Width 2000000.\nSet Printing Depth 100000000.\n")
            f.write("Open Scope Z_scope.\n")
            for t in sh:
                f.write("Eval vm_compute in (%s).\n" % t)
        files.append(name)
    procs = []
    results = [None] * len(files)
    t0 = time.time()

    def launch(i):
        cmd = "ulimit -s unlimited 2>/dev/null; timeout %d coqc -Q %s CC %s" % (
            timeout,
            COQ,
            files[i],
        )
        outf = open(os.path.join(wd, files[i] + ".out"), "wb")
        p = subprocess.Popen(cmd, cwd=wd, shell=True, stdout=outf, stderr=subprocess.STDOUT)
        p._outf = outf
        return p

    pending = list(range(len(files)))
    running = {}
    while pending or running:
        while pending and len(running) < jobs:
            i = pending.pop(0)
            running[i] = launch(i)
        done = []
        for i, p in running.items():
            if p.poll() is not None:
                p._outf.close()
                with open(os.path.join(wd, files[i] + ".out"), "rb") as fh:
                    out = fh.read().decode("utf-8", "replace")
                if p.returncode != 0:
                    raise ModelEvalError(
                        "coqc failed on %s/%s:\n%s" % (wd, files[i], out[-3000:])
                    )
                results[i] = out
                done.append(i)
        for i in done:
            del running[i]
        if not done:
            time.sleep(0.02)
    toks = []
    for i, out in enumerate(results):
        found = CASE_RE.findall(out)
        if len(found) != len(shards[i]):
            raise ModelEvalError(
                "expected %d results in %s, got %d\n%s"
                % (len(shards[i]), files[i], len(found), out[-2000:])
            )
        for body in found:
            body = body.strip()
            toks.append([int(x) for x in re.findall(r"-?\d+", body)] if body else [])
    return toks, time.time() - t0


class ModelEvalError(Exception):
    pass


class Dec:
    """Decoder of the token streams produced by Base/Render.v."""

    def __init__(self, toks):
        self.t = toks
        self.i = 0

    def Z(self):
        v = self.t[self.i]
        self.i += 1
        return v

    nat = Z

    def bool(self):
        return self.Z() == 1

    def xq(self):
        tag = self.Z()
        if tag == 0:
            n = self.Z()
            d = self.Z()
            return Fraction(n, d)
        return {1: "inf", 2: "-inf", 3: "nan"}[tag]

    def list(self, f):
        n = self.Z()
        return [f() for _ in range(n)]

    def opt(self, f):
        return f() if self.Z() == 1 else None

    def vec(self):
        return self.list(self.xq)

    def mat(self):
        return self.list(self.vec)

    def nats(self):
        return self.list(self.Z)

    def done(self):
        return self.i == len(self.t)


# ------------------------------------------------------------------------------------
# comparing exact values with float64 results
# ------------------------------------------------------------------------------------

TOL = 1e-9


FLOAT_CANCELLATION = {"skipped": 0}


def close(impl, model, tol=TOL, inf_sign=True):
    """impl: python float/np.float64/None ; model: Fraction or 'nan'/'inf'/'-inf'."""
    e = to_exact(impl)
    m = model
    if isinstance(m, str) and m in ("inf", "-inf", "nan") and isinstance(e, Fraction) and abs(e) >= 10 ** 11:
        # exact zero denominator (model: x/0 = +-inf, 0/0 = nan) against a float64 denominator that
        # is a rounding residue of the order 1e-17: the implementation's quotient is astronomically
        # large instead of infinite.  IEEE rounding is a stated modelling gap; counted, not compared.
        FLOAT_CANCELLATION["skipped"] += 1
        return True
    if isinstance(m, Fraction) and isinstance(e, Fraction) and abs(e) >= 10 ** 11 and abs(m) >= 10 ** 11:
        # both astronomically large: a quotient by a float rounding residue (the exact inputs the
        # model is fed are the implementation's own floats, whose sum cancels to ~1e-17 instead of 0);
        # the two differ in every digit.  Same stated gap, counted, not compared.
        FLOAT_CANCELLATION["skipped"] += 1
        return True
    if isinstance(e, str) and e in ("inf", "-inf", "nan") and isinstance(m, Fraction) and abs(m) >= 10 ** 11:
        # the mirror image (found with VERIF_SEED=5, C20: smoothed scale mean of a difference column):
        # the float64 denominator cancels to exactly 0.0 (quotient +-inf / nan) while the exact sum of
        # the same float inputs is a residue of the order 1e-17, so the model's quotient is
        # astronomically large instead of infinite.  Same stated gap, counted, not compared.
        FLOAT_CANCELLATION["skipped"] += 1
        return True
    if isinstance(m, str) or isinstance(e, str):
        if not inf_sign and isinstance(m, str) and isinstance(e, str):
            return m.lstrip("-") == e.lstrip("-")
        return m == e
    if e == m:
        return True
    diff = abs(e - m)
    return diff <= Fraction(tol) * max(1, abs(m))


def close_vec(iv, mv, **kw):
    iv = list(iv)
    return len(iv) == len(mv) and all(close(a, b, **kw) for a, b in zip(iv, mv))


def close_mat(im, mm, **kw):
    im = [list(r) for r in im]
    if len(im) != len(mm):
        return False
    return all(close_vec(a, b, **kw) for a, b in zip(im, mm))


def first_diff_mat(im, mm, **kw):
    im = [list(r) for r in im]
    if len(im) != len(mm):
        return ("nrows", len(im), len(mm))
    for i, (a, b) in enumerate(zip(im, mm)):
        if len(a) != len(b):
            return ("ncols", i, len(a), len(b))
        for j, (x, y) in enumerate(zip(a, b)):
            if not close(x, y, **kw):
                return (i, j, jsonable(x), jsonable(y))
    return None


def jsonable(x):
    """Make values JSON-serialisable for replays / evidence."""
    import numpy as np

    if isinstance(x, Fraction):
        return "%d/%d" % (x.numerator, x.denominator) if x.denominator != 1 else int(x)
    if isinstance(x, (np.floating, float)):
        x = float(x)
        if math.isnan(x):
            return "nan"
        if math.isinf(x):
            return "inf" if x > 0 else "-inf"
        return x
    if isinstance(x, (np.integer,)):
        return int(x)
    if isinstance(x, (np.bool_,)):
        return bool(x)
    if isinstance(x, np.ndarray):
        return jsonable(x.tolist())
    if isinstance(x, dict):
        return {str(k): jsonable(v) for k, v in x.items()}
    if isinstance(x, (list, tuple)):
        return [jsonable(v) for v in x]
    if isinstance(x, (set, frozenset)):
        return sorted(jsonable(v) for v in x)
    if isinstance(x, (str, int, bool)) or x is None:
        return x
    return repr(x)


def case_hash(obj):
    return hashlib.sha1(
        json.dumps(jsonable(obj), sort_keys=True).encode("utf-8")
    ).hexdigest()[:12]


# ------------------------------------------------------------------------------------
# known findings, violations, evidence
# ------------------------------------------------------------------------------------


def load_findings():
    out = []
    path = os.path.join(VERIF, "known_findings.json")
    if os.path.exists(path):
        out.extend(json.load(open(path)).get("findings", []))
    d = os.path.join(VERIF, "known_findings.d")
    if os.path.isdir(d):
        for f in sorted(os.listdir(d)):
            if f.endswith(".json"):
                x = json.load(open(os.path.join(d, f)))
                out.extend(x if isinstance(x, list) else x.get("findings", [x]))
    return out


class Report:
    """Collects what a check run did and produces the verdict + evidence file."""

    def __init__(self, prop_id, tier, seed):
        self.prop_id = prop_id
        self.tier = tier
        self.seed = seed
        self.t0 = time.time()
        self.violations = []  # (kind, detail dict)
        self.known = {}  # finding id -> count
        self.cov = {
            "evaluations": 0,
            "distinct_nontrivial": 0,
            "rule": "",
            "samples": [],
            "distribution": {},
            "skipped_near_threshold": 0,
        }
        self._hashes = set()
        self.assumptions = []
        self.findings = [
            f
            for f in load_findings()
            if prop_id in f.get("properties", []) and f.get("status") == "open"
        ]
        self.notes = []

    # -- coverage bookkeeping
    def count_case(self, case_obj, nontrivial=True):
        self.cov["evaluations"] += 1
        if nontrivial:
            h = case_hash(case_obj)
            if h not in self._hashes:
                self._hashes.add(h)
                self.cov["distinct_nontrivial"] += 1

    def dist(self, key, n=1):
        d = self.cov["distribution"]
        d[key] = d.get(key, 0) + n

    def sample(self, obj, limit=3):
        if len(self.cov["samples"]) < limit:
            self.cov["samples"].append(jsonable(obj))

    # -- violations
    def violation(self, kind, case, detail, signature_ctx=None, failing_input=True):
        """Record a failure.  `signature_ctx` is a dict matched against known findings."""
        ctx = dict(signature_ctx or {})
        ctx.setdefault("kind", kind)
        for f in self.findings:
            if _match_finding(f, ctx):
                self.known[f["id"]] = self.known.get(f["id"], 0) + 1
                return "known"
        self.violations.append(
            {
                "kind": kind,
                "case": jsonable(case),
                "detail": jsonable(detail),
                "ctx": jsonable(ctx),
                "failing_input": failing_input,
            }
        )
        return "violation"

    def finish(self, level, obligations=None, extra_cov=None, trusted_base=None):
        os.makedirs(EVID, exist_ok=True)
        os.makedirs(REPLAYS, exist_ok=True)
        wall = time.time() - self.t0
        cov = dict(self.cov)
        if obligations is not None:
            cov["obligations"] = obligations.get("obligations", 0)
            cov["discharged"] = obligations.get("discharged", 0)
            cov["checker_cmd"] = obligations.get("checker_cmd", "")
            cov["theorems"] = obligations.get("theorems", [])
            cov["axioms_reported_by_Print_Assumptions"] = obligations.get("axioms", [])
            cov["coq_files"] = obligations.get("files", [])
        cov["trusted_base"] = list(trusted_base or [])
        # properties whose obligations include source-text ties name the translators
        if any(t.startswith("%s_gen_" % self.prop_id) for t in cov.get("theorems", [])):
            for extra in (TRUSTED_BASE_TRANSLATOR, TRUSTED_BASE_TRANSLATOR_MEASURES, TRUSTED_BASE_TRANSLATOR_SUBTOTALS):
                if extra not in cov["trusted_base"]:
                    cov["trusted_base"].append(extra)
        if extra_cov:
            cov.update(extra_cov)
        cov["known_findings_hit"] = dict(self.known)
        cov["skipped_float_cancellation_vs_exact_zero_denominator"] = FLOAT_CANCELLATION["skipped"]
        try:
            from harness import impl as _impl
            cov["implementation_calls_retried_after_a_20s_timeout"] = _impl.RETRIED_TIMEOUTS["n"]
        except Exception:  # noqa
            pass
        cov["notes"] = self.notes
        lines = []
        for f in self.findings:
            if self.known.get(f["id"]):
                lines.append(
                    "KNOWN-FINDING: property=%s %s (%d cases this run) [%s]"
                    % (self.prop_id, f["what"], self.known[f["id"]], f["id"])
                )
        rc = 0
        replay_path = None
        if self.violations:
            rc = 1
            # prefer a violation with a concrete failing input
            self.violations.sort(key=lambda v: (not v["failing_input"],))
            v = self.violations[0]
            replay_path = os.path.join(
                REPLAYS, "%s-%s.json" % (self.prop_id, case_hash(v))
            )
            with open(replay_path, "w") as f:
                json.dump(
                    {
                        "property": self.prop_id,
                        "seed": self.seed,
                        "tier": self.tier,
                        "violation": v,
                        "all_violations": len(self.violations),
                        "broken_obligations": [
                            w["detail"].get("broken") or w["case"]
                            for w in self.violations
                            if w["kind"] in ("build-failed", "obligation-broken")
                        ],
                        "others": self.violations[1:6],
                    },
                    f,
                    indent=1,
                )
            suffix = "" if v["failing_input"] else " no-failing-input-found"
            lines.append(
                "VIOLATION property=%s replay=%s%s" % (self.prop_id, replay_path, suffix)
            )
        ev = {
            "property_id": self.prop_id,
            "tier": self.tier,
            "seed": self.seed,
            "level": level,
            "coverage": cov,
            "assumptions": self.assumptions,
            "wall_s": round(wall, 2),
            "violations": len(self.violations),
        }
        with open(os.path.join(EVID, self.prop_id + ".json"), "w") as f:
            json.dump(jsonable(ev), f, indent=1, sort_keys=True)
        for ln in lines:
            print(ln)
        print(
            "%s %s: %d evaluations, %d distinct non-trivial, %d violations, %d known-finding hits, %.1fs"
            % (
                self.prop_id,
                self.tier,
                cov["evaluations"],
                cov["distinct_nontrivial"],
                len(self.violations),
                sum(self.known.values()),
                wall,
            )
        )
        sys.stdout.flush()
        return rc


def _match_finding(f, ctx):
    sig = f.get("signature", {})
    for k, v in sig.items():
        cv = ctx.get(k)
        if isinstance(v, list):
            if cv not in v:
                return False
        elif cv != v:
            return False
    return bool(sig)


def locate_coq_errors(log):
    """Every `File "...", line N ... Error:` of a coqc / make log as
    {"file", "line", "statement" (the enclosing Lemma/Theorem/Definition), "error"} so that a
    broken obligation names the lemma -- for Proofs/GenAgree*.v that is the (class, method)."""
    out = []
    for m in re.finditer(r'File "([^"]+)", line (\d+), characters [^\n]*\n(Error[^\n]*(?:\n(?!File |make|COQ)[^\n]*){0,8})', log):
        rel, line, msg = m.group(1), int(m.group(2)), m.group(3).strip()
        rel = rel[2:] if rel.startswith("./") else rel
        name = None
        try:
            lines = open(os.path.join(COQ, rel)).read().split("\n")
            for k in range(min(line, len(lines)) - 1, -1, -1):
                mm = re.match(r"\s*(?:Lemma|Theorem|Corollary|Example|Definition|Fixpoint|Ltac)\s+([A-Za-z0-9_']+)", lines[k])
                if mm:
                    name = mm.group(1)
                    break
        except OSError:
            pass
        out.append({"file": rel, "line": line, "statement": name, "error": msg[:600]})
    return out


_NONE_DEF = re.compile(r"^Definition\s+(\w+)\s*:\s*option\s+[^:=]+:=\s*None\s*\.", re.M)


def unavailable_obligations(prop_id):
    """Generated definitions that are `None` (member outside the translators' whitelists) and are
    mentioned by a file in the dependency cone of Props/<id>.v: [{definition, gen_file, used_by}]."""
    deps = props_deps(prop_id)
    gen = [f for f in deps if f.startswith("Gen/")]
    rest = [f for f in deps if not f.startswith("Gen/")]
    nones = []
    for g in gen:
        try:
            text = open(os.path.join(COQ, g), encoding="utf-8").read()
        except OSError:
            continue
        for m in _NONE_DEF.finditer(text):
            nones.append((m.group(1), g))
    if not nones:
        return []
    texts = {}
    for f in rest:
        try:
            texts[f] = open(os.path.join(COQ, f), encoding="utf-8").read()
        except OSError:
            texts[f] = ""
    out = []
    for name, g in nones:
        pat = re.compile(r"\b%s\b" % re.escape(name))
        used = [f for f, t in texts.items() if pat.search(t)]
        if used:
            out.append({"definition": name, "gen_file": g, "used_by": used})
    return out


def obligations_gate(report, prop_id):
    """Build + compile the property's obligations.  A failure is recorded as a violation
    without failing input (the caller still runs the search for one)."""
    ok, log, treport = ensure_built(only=["Props/%s.vo" % prop_id])
    report.cov["translator"] = treport
    if not ok:
        broken = locate_coq_errors(log)
        for b in broken:
            print("NOTE obligation-broken %s:%s %s" % (b["file"], b["line"], b["statement"]))
        what = ", ".join("%s (%s:%s)" % (b["statement"], b["file"], b["line"]) for b in broken)
        report.violation(
            "build-failed",
            {"theorem_or_file": what or "coq make", "broken": broken},
            {"log": log[-3000:], "broken": broken},
            failing_input=False,
        )
        return {"ok": False, "obligations": 0, "discharged": 0, "log": log[-2000:]}
    ob = check_obligations(prop_id)
    if not ob["ok"]:
        broken = locate_coq_errors(ob["log"])
        for b in broken:
            print("NOTE obligation-broken %s:%s %s" % (b["file"], b["line"], b["statement"]))
        report.violation(
            "obligation-broken",
            {"theorem_or_file": "Props/%s.v" % prop_id, "broken": broken},
            {
                "broken": broken,
                "log": ob["log"][-3000:],
                "forbidden": ob["forbidden"],
                "bad_axioms": ob.get("bad_axioms"),
                "missing_print_assumptions": ob.get("missing_print_assumptions"),
            },
            failing_input=False,
        )
    # fail closed on members a translator could not read: their generated definition is `None`, the
    # GenAgree lemma about it is then vacuous (`| None => True`), so the property is no longer shown
    # to hold for that member from the source text.  (Never the case on the unchanged tree; a
    # harmless rewrite outside the whitelist gives the same report - ending no-failing-input-found
    # when the correspondence search finds nothing.)
    una = unavailable_obligations(prop_id)
    if una:
        for u in una:
            print("NOTE obligation-unavailable %s (used by %s)" % (u["definition"], ", ".join(u["used_by"][:3])))
        report.violation(
            "obligation-broken",
            {"theorem_or_file": "translator-unavailable: " + ", ".join(u["definition"] for u in una)},
            {"unavailable": una,
             "explanation": "the source member(s) could not be read by the fail-closed translator; the "
                            "GenAgree obligation(s) about them are vacuous on this tree"},
            failing_input=False,
        )
        ob["ok"] = False
        ob["unavailable"] = una
    if ob.get("ok") and report.tier == "thorough":
        # independent re-check of the compiled property file and everything it depends on
        rc, out = _sh("timeout 2400 coqchk -silent -o -Q . CC CC.Props.%s" % prop_id, cwd=COQ, timeout=2500)
        m = re.search(r"CONTEXT SUMMARY.*", out, re.S)
        ob["coqchk"] = {"rc": rc, "cmd": "coqchk -silent -o -Q . CC CC.Props.%s" % prop_id,
                        "summary": (m.group(0) if m else out[-1500:])[:2500]}
        report.cov["coqchk"] = ob["coqchk"]
        if rc != 0:
            report.violation("obligation-broken", {"theorem_or_file": "coqchk CC.Props.%s" % prop_id},
                             {"log": out[-3000:]}, failing_input=False)
    return ob


OBLIGATION_KINDS = ("build-failed", "obligation-broken")


def replay_obligations(prop_id, stored):
    """--replay of a stored violation WITHOUT failing input (a broken obligation, e.g. a GenAgree
    lemma that no longer follows from the source): rebuild and say whether it still is broken."""
    rep = Report(prop_id, "quick", stored.get("seed", 0))
    rep.findings = []
    obligations_gate(rep, prop_id)
    for v in rep.violations:
        print("REPLAY still fails: %s %s" % (v["kind"], v["case"].get("theorem_or_file")))
    if not rep.violations:
        print("REPLAY: no longer fails")
    return 1 if rep.violations else 0


TRUSTED_BASE_TRANSLATOR = (
    "the ast translator harness/translate/translate.py (whitelist, fail-closed; re-run on every check) "
    "and Base/Tensor.v's reading of numpy basic indexing / axis sums / right-aligned broadcasting "
    "(teval): together they are what ties Gen/*.v + Proofs/GenAgree*.v to the source text"
)

TRUSTED_BASE_COMMON = [
    "Coq 8.16.1 kernel (coqc), vm_compute for running the model and closing concrete examples; no native_compute",
    "no axioms of our own; Print Assumptions output of every property theorem is recorded in this file",
    "the correspondence harness (generator, Gallina emitter, token decoder, comparator with 1e-9 relative tolerance)",
    "exact rationals + NaN/inf instead of IEEE float64 (rounding and signed zero are not modelled)",
]


TRUSTED_BASE_TRANSLATOR_MEASURES = (
    "the second-order measure formulas named by the Cxx_gen_* theorems are tied to the source text of "
    "matrix/measure.py, stripe/measure.py and cubepart.py by the whitelist translator harness/translate/measures.py "
    "and Base/MeasureExp.v's reading of numpy (cell-wise arithmetic, nansum, broadcasting restricted to axes equal by "
    "construction, np.sqrt through signed squares); the subtotal strategies (matrix/subtotals.py, stripe/insertion.py) "
    "are not read BY THIS translator - a call is recorded with its operands and means the model's definitions "
    "(Model/Subtotals.v, Proportions.v, Variance.v), which the third translator (next entry) ties to the strategies' own "
    "source; members the translator cannot read are None and tied by the correspondence only")

TRUSTED_BASE_TRANSLATOR_SUBTOTALS = (
    "the subtotal strategies named by the C04_gen_* (and C03_gen_WaveDiff* / C11_gen_*TermSubtotals) theorems are tied to the "
    "source text of matrix/subtotals.py and stripe/insertion.py by the whitelist translator harness/translate/subtotals.py "
    "and Base/SubtotalExp.v's reading of numpy / Python (fancy indexing e[idxs] / e[idxs, :] / e[:, idxs] as views - defined "
    "only for in-range offsets -, np.sum over an axis, cell-wise + - * / on equal shapes or with a scalar (no length-1 "
    "broadcasting), np.full, np.empty of an empty shape, np.array / np.hstack / np.vstack / reshape of comprehensions over "
    "the subtotals (hstack / vstack of an empty list raise), zip of equal lengths, `len(x) > k`, and / or / not, "
    "`if c: return a`); what a constructor parameter IS is decided by its name (base_values, counts, default_insertions / "
    "default_values arrays - 2-D in the matrix module, 1-D in the stripe module -, dimensions / rows_dimension, "
    "diff_cols_nan / diff_rows_nan booleans) and of a _Subtotal only addend_idxs / subtrahend_idxs are read (how those are "
    "computed from the insertion dict is Model/SubtotalIds.v, tied by C04's correspondence); exact rationals, so float "
    "summation order is not modelled")


def g_subtotal(s):
    """(addend_idxs, subtrahend_idxs) -> Gallina `subtotal` literal (Model/Subtotals.v)"""
    return "(mkSub %s %s)" % (g_list([g_nat(i) for i in s[0]]), g_list([g_nat(i) for i in s[1]]))


def g_subtotals(ss):
    return g_list([g_subtotal(s) for s in ss])
