# -*- coding: utf-8 -*-
"""Entry point:  python -m harness.main C20 --tier quick [--replay file]"""
import argparse
import importlib
import os
import sys
import traceback


def main():
    ap = argparse.ArgumentParser()
    ap.add_argument("prop")
    ap.add_argument("--tier", default=os.environ.get("VERIF_TIER", "quick"),
                    choices=["quick", "thorough"])
    ap.add_argument("--replay", default=None)
    ap.add_argument("--seed", type=int, default=None)
    a = ap.parse_args()
    seed = a.seed if a.seed is not None else int(os.environ.get("VERIF_SEED", "20260926"))
    pid = a.prop.upper()
    mod = importlib.import_module("harness.props.%s" % pid.lower())
    try:
        if a.replay:
            rc = mod.replay(a.replay)
        else:
            rc = mod.run(a.tier, seed)
    except Exception:
        # a crash of the machinery is not a verdict about the property; make it loud
        # the machinery could not finish: the property is no longer shown to hold on this
        # tree (on the unchanged tree this never happens); report it as such.
        tb = traceback.format_exc()
        sys.stderr.write(tb)
        import json
        from harness import core
        os.makedirs(core.REPLAYS, exist_ok=True)
        path = os.path.join(core.REPLAYS, "%s-harness-error.json" % pid)
        with open(path, "w") as f:
            json.dump({"property": pid, "broken": "the check itself raised; see traceback",
                       "traceback": tb, "seed": seed, "tier": a.tier}, f, indent=1)
        print("VIOLATION property=%s replay=%s no-failing-input-found" % (pid, path))
        rc = 1
    sys.exit(rc)


if __name__ == "__main__":
    main()
