# -*- coding: utf-8 -*-
"""Shared case generator for the second-order-measure checks (C03, C04, C11, ...):
a survey -> one cube response (2-D slice or 1-D strand) with insertions (view and/or
transforms), weighted or not, optionally with valid counts / numeric measures."""
from harness import gen, impl

KINDS_2D = [("cat", "cat"), ("cat", "cat"), ("cat", "cat"), ("cat", "cat_date"), ("cat_date", "cat"),
            ("cat", "mr"), ("mr", "cat"), ("mr", "mr"), ("ca", None), ("cat_date", "mr"),
            ("mr", "cat_date"), ("cat_date", "cat_date")]
KINDS_1D = ["cat", "cat", "cat_date", "mr"]


def make_var(rng, kind, alias, numeric=None):
    if kind == "cat":
        return gen.make_cat(rng, alias, numeric=numeric)
    if kind == "cat_date":
        return gen.make_cat(rng, alias, date=True, n_valid=rng.randint(1, 5), numeric=numeric)
    if kind == "mr":
        return gen.make_mr(rng, alias)
    if kind == "ca":
        return gen.make_ca(rng, alias)
    raise ValueError(kind)


def gen_slice_case(rng, k, p_strand=0.2, p_insert=0.75, p_diff=True, measures=("count",),
                   numvar=None, valid_counts_p=0.15, kinds2d=None, kinds1d=None,
                   n_resp=(0, 40), weighted=None, zero_weights=True, numeric=None):
    strand = rng.random() < p_strand
    if strand:
        kind = rng.choice(kinds1d or KINDS_1D)
        variables = [make_var(rng, kind, "rowv", numeric)]
        kinds = (kind,)
    else:
        rk, ck = rng.choice(kinds2d or KINDS_2D)
        if ck is None:
            variables = [make_var(rng, rk, "rowv", numeric)]
        else:
            variables = [make_var(rng, rk, "rowv", numeric), make_var(rng, ck, "colv", numeric)]
        kinds = (rk, ck)
    transforms = {}
    for v, dk in zip(variables, ("rows_dimension", "columns_dimension")):
        if v.kind in ("cat", "cat_date", "ca") and rng.random() < p_insert:
            ins = gen.random_insertions(rng, v, differences=p_diff)
            r = rng.random()
            if v.kind == "ca":
                # a CA's categories are the COLUMNS of its own 2-D cube
                dk = "columns_dimension"
            if r < 0.7:
                v.view_insertions = ins
            else:
                transforms.setdefault(dk, {})["insertions"] = ins
                if rng.random() < 0.3:
                    v.view_insertions = gen.random_insertions(rng, v, differences=p_diff)
    nmin, nmax = n_resp
    n = rng.randint(nmin, nmax) if rng.random() < 0.95 else 0
    sv = gen.Survey(variables, n, rng, numvars=[numvar] if numvar else [], weighted=weighted,
                    zero_weights=zero_weights)
    aliases = [v.alias for v in variables]
    vc = rng.random() < valid_counts_p
    meas = measures
    nv = numvar
    if vc and not numvar:
        # valid counts only come with a numeric measure
        sv2 = sv
        for r in sv2.resp:
            r["num"]["x"] = None if rng.random() < 0.2 else gen.Fraction(rng.randint(0, 20))
        nv = "x"
        meas = tuple(measures) + ("mean",)
    resp = gen.cube_response(sv, aliases, measures=meas, numvar=nv,
                             valid_counts=(rng.choice([True, "unweighted_only"]) if vc else False))
    return {"k": k, "response": resp, "transforms": transforms or None, "strand": strand,
            "kinds": kinds, "valid_counts": vc, "weighted": sv.weighted, "survey": sv}


def replayable(case):
    return {k: case[k] for k in ("k", "response", "transforms", "strand", "kinds", "valid_counts",
                                 "weighted", "dominant", "empty_wave", "filter_fraction", "weights_scaled", "pairwise_alpha") if k in case}


def read(part, names):
    return {n: impl.get(part, n) for n in names}


def any_exc(vals):
    return {n: v for n, v in vals.items() if v[0] == "exc"}


def is_date(part, axis):
    return str(part.dimension_types[axis]).endswith("CAT_DATE")


def dominate(case, rng):
    """DOMINANT CELL: one non-zero cell of the payload gets 2^20..2^24 further (weighted and unweighted)
    respondents, so that some proportion is 1 - O(1e-6) and every other one of its row / column / table
    is O(1e-6): far outside the 1e-9 comparison tolerance, inside numpy's default `isclose` window.
    Marks the case `dominant`; returns False when the payload has no positive cell."""
    res = case["response"]["result"]
    counts = res["counts"]
    data = res.get("measures", {}).get("count", {}).get("data")
    idxs = [i for i, c in enumerate(counts) if isinstance(c, (int, float)) and c > 0
            and (data is None or (isinstance(data[i], (int, float)) and data[i] > 0))]
    if not idxs:
        return False
    i = rng.choice(idxs)
    big = 2 ** rng.randint(20, 24)
    counts[i] = counts[i] + big
    if data is not None:
        data[i] = data[i] + big
    res["n"] = res.get("n", 0) + big
    case["dominant"] = True
    return True


def dominate_some(cases, seed, p=0.125):
    """apply [dominate] to about one case in eight (own PRNG, so the main stream is unchanged)"""
    import random
    drng = random.Random(seed * 7919 + 13)
    for case in cases:
        if drng.random() < p and not case.get("valid_counts"):
            dominate(case, drng)


# ------------------------------------------------------------------------------------
# READ-ORDER LEG (shared): a statement about an output must hold whatever was read before it.
# ------------------------------------------------------------------------------------

def _canon_read(r):
    from harness.props import c18_util as hu
    return ["ok", hu.canon(r[1])] if r[0] == "ok" else ["exc", r[1]]


_CASE = object()


def late_reads(case, names, fresh, limit_culprits=4, transforms=_CASE, k=0):
    """Build a second partition from the same arguments (population chosen from the case number), read
    EVERY public property of it (enumerated by introspection in c18_util.READS, + the method reads) in
    an order shuffled by a PRNG seeded with the case number, then read `names`; compare value-exactly
    (NaN = NaN) with `fresh` (name -> impl.get result read on a fresh partition `k` built with `transforms`,
    by default the case's own).
    Returns (population, [(name, fresh_canon, late_canon, single_earlier_reads_that_change_it)])."""
    import random
    from harness.props import c18_util as hu
    rng = random.Random(1000003 * int(case.get("k", 0)) + 29)
    population = rng.choice([None, 1000, 75])
    tr = case["transforms"] if transforms is _CASE else transforms
    p = impl.partition(case["response"], tr, k=k, population=population)
    reads = list(hu.READS.get(type(p).__name__, []))
    rng.shuffle(reads)
    for name, args in reads:
        impl.get(p, name, *args)
    out = []
    for n in names:
        if n not in fresh:
            continue
        a, b = _canon_read(fresh[n]), _canon_read(impl.get(p, n))
        if a == b:
            continue
        culprits = []
        for pre, args in reads:
            if pre == n:
                continue
            q = impl.partition(case["response"], tr, k=k, population=population)
            impl.get(q, pre, *args)
            if _canon_read(impl.get(q, n)) != a:
                culprits.append(pre)
                if len(culprits) >= limit_culprits:
                    break
        out.append((n, a, b, culprits))
    return population, out


def _dim_len(d):
    t = d["type"]
    return len(t["categories"]) if "categories" in t else len(t.get("elements", []))


def empty_wave(case, rng):
    """EMPTY WAVE: on a categorical-date dimension of the response one valid wave loses all its respondents
    (every count of that category becomes 0, weighted and unweighted) and the analysis gets a
    one-wave-minus-one-wave difference that involves it - the zero-base corner of the wave-difference rule.
    Marks the case `empty_wave`; returns False when the response has no categorical-date dimension with two
    valid waves."""
    res = case["response"]["result"]
    dims = res["dimensions"]
    cand = []
    for ax, d in enumerate(dims):
        cats = d["type"].get("categories")
        if not cats or not any(c.get("date") for c in cats):
            continue
        valid = [i for i, c in enumerate(cats) if not c.get("missing")]
        if len(valid) >= 2:
            cand.append((ax, valid))
    if not cand:
        return False
    ax, valid = rng.choice(cand)
    gone = rng.choice(valid)
    other = rng.choice([i for i in valid if i != gone])
    shape = [_dim_len(d) for d in dims]
    stride = 1
    for n in shape[ax + 1:]:
        stride *= n
    arrays = [res["counts"]] + [m["data"] for m in res.get("measures", {}).values()
                                if isinstance(m, dict) and isinstance(m.get("data"), list)]
    for arr in arrays:
        if len(arr) != len(res["counts"]):
            continue
        for i in range(len(arr)):
            if (i // stride) % shape[ax] == gone and isinstance(arr[i], (int, float)):
                arr[i] = 0
    cats = dims[ax]["type"]["categories"]
    a, b = cats[gone]["id"], cats[other]["id"]
    pos, neg = ([a], [b]) if rng.random() < 0.5 else ([b], [a])
    # the LAST dimension of the response is the columns dimension of a slice (rows of a strand)
    key = "rows_dimension" if (len(dims) == 1 or ax < len(dims) - 1 and not case.get("strand")) else "columns_dimension"
    if case.get("strand"):
        key = "rows_dimension"
    tr = case.get("transforms") or {}
    dd = dict(tr.get(key) or {})
    ins = list(dd.get("insertions") or [])
    ins.append({"function": "subtotal", "name": "empty_wave_diff", "anchor": "bottom", "args": pos,
                "kwargs": {"positive": pos, "negative": neg}, "id": 97})
    dd["insertions"] = ins
    tr = dict(tr)
    tr[key] = dd
    case["transforms"] = tr
    case["empty_wave"] = True
    return True


def empty_wave_some(cases, seed, p=0.5):
    """apply [empty_wave] to about half of the cases that have a categorical-date dimension (own PRNG)"""
    import random
    erng = random.Random(seed * 104729 + 7)
    for case in cases:
        if "cat_date" in (case.get("kinds") or ()) and not case.get("dominant") and erng.random() < p:
            empty_wave(case, erng)


# ------------------------------------------------------------------------------------
# WARNINGS-AS-ERRORS LEG (shared): outputs the library computes inside `np.errstate(.. "ignore")` blocks
# ("do not propagate divide-by-zero warnings") must not turn into exceptions when the caller runs with
# `-W error`.  Only for outputs that are warning-free on the unchanged tree (probed over 400 generated
# cases incl. dominant cells and empty waves); the ones that DO warn there are listed in WARNS_ANYWAY and
# never compared (margin proportions and scale-mean margins of empty tables, the smoothed outputs'
# deliberate UserWarnings, summary_pairwise_indices, the strand's standard errors / share of sum).
# ------------------------------------------------------------------------------------

WARNS_ANYWAY = {"columns_margin_proportion", "rows_margin_proportion", "columns_scale_mean_margin",
                "rows_scale_mean_margin", "smoothed_column_index", "smoothed_column_percentages",
                "smoothed_column_proportions", "smoothed_columns_scale_mean", "smoothed_means",
                "summary_pairwise_indices", "population_counts_moe", "population_proportion_stderrs",
                "share_sum", "table_proportion_moes", "table_proportion_stddevs", "table_proportion_stderrs"}


def warnings_as_errors(case, names, transforms=_CASE, k=0, population=None):
    """Read `names` (minus WARNS_ANYWAY) on a fresh partition normally and on another one with every Python
    warning turned into an error; returns [(name, normal, strict)] for the names whose canonical values
    differ (an exception instead of a value included)."""
    tr = case["transforms"] if transforms is _CASE else transforms
    names = [n for n in names if n not in WARNS_ANYWAY]
    p = impl.partition(case["response"], tr, k=k, population=population)
    q = impl.partition(case["response"], tr, k=k, population=population)
    out = []
    for n in names:
        a = _canon_read(impl.get(p, n))
        impl.WARN_FILTER = "error"
        try:
            b = _canon_read(impl.get(q, n))
        finally:
            impl.WARN_FILTER = "ignore"
        if a != b:
            out.append((n, a, b))
    return out


def scale_weights(case, factor):
    """Every weight of the data set multiplied by `factor` (a Fraction or int), at the response level: the
    weighted count measure and the weighted valid counts are scaled, the unweighted counts stay.  With a
    factor like 1/64 the weighted bases fall between 0 and 1 (weights normalised to a small total)."""
    from fractions import Fraction
    res = case["response"]["result"]
    ms = res.get("measures", {})
    done = False
    for key in ("count", "valid_count_weighted"):
        m = ms.get(key)
        if isinstance(m, dict) and isinstance(m.get("data"), list):
            m["data"] = [float(Fraction(x) * Fraction(factor)) if isinstance(x, (int, float)) and not isinstance(x, bool)
                         else x for x in m["data"]]
            done = True
    if done:
        case["weights_scaled"] = str(factor)
    return done
