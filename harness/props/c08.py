# -*- coding: utf-8 -*-
"""C08 - Sort-by-value ordering is monotone in the requested measure.

Obligations: coq/Props/C08.v (models Model/Collator.v, Model/SortKeys.v).

Check =
(t) tables: the keyword -> measure tables of matrix/assembler.py::_BaseOrderHelper._measure,
    _SortRowsByMarginalHelper._marginal, stripe/assembler.py::_SortByMeasureHelper._measure and the
    MEASURE / MARGINAL enumerations are read from the source text by the source translator
    (harness/translate/x_assemble.py -> Gen/SortTablesSrc.v; obligation C08_gen_sort_tables: lookup equality
    with Model/SortKeys.v for every keyword string) - the same reader gives this check its keyword lists,
    and the tables are also compared with the model's (rendered by Coq) so that a difference is named;
(a) correspondence: the model of the order helpers (dispatch on "type", key resolution, fallback,
    SortByValueCollator) is run in Coq on the exact PUBLIC values of the measure the transform names
    (floats of an untransformed run as exact rationals) and compared with row_order()/column_order()
    (signed and 'ins_N') of the run with the transform; for a keyword that is sorted on a surrogate,
    permutations inside classes of exactly equal public values are tolerated; the model's measures
    object (slice_measures / strand_measures) gets the DIFFERENCE flags of the subtotals of both
    dimensions, read from the raw insertion dicts: the population proportions are NaN there (as
    _PopulationProportions since /repo e7676546, former finding C08-population-difference-subtotals);
(b) oracle on the implementation alone, straight from the property text: along the reported order the
    PUBLIC measure named in the transform is monotone in the requested direction over the displayed
    non-fixed base elements, NaN-valued ones last in payload order; fixed top / bottom ids bracket them
    in listed order (an id named more than once counts where it is first mentioned, top before bottom); the subtotals are one group, sorted the same way, first when descending and last
    when ascending; when the key cannot be resolved (unknown element / insertion id, unknown keyword,
    measure not in the response) the order equals the order of the same run WITHOUT the order transform.
    No exception for the `population` keyword: a difference subtotal (public population count NaN) stands
    last in payload order in its group, and a sort keyed on an opposing difference insertion (every
    public value NaN) leaves body and subtotal group in payload order; a directed stream generates both
    situations in every run.
(c) references to items of ARRAY dimensions that match nothing (added after seeded change C08-6: the
    last-resort "take the id as the subvariable's position" step of _ElementIdShim.translate_element_id lost
    its 0 <= id < n range check, so a sort by opposing element -1 / '-1' was keyed on the LAST subvariable
    instead of falling back; oracle (b) could not see it because it took "unknown element id" from the
    implementation's own translation, and no stream produced negative stale ids on array dimensions).
    Which references certainly name no item of an MR / CA-subvariables / numeric-array dimension - no
    alias, subvariable id or element id in any spelling and, as a number, outside 0..n-1 - is now decided
    from the raw response (`matches_nothing`, shared with C07's leg (c)): as the key of a sort by opposing
    element (opposing insertion for rows against array columns) such a reference makes oracle (b) expect
    the fallback whatever the implementation translated it to; inside fixed top / bottom lists (and
    element-transform keys) it must leave no trace: the partition equals the one of the same transforms
    without it (relational, `unmatched_refs_leg`, run on every case; it also holds the fallback
    expectation for NUM_ARRAY x CAT slices, which the model correspondence skips).  A stream of its own
    (`gen_stale_ref_case`) points sort keys, fixed lists and hide keys at such references: negative ints
    and numeric strings in -n..-1 and below -n, numbers >= n, non-numeric strings, on MR, CA and numeric
    arrays as sorted or opposing dimension.
(d) ONE transforms dict object for a sequence of cubes (added after seeded change C08-7:
    `_ElementIdShim.shimmed_dimension_transforms_dict` translated the fixed top / bottom ids of an array
    dimension IN PLACE, so the caller's transforms dict carried the first cube's subvariable aliases; a second
    cube given the same dict - another array variable, other aliases - could not resolve them, dropped the
    fixed elements and sorted them by value with the rest.  Every case of (a)-(c) builds one cube on a deep
    copy; the change was noticed only as a broken source-text obligation, without a failing input).  The
    property speaks about each table on its own, so it must hold for cube k of a deck exactly as for cube k
    alone.  Class added: 2..3 cubes built one after another over DIFFERENT array variables (the cube sequences
    of C09's leg (c): MR strands, MR x CAT, CAT x MR, CA, MR x MR, numeric arrays, 3-D cubes) with one
    transforms object - the whole dict, only its dimension dicts, or only the 'order' level being the same
    object for every cube; built through `impl.Cube` without the deep copy `impl.partition` makes, read
    interleaved / after all are built / in reverse, or as the cubes of a CubeSet given [t, t] - carrying a
    sort-by-value order (opposing element / opposing insertion / label / marginal / univariate measure,
    both directions) whose fixed top / bottom lists and opposing-element keys are spelled by element id (int /
    string), subvariable id, alias or category id (repeats, references that name nothing), with hides, prune,
    view and transforms insertions.  Required of every cube and slice (relational): the same row / column
    orders in both formats, labels, codes, payload_order and shape as a fresh cube on the same response given
    its OWN pristine deep copy of the transforms as written - for which legs (a) / (b) establish the property.
    Distribution keys `shared-transforms:*`.
(e) the element with id 0 in the fixed lists, and falsy-looking references that name nothing (added after seeded
    change C08-9: `_OrderSpec.top_fixed_ids` / `bottom_fixed_ids` were folded into a helper that drops the `None`
    ids the element-id shim leaves for untranslatable references with `if id_`, so an element whose id is 0 was
    dropped from the fixed lists too and sorted by value with the rest.  It was noticed only as a broken
    source-text obligation: oracle (b) took the fixed ids from the implementation's own `_OrderSpec`, and no
    stream fixed an element with id 0 on a dimension whose ids are not translated to aliases).  "Any fixed
    top/bottom lists": 0 is an element id like any other - a category coded 0, and the first element of every
    text / numeric / binned / datetime dimension (element ids are the positions 0..n-1).  Added: oracle (b) now
    decides WHICH elements the lists name from the caller's transform and the raw response on every
    categorical / text / numeric / datetime dimension (`raw_fixed_idxs`: the id itself with Python equality, on
    datetime dimensions the value, given directly or by element id as number / numeric string; array dimensions
    keep the implementation's translated ids, C19's); a stream of its own (`gen_zero_id_cases`): pairs of cases
    on one response with the element 0 fixed on top / at the bottom (so that in one of them its value would not
    sort it there - counted in `fixed-id-0:element-0-fixed-at-*`), spelled 0, 0.0 and "0", alone or beside other
    fixed elements, on categoricals with a valid category 0 (0-based scale, 0/1 flag, 0 among other codes;
    also cat-date), text, numeric, binned and datetime dimensions and on categoricals WITHOUT a category 0,
    as rows, columns and strands, every sort type of the place in turn, both directions, opposing dimension
    CAT / CAT_DATE / MR / text / binned, subtotals, hides (also of element 0) and prune; falsy-looking
    references that name nothing there ("", and 0 / 0.0 / "0" where no element has id 0; "0" on every
    non-datetime dimension) are mixed into the lists and must leave no trace: relational leg
    `nameless_refs_leg` (the partition equals the one of the same transforms without them), besides oracle (b)
    and the model correspondence (a), which reads an integral float in a fixed list as the int it equals.
    Distribution keys `fixed-id-0:*`, `leg-e:*`, `fixed-lists-read-from:*`.
(f) strands whose rows have very different bases (added after seeded change C08-4: the stripe
    `_SortByMeasureHelper._measure` keyed 'percent_stderr' on table_proportion_stddevs, "strictly proportional"
    to the std-error - which it is only when every row has the same base.  It was noticed only as a broken
    source-text obligation: the MR strands of the main stream have <= 40 respondents and one missing rate (20%)
    for every item, so sqrt(p(1-p)) and sqrt(p(1-p)/N) ordered the rows alike).  "All data sets; every sortable
    measure keyword; both directions; strands": the order is that of the values of the NAMED public measure,
    whatever another measure would say.  Class added (`gen_uneven_bases_cases`, own generator state):
    multiple-response strands of 2..6 items, 30..250 respondents, each item with its OWN missing rate (0 .. 97%,
    one item (almost) complete and one (almost) entirely missing: weighted bases differing by a factor >= 5) and
    its own share of 'selected' (5 .. 90%), drawn again until some pair of rows is ordered one way by p(1-p) and
    the other way by p(1-p)/N; every such response is sorted by EVERY keyword of the stripe helper's table (read
    from the source), once descending (direction absent on a third) and once ascending, through oracle (b) -
    monotone in the public measure the keyword names, as the same partition without transforms reports it, ties
    free - and the model correspondence (a).  Distribution keys `stream:mr-strand-uneven-item-bases`,
    `uneven-bases:<keyword>:<direction>`, `uneven-bases:rows:*`; `uneven_bases_keywords_not_exercised` must be [].
"""
import copy
import json
import math
import random

import numpy as np

from harness import core, gen, impl
from harness.core import g_bool, g_list, g_nat, g_opt, g_str
from harness.props import common_cases as cc
from harness.props import order_util as ou
# which references certainly name no item of an array dimension (from the raw response alone) and the
# transforms without them: shared with C07's leg (c), see there
from harness.props.c07 import (array_facts_by_key, drop_unmatched_refs, known_refs_pool, matches_nothing,
                               stale_ref_class, stale_refs_pool)
# sequences of cubes over different array variables given ONE transforms object (leg (d)): the sharing
# levels, the runner and the comparison are C07's, the cube sequences those of C09's leg (c)
from harness.props import c07 as seq

PID = "C08"
IMPORTS = ou.IMPORTS + "\nFrom CC Require Import Model.SortKeys."
ERR = dict(ou.ERR)
ERR[4] = "NotImplementedError"
READINGS = {0: "same", 1: "root", 2: "z975", 3: "population", 4: "population_z975"}

VALUE_TYPES = {
    "rows": ("opposing_element", "opposing_insertion", "label", "marginal"),
    "columns": ("opposing_element", "opposing_insertion", "label"),
    "strand": ("univariate_measure", "label"),
}
ALL_TYPES = ("opposing_element", "opposing_insertion", "label", "marginal", "univariate_measure")


# ------------------------------------------------------------------------------------
# (t) keyword tables: source text vs model
# ------------------------------------------------------------------------------------


def source_tables():
    """keyword tables as the SOURCE TEXT says (None entries when it cannot be read): read by the source
    translator harness/translate/x_assemble.py - the same reader that emits Gen/SortTablesSrc.v, whose
    agreement with Model/SortKeys.v for every keyword string is the proof obligation C08_gen_sort_tables;
    this check no longer parses the assemblers itself.  The comparison below stays as the leg that names
    the differing rows."""
    from harness.translate import x_assemble

    try:
        return x_assemble.read_tables(core.REPO_SRC)
    except Exception:            # noqa  (a bug of the reader: report as unreadable, do not crash)
        return {"measure_enum": None, "marginal_enum": None, "matrix": None, "marginal": None, "strand": None}


def model_tables():
    toks, _ = core.run_coq_cases(PID, IMPORTS, ["run_tables"], tag="tables")
    d = ou.ODec(toks[0])

    def row():
        return {"kw": d.string(), "prop": d.string(), "public": d.string(), "reading": READINGS[d.Z()]}

    out = {"measure_enum": d.list(d.string)}
    out["matrix"] = {r["kw"]: r for r in d.list(row)}
    out["strand"] = {r["kw"]: r for r in d.list(row)}
    out["marginal_enum"] = d.list(d.string)
    out["marginal"] = {r["kw"]: r for r in d.list(row)}
    assert d.done()
    return out


def compare_tables(rep, src, mod):
    """-> list of differences (strings)"""
    diffs = []
    for name in ("measure_enum", "marginal_enum"):
        if src[name] is None:
            diffs.append("%s: source unreadable" % name)
        elif sorted(src[name]) != sorted(mod[name]):
            diffs.append("%s: source %s / model %s" % (
                name, sorted(set(src[name]) - set(mod[name])), sorted(set(mod[name]) - set(src[name]))))
    for name in ("matrix", "strand", "marginal"):
        if src[name] is None:
            diffs.append("%s table: source unreadable" % name)
            continue
        sm = {k: r["prop"] for k, r in mod[name].items()}
        if src[name] != sm:
            ks = sorted(set(src[name]) | set(sm))
            diffs.append("%s table: %s" % (name, [(k, src[name].get(k), sm.get(k)) for k in ks
                                                  if src[name].get(k) != sm.get(k)]))
    return diffs


class Tables(object):
    """what the check uses: keywords from the SOURCE (so that new ones are exercised), public
    measure + reading from the model's table (for an unknown keyword: the property of the same
    name as the measure object's, if the partition has it)"""

    def __init__(self, src, mod):
        self.src, self.mod = src, mod

    def keywords(self, which):
        t = self.src.get(which)
        return sorted(t) if t else sorted(self.mod[which])

    def enum(self, which):
        return self.src.get(which) or self.mod[which]

    def row(self, which, kw):
        """-> dict(prop, public, reading) or None when kw is not a sortable keyword (source)"""
        t = self.src.get(which)
        if t is None:
            t = {k: r["prop"] for k, r in self.mod[which].items()}
        if not isinstance(kw, str) or kw not in t:
            return None
        r = self.mod[which].get(kw)
        if r is not None:
            # what the reader sees under the keyword does not change when the code sorts on
            # something else than the model's table says
            return {"prop": r["prop"], "source_prop": t[kw], "public": r["public"],
                    "reading": r["reading"] if r["prop"] == t[kw] else "unknown"}
        return {"prop": t[kw], "source_prop": t[kw], "public": t[kw], "reading": "unknown"}


# ------------------------------------------------------------------------------------
# cases
# ------------------------------------------------------------------------------------


def ins_id_candidates(v, tdim):
    src = (tdim or {}).get("insertions")
    if src is None:
        src = getattr(v, "view_insertions", None) or []
    out = [d["id"] for d in src if isinstance(d, dict) and "id" in d]
    out += list(range(1, len(src) + 1))
    return out or [1]


def dim_ids(v, role):
    if role == "items":
        return [it["id"] for it in v.items]
    return gen.valid_cat_ids(v)


def make_order(rng, place, own_ids, opp_v, opp_role, opp_tdim, tables, kw_hint, force_type=None, p_fixed=0.45):
    """an order dict for a dimension at `place`"""
    types = VALUE_TYPES[place]
    r = rng.random()
    if force_type is not None:
        typ = force_type
    elif r < 0.93:
        typ = rng.choice(types)
        x = rng.random()
        if place != "strand" and x < 0.35:
            typ = "opposing_element"
        elif place != "strand" and x < 0.55 and opp_role != "items" and (
                (opp_tdim or {}).get("insertions") or getattr(opp_v, "view_insertions", None)):
            typ = "opposing_insertion"
        if place == "strand" and x < 0.6:
            typ = "univariate_measure"
    else:
        typ = rng.choice(ALL_TYPES)          # possibly a type that means payload order here
    o = {"type": typ}
    which = "strand" if place == "strand" else "matrix"
    if typ in ("opposing_element", "opposing_insertion", "univariate_measure"):
        x = rng.random()
        if x < 0.86:
            o["measure"] = kw_hint if kw_hint in tables.keywords(which) else rng.choice(tables.keywords(which))
        elif x < 0.91:
            o["measure"] = rng.choice(["foo", "", "percent" if which == "matrix" else "col_percent"])
        elif x < 0.95:
            unsortable = [m for m in tables.enum("measure_enum") if m not in tables.keywords("matrix")]
            o["measure"] = rng.choice(unsortable or ["foo"])
        elif x < 0.97:
            pass                              # field absent -> KeyError (malformed request)
        else:
            o["measure"] = rng.choice(tables.keywords("matrix" if which == "strand" else "strand"))
    if typ == "marginal":
        x = rng.random()
        if x < 0.9:
            o["marginal"] = kw_hint if kw_hint in tables.keywords("marginal") else rng.choice(
                tables.keywords("marginal"))
        elif x < 0.97:
            o["marginal"] = rng.choice(["foo", "margin"])
    if typ == "opposing_element" and opp_v is not None:
        ids = dim_ids(opp_v, opp_role)
        x = rng.random()
        if x < 0.84 and ids:
            o["element_id"] = rng.choice(ids)
            if opp_role == "items" and rng.random() < 0.4:
                it = [i for i in opp_v.items if i["id"] == o["element_id"]][0]
                o["element_id"] = rng.choice([it["alias"], it["subvar_id"], str(it["id"])])
        elif x < 0.97:
            o["element_id"] = rng.choice([999, "999", 77, None] + [c["id"] for c in getattr(opp_v, "cats", [])
                                                                   if c["missing"] and opp_role != "items"])
    if typ == "opposing_insertion" and opp_v is not None:
        x = rng.random()
        if opp_role == "items":
            ids = dim_ids(opp_v, opp_role)
            o["insertion_id"] = rng.choice(ids + [999]) if x < 0.9 else None
        elif x < 0.8:
            o["insertion_id"] = rng.choice(ins_id_candidates(opp_v, opp_tdim))
        elif x < 0.97:
            o["insertion_id"] = rng.choice([99, "1", None])
    d = rng.random()
    if d < 0.4:
        o["direction"] = "ascending"
    elif d < 0.7:
        o["direction"] = "descending"
    elif d < 0.75:
        o["direction"] = rng.choice(["up", "ASCENDING", None])
    if rng.random() < p_fixed and own_ids:
        pool = list(own_ids)
        rng.shuffle(pool)
        n_top = rng.randint(0, min(2, len(pool)))
        top = pool[:n_top]
        rest = pool[n_top:]
        bottom = rest[:rng.randint(0, min(2, len(rest)))]
        if rng.random() < 0.3:
            top.insert(rng.randint(0, len(top)), 998)
        if rng.random() < 0.2:
            bottom.append(997)
        fixed = {}
        if top or rng.random() < 0.2:
            fixed["top"] = top
        if bottom or rng.random() < 0.2:
            fixed["bottom"] = bottom
        o["fixed"] = fixed
    return o


def decorate_dim(rng, v, role, tdim):
    """hides / prune on a dimension (in place on tdim)"""
    ids = dim_ids(v, role)
    if rng.random() < 0.35:
        els = {}
        for i in ids:
            if rng.random() < 0.3:
                els[str(i) if rng.random() < 0.7 or role == "items" else i] = {"hide": True}
        if els:
            tdim["elements"] = els
    if rng.random() < 0.3:
        tdim["prune"] = True


def gen_case(rng, k, tables, kw_cycle, p_fixed=0.45):
    numeric_measures = rng.random() < 0.45
    base = cc.gen_slice_case(
        rng, k, p_strand=0.27,
        measures=("count", "mean", "sum", "stddev") if numeric_measures else ("count",),
        numvar="x" if numeric_measures else None, valid_counts_p=0.12,
        n_resp=rng.choice([(0, 6), (3, 15), (10, 40)]))
    sv = base["survey"]
    strand = base["strand"]
    transforms = copy.deepcopy(base["transforms"] or {})
    vs = sv.vars
    if strand:
        dims = [("rows_dimension", vs[0], "items" if vs[0].kind == "mr" else "elements")]
    elif len(vs) == 1:       # categorical array: items x categories
        dims = [("rows_dimension", vs[0], "items"), ("columns_dimension", vs[0], "elements")]
    else:
        dims = [("rows_dimension", vs[0], "items" if vs[0].kind == "mr" else "elements"),
                ("columns_dimension", vs[1], "items" if vs[1].kind == "mr" else "elements")]
    for key, v, role in dims:
        decorate_dim(rng, v, role, transforms.setdefault(key, {}))
    # which dimensions are sorted
    if strand:
        sorted_keys = ["rows_dimension"]
    else:
        x = rng.random()
        sorted_keys = (["rows_dimension"] if x < 0.5 else ["columns_dimension"] if x < 0.85
                       else ["rows_dimension", "columns_dimension"])
    kw_hint = kw_cycle[k % len(kw_cycle)]
    for key in sorted_keys:
        n = 0 if key == "rows_dimension" else 1
        _, v, role = dims[n]
        place = "strand" if strand else ("rows" if n == 0 else "columns")
        opp = None if strand else dims[1 - n]
        force = None
        if kw_hint in tables.keywords("marginal") and place == "rows" and rng.random() < 0.8:
            force = "marginal"
        transforms[key]["order"] = make_order(
            rng, place, dim_ids(v, role), opp[1] if opp else None, opp[2] if opp else None,
            transforms.get(opp[0]) if opp else None, tables, kw_hint, force, p_fixed)
    uses_population = any("population" in str((transforms[key].get("order") or {}).get("measure"))
                          for key in sorted_keys)
    population = rng.choice([1000, 7.5, 1, 250000]) if (uses_population or rng.random() < 0.2) else None
    if uses_population and rng.random() < 0.25:
        # a filtered cube (fraction in [0, 1]) or an empty population: scale 0 makes every value tie
        b = rng.choice([4, 10, 25])
        base["response"]["result"].update({"filtered": {"weighted_n": rng.choice([0, 1, b // 2, b])},
                                           "unfiltered": {"weighted_n": b}})
        if rng.random() < 0.3:
            population = 0
    return {"k": k, "response": base["response"], "transforms": transforms, "strand": strand,
            "population": population, "kinds": list(base["kinds"]), "malformed": False}


def gen_repeat_case(rng, k, tables, kw_cycle):
    """separate stream: ids repeated inside a fixed list and named at both ends (the first mention
    counts, since the repair of finding C05-fixed-repeats) - compared like every other case: model vs
    implementation, and the oracle with the first-mention reading of the fixed lists"""
    case = gen_case(rng, k, tables, kw_cycle, p_fixed=1.0)
    for key in ("rows_dimension", "columns_dimension"):
        o = (case["transforms"].get(key) or {}).get("order")
        if o:
            fx = o.get("fixed") or {}
            top, bottom = list(fx.get("top") or []), list(fx.get("bottom") or [])
            ids = top + bottom
            if not ids:
                continue
            x = rng.random()
            if x < 0.35:
                top, bottom = top + [ids[0]], [ids[0]] + bottom + bottom[:1]
            elif x < 0.7:
                a = rng.choice(ids)
                top.insert(rng.randint(0, len(top)), a)
                bottom.insert(rng.randint(0, len(bottom)), rng.choice(ids))
                bottom.append(a)
            else:
                top, bottom = [ids[0], ids[0]], [ids[0]] + ids[1:]
            o["fixed"] = {"top": top, "bottom": bottom}
    case["repeats"] = True
    return case


# leg (f): MR strands whose rows have very different bases (per-item missing data)
UNEVEN_MISSING_RATES = (0.0, 0.0, 0.03, 0.3, 0.6, 0.85, 0.93, 0.97)
UNEVEN_SELECTED_RATES = (0.05, 0.1, 0.2, 0.35, 0.5, 0.5, 0.65, 0.8, 0.9)


def uneven_mr_strand(rng, tries=25):
    """-> (response, variable, facts): a multiple-response strand of 2..6 items answered by very different
    numbers of respondents: per item an own missing rate (at least one item almost complete, at least one
    almost entirely missing: weighted bases differing by a factor >= 5 where possible) and an own share of
    'selected' - so that p, p(1-p), p(1-p)/N, N and the counts order the rows differently.  facts (from the
    survey, for the coverage record only): base ratio, whether some pair of rows is ordered one way by
    p(1-p) and the other way by p(1-p)/N (what separates the std-dev from the std-error keywords), and
    whether some pair is ordered differently by the weighted count and by the proportion."""
    best = None
    for _ in range(tries):
        n_items = rng.randint(2, 6)
        v = gen.make_mr(rng, "rowv", n_items=n_items)
        numeric = rng.random() < 0.35
        n = rng.choice([30, 60, 120, 250])
        sv = gen.Survey([v], n, rng, numvars=["x"] if numeric else [],
                        weighted=rng.random() < 0.6, zero_weights=rng.random() < 0.5)
        miss = [rng.choice(UNEVEN_MISSING_RATES) for _ in v.items]
        lo, hi = rng.sample(range(n_items), 2)
        miss[lo], miss[hi] = rng.choice((0.0, 0.03)), rng.choice((0.85, 0.93, 0.97))
        psel = [rng.choice(UNEVEN_SELECTED_RATES) for _ in v.items]
        for r in sv.resp:
            r["ans"]["rowv"] = [gen.MIS if rng.random() < miss[i]
                                else gen.SEL if rng.random() < psel[i] else gen.OTH
                                for i in range(n_items)]
        sel = [sum((r["w"] for r in sv.resp if r["ans"]["rowv"][i] == gen.SEL), gen.Fraction(0))
               for i in range(n_items)]
        bases = [sum((r["w"] for r in sv.resp if r["ans"]["rowv"][i] != gen.MIS), gen.Fraction(0))
                 for i in range(n_items)]
        pos = [i for i in range(n_items) if bases[i] > 0]
        p = {i: sel[i] / bases[i] for i in pos}
        var = {i: p[i] * (1 - p[i]) for i in pos}
        facts = {
            "base_ratio_ge_5": bool(pos) and max(bases) >= 5 * min(bases[i] for i in pos),
            "stddev_and_stderr_discordant": any(
                var[i] < var[j] and var[i] / bases[i] > var[j] / bases[j] for i in pos for j in pos),
            "count_and_percent_discordant": any(
                sel[i] < sel[j] and p[i] > p[j] for i in pos for j in pos),
        }
        resp = gen.cube_response(sv, ["rowv"],
                                 measures=("count", "mean", "sum", "stddev") if numeric else ("count",),
                                 numvar="x" if numeric else None)
        best = (resp, v, facts)
        if facts["base_ratio_ge_5"] and facts["stddev_and_stderr_discordant"]:
            break
    return best


def gen_uneven_bases_cases(rng, k0, tables):
    """leg (f): ONE multiple-response strand with heavily uneven per-item bases, sorted by EVERY keyword of
    the stripe sort helper's table in both directions (one case per keyword and direction; 'descending' is
    left to the default on a third of them); hides / prune on 20%, fixed lists on 15% of the cases"""
    resp, v, facts = uneven_mr_strand(rng)
    ids = dim_ids(v, "items")
    cases = []
    for kw in tables.keywords("strand"):
        for direction in ("descending", "ascending"):
            tdim = {}
            if rng.random() < 0.2:
                decorate_dim(rng, v, "items", tdim)
            o = make_order(rng, "strand", ids, None, None, None, tables, kw, force_type="univariate_measure",
                           p_fixed=0.15)
            o["measure"] = kw
            o.pop("direction", None)
            if direction == "ascending" or rng.random() < 0.67:
                o["direction"] = direction
            tdim["order"] = o
            population = rng.choice([1000, 7.5, 1, 250000]) if "population" in kw or rng.random() < 0.1 else None
            cases.append({"k": k0 + len(cases), "response": copy.deepcopy(resp),
                          "transforms": {"rows_dimension": tdim}, "strand": True, "population": population,
                          "kinds": ["mr"], "malformed": False,
                          "uneven_bases": dict(facts, keyword=kw, direction=direction)})
    return cases


def raw_insertions(case, key):
    """the insertion dicts dimension `key` of the case takes its subtotals from (transform list when
    the key is there, else the view's)"""
    t = (case["transforms"].get(key) or {})
    if "insertions" in t:
        return t["insertions"] or []
    try:
        dds = ou.displayed_dim_dicts(case["response"])
        dds = dds[-1:] if case["strand"] else dds[-2:]
        dd = dds[0 if key == "rows_dimension" else 1]
        return (((dd.get("references") or {}).get("view") or {}).get("transform") or {}).get(
            "insertions") or []
    except (IndexError, KeyError, TypeError, AttributeError):
        return []


def is_difference_dict(d):
    return isinstance(d, dict) and bool((d.get("kwargs") or {}).get("negative"))


def gen_population_difference_case(rng, k, tables, tries=60):
    """separate stream, the situations of former finding C08-population-difference-subtotals: a sort by
    the `population` keyword (a) on a dimension whose subtotal group holds a difference, (b) keyed on an
    opposing insertion that is a difference.  Same generator as every other case (rejection on the raw
    dicts, then the order is pointed at the difference); the checks are the same as everywhere."""
    case = None
    for _ in range(tries):
        c = gen_case(rng, k, tables, ["population"], p_fixed=0.25)
        keys = ["rows_dimension"] if c["strand"] else ["rows_dimension", "columns_dimension"]
        diffs = {key: [d for d in raw_insertions(c, key) if is_difference_dict(d)] for key in keys}
        if not any(diffs.values()):
            continue
        sorted_keys = [key for key in keys if isinstance((c["transforms"].get(key) or {}).get("order"), dict)]
        if not sorted_keys:
            continue
        case = c
        want_b = (not c["strand"]) and rng.random() < 0.5
        done = False
        for key in sorted_keys:
            o = c["transforms"][key]["order"]
            other = None if c["strand"] else [x for x in keys if x != key][0]
            o["measure"] = "population"
            if want_b and other and diffs[other] and not done:
                d = rng.choice(diffs[other])
                ins = raw_insertions(c, other)
                o["type"] = "opposing_insertion"
                o["insertion_id"] = d["id"] if isinstance(d.get("id"), int) else ins.index(d) + 1
                o.pop("element_id", None)
                done = True
            elif diffs[key] and not done:
                if c["strand"]:
                    o["type"] = "univariate_measure"
                elif o.get("type") not in ("opposing_element", "opposing_insertion"):
                    o["type"] = "opposing_element"
                    o.pop("marginal", None)
                done = True
        if done:
            break
    if case is None:
        case = gen_case(rng, k, tables, ["population"])
    if case.get("population") is None:
        case["population"] = rng.choice([1000, 7.5, 250000])
    case["population_difference"] = True
    return case


# ---- stream (c): references that match nothing on ARRAY dimensions ---------------------------------


def pick_stale_ref(rng, facts):
    """a reference that names no item of the array dimension: mostly a negative number from -1 down to
    -n (int or numeric string), else below -n, >= n or not a number"""
    pool = stale_refs_pool(rng, facts)
    want = rng.choice(["negative-within", "negative-within", "negative-within", "negative-below",
                       "too-large", "non-numeric", ""])
    pool = [x for x in pool if stale_ref_class(x, facts).startswith(want)] or pool
    return rng.choice(pool) if pool else None


def point_orders_at_stale_refs(rng, case, tables, slots=("key", "fixed", "hide")):
    """re-write the order transforms of a case so that every slot that takes a reference to an item of
    an ARRAY dimension holds one that matches nothing: the key of a sort by opposing element (opposing
    insertion for rows against array columns), the fixed top / bottom lists of a sorted array dimension,
    element-transform keys.  -> [(slot, reference)]"""
    strand = case["strand"]
    facts = array_facts_by_key(case["response"], strand)
    keys = ["rows_dimension"] if strand else ["rows_dimension", "columns_dimension"]
    done = []
    for n, key in enumerate(keys):
        t = case["transforms"].setdefault(key, {})
        own = facts.get(key)
        opp = None if strand else facts.get(keys[1 - n])
        o = t.get("order")
        if "key" in slots and opp is not None and (isinstance(o, dict) or rng.random() < 0.6) and (
                rng.random() < 0.75 or slots == ("key",)):
            x = pick_stale_ref(rng, opp)
            if x is not None:
                o = dict(o) if isinstance(o, dict) else {}
                if key == "rows_dimension" and rng.random() < 0.2:
                    o.pop("element_id", None)
                    o.update(type="opposing_insertion", insertion_id=x)
                    done.append(("opposing-insertion-id", x))
                else:
                    o.pop("insertion_id", None)
                    o.update(type="opposing_element", element_id=x)
                    done.append(("opposing-element-id", x))
                o.pop("marginal", None)
                if o.get("measure") not in tables.keywords("matrix") or rng.random() < 0.3:
                    o["measure"] = rng.choice(case.get("stale_measures") or tables.keywords("matrix"))
                t["order"] = o
        if "fixed" in slots and own is not None and rng.random() < 0.8:
            if not isinstance(o, dict):
                # a key that can always be resolved, so that the fixed lists are honoured
                o = {"type": "label", "direction": rng.choice(["ascending", "descending"])}
                t["order"] = o
            fixed = dict(o.get("fixed") or {})
            known = known_refs_pool(own)
            for end in rng.choice([("top",), ("bottom",), ("top", "bottom")]):
                l = list(fixed.get(end) or [])
                if not l and known and rng.random() < 0.5:
                    l = [rng.choice(known)]
                x = pick_stale_ref(rng, own)
                if x is not None:
                    l.insert(rng.randint(0, len(l)), x)
                    done.append(("fixed-" + end, x))
                fixed[end] = l
            o["fixed"] = fixed
        if "hide" in slots and own is not None and rng.random() < 0.25:
            x = pick_stale_ref(rng, own)
            els = dict(t.get("elements") or {})
            if x is not None and str(x) not in [str(i) for i in els]:
                els[str(x) if rng.random() < 0.6 else x] = {"hide": True}
                t["elements"] = els
                done.append(("hide", x))
    return done


def numarr_case(rng, k, tables):
    """numeric array (means) alone or by a categorical variable, every dimension sorted by value"""
    from harness.props import c19_util
    by_cat = rng.random() < 0.65
    resp = c19_util.numarr_response(rng, rng.randint(2, 5), by_cat=by_cat)
    transforms = {}
    if by_cat:
        cat_ids = [c["id"] for c in resp["result"]["dimensions"][0]["type"]["categories"] if not c.get("missing")]
        transforms["rows_dimension"] = {"order": {
            "type": "opposing_element", "element_id": rng.choice(cat_ids), "measure": "mean",
            "direction": rng.choice(["ascending", "descending"])}}
        transforms["columns_dimension"] = {"order": {
            "type": "opposing_element", "element_id": rng.randint(0, 1), "measure": "mean"}}
    else:
        transforms["rows_dimension"] = {"order": rng.choice([
            {"type": "univariate_measure", "measure": "mean"}, {"type": "label", "direction": "ascending"}])}
    return {"k": k, "response": resp, "transforms": transforms, "strand": not by_cat, "population": None,
            "kinds": ["numarr", "cat"] if by_cat else ["numarr"], "malformed": False,
            "stale_measures": ["mean"]}


def gen_stale_ref_case(rng, k, tables, kw_cycle, slots=("key", "fixed", "hide"), tries=40):
    """separate stream (after seeded change C08-6): sorts whose key, fixed lists or element-transform keys
    name an item of an MR / CA-subvariables / numeric-array dimension by a reference that matches nothing"""
    case = None
    for _ in range(tries):
        if rng.random() < 0.12:
            c = numarr_case(rng, k, tables)
        else:
            c = gen_case(rng, k, tables, kw_cycle, p_fixed=0.6)
        if not any(array_facts_by_key(c["response"], c["strand"]).values()):
            continue
        written = point_orders_at_stale_refs(rng, c, tables, slots)
        if written:
            case = c
            case["stale_refs"] = "x".join(str(x) for x in c["kinds"] if x)
            break
    if case is None:
        case = gen_case(rng, k, tables, kw_cycle)
    case.pop("stale_measures", None)
    return case


# ---- stream (e): the element with id 0 in the fixed lists, falsy-looking stale references -----------
#
# "Fixed-top and fixed-bottom elements bracket them in their listed order ... any fixed top/bottom lists":
# which element a reference of the list names is a matter of its id alone, and 0 is an id like any other - a
# category coded 0 (0-based scales, 0/1 flags), and the FIRST element of every text / numeric / binned /
# datetime dimension, whose element ids are the positions 0..n-1.  References that name nothing ("", and -
# where no element has id 0 - 0, 0.0, "0") are ignored like every other stale reference.

ZERO_SORTED_KINDS = ("cat0", "cat0", "cat0", "cat_date0", "text", "text", "numeric", "binned", "datetime",
                     "cat-without-0", "cat-without-0")
ZERO_OPP_KINDS = ("cat", "cat", "cat0", "cat_date", "mr", "text", "binned")
ENUM_KINDS = ("text", "numeric", "binned", "datetime")
ZERO_VARYING_KEYWORDS = {"matrix": ("count_weighted", "count_unweighted", "col_percent", "row_percent",
                                    "table_percent", "z_score", "col_index"),
                         "strand": ("count_weighted", "count_unweighted", "percent", "percent_moe")}


def make_zero_var(rng, alias, kind):
    """a variable of the (e) stream: kind 'cat0' / 'cat_date0' = categorical with a VALID category of id 0
    (0-based scale, 0/1 flag, or 0 anywhere among other codes), text / numeric / binned / datetime = enum
    dimension (element ids are the positions, from 0), 'cat-without-0' = categorical, no category has id 0;
    anything else: the variables of the other streams"""
    if kind in ("cat0", "cat_date0", "cat-without-0"):
        n_valid = rng.randint(2, 6)
        style = rng.choice(["scale", "scale", "flag", "anywhere"])
        if kind == "cat-without-0":
            valid = rng.sample(range(1, 3 * n_valid + 2), n_valid)
        elif style == "scale":
            valid = list(range(n_valid))
        elif style == "flag":
            valid = rng.choice([[0, 1], [1, 0]])
        else:
            valid = [0] + rng.sample(range(1, 3 * n_valid), n_valid - 1)
            rng.shuffle(valid)
        missing = rng.choice([[], [-1], [-1], [99], [98, 99]])
        v = gen.make_cat(rng, alias, n_valid=len(valid), n_missing=len(missing), date=kind == "cat_date0",
                         ids=valid + missing, missing_anywhere=False)
        if missing and rng.random() < 0.4:          # missing categories anywhere in the payload
            rng.shuffle(v.cats)
        return v
    if kind in ENUM_KINDS:
        v = gen.make_enum(rng, alias, "binned" if kind == "numeric" else kind, n_valid=rng.randint(2, 6))
        if kind == "numeric":                        # plain values instead of bin boundaries
            for e in v.elements:
                if not e["missing"]:
                    e["value"] = e["value"][0] + 5
        return v
    return cc.make_var(rng, kind, alias)


def zero_role(v):
    return "items" if v.kind == "mr" else "elements"


def zero_dim_ids(v, role):
    if role == "elements" and hasattr(v, "elements"):
        return [e["id"] for e in v.elements if not e["missing"]]
    return dim_ids(v, role)


def zero_order(rng, place, typ, opp, opp_tdim, tables, numeric):
    """a sort-by-value order of type `typ` with a key that can (mostly) be resolved, no fixed lists yet"""
    o = {"type": typ}
    which = "strand" if typ == "univariate_measure" else "matrix"
    if typ in ("univariate_measure", "opposing_element", "opposing_insertion"):
        # mostly keywords whose value differs from element to element (a base is often the same for all)
        varying = [kw for kw in ZERO_VARYING_KEYWORDS[which] if kw in tables.keywords(which)]
        o["measure"] = rng.choice(varying) if varying and not numeric and rng.random() < 0.65 \
            else seq_keyword(rng, tables, which, numeric)
    elif typ == "marginal":
        o["marginal"] = seq_keyword(rng, tables, "marginal", False)
    if typ == "opposing_element":
        ids = zero_dim_ids(opp, zero_role(opp))
        o["element_id"] = rng.choice(ids) if ids and rng.random() < 0.95 else 999
    if typ == "opposing_insertion":
        o["insertion_id"] = rng.choice(ins_id_candidates(opp, opp_tdim))
    d = rng.random()
    if d < 0.85:
        o["direction"] = "ascending" if d < 0.45 else "descending"
    return o


def zero_fixed_lists(rng, end, own_ids, spell):
    """fixed lists that name the element with id 0 at `end` (when the dimension has one), other elements
    beside it or at the other end, and falsy-looking references that name nothing"""
    others = [i for i in own_ids if i != 0]
    rng.shuffle(others)
    has_zero = 0 in own_ids
    mine, other = [], []
    if has_zero:
        mine = [spell]
        if others and rng.random() < 0.4:
            mine.insert(rng.randint(0, 1), others.pop())
    elif others:
        mine = [others.pop()]
    if others and rng.random() < 0.35:
        other = [others.pop()]
    stale = []
    if rng.random() < (0.45 if has_zero else 1.0):
        # on a dimension with an element 0 the number 0 in any spelling is not stale ("0" is, except on a
        # datetime dimension - the oracle decides from the raw response)
        pool = ["", "", "0"] if has_zero else [0, 0, "0", "", 0.0]
        for _ in range(rng.choice([1, 1, 2])):
            x = rng.choice(pool)
            l = rng.choice([mine, mine, other])
            l.insert(rng.randint(0, len(l)), x)
            stale.append(x)
    fixed = {end: mine}
    other_end = "bottom" if end == "top" else "top"
    if other or rng.random() < 0.3:
        fixed[other_end] = other
    return fixed, stale


def gen_zero_id_cases(rng, k, tables, n):
    """separate stream (after seeded change C08-9) -> TWO cases on one response: the element with id 0 of
    the sorted dimension fixed on top in one and at the bottom in the other, so that in at least one of
    them its value would not have sorted it there (two or more displayed elements with different values)."""
    strand = rng.random() < 0.3
    skind = ZERO_SORTED_KINDS[n % len(ZERO_SORTED_KINDS)]
    place = "strand" if strand else "rows" if rng.random() < 0.55 else "columns"
    # every sort type of the place in turn, for every kind of sorted dimension
    typ = VALUE_TYPES[place][(n // len(ZERO_SORTED_KINDS)) % len(VALUE_TYPES[place])]
    if strand:
        variables = [make_zero_var(rng, "rowv", skind)]
    else:
        okind = rng.choice(ZERO_OPP_KINDS[:4] if typ == "opposing_insertion" else ZERO_OPP_KINDS)
        sv_, ov_ = (make_zero_var(rng, "rowv", skind), make_zero_var(rng, "colv", okind)) if place == "rows" \
            else (make_zero_var(rng, "colv", skind), make_zero_var(rng, "rowv", okind))
        variables = [sv_, ov_] if place == "rows" else [ov_, sv_]
    keys = ["rows_dimension"] if strand else ["rows_dimension", "columns_dimension"]
    n_sorted = 1 if place == "columns" else 0
    transforms = {}
    for j, (v, key) in enumerate(zip(variables, keys)):
        wanted = typ == "opposing_insertion" and j != n_sorted      # the key of the sort is one of them
        if v.kind in ("cat", "cat_date") and (wanted or rng.random() < 0.6):
            ins = gen.random_insertions(rng, v)
            for _ in range(8):
                if ins or not wanted:
                    break
                ins = gen.random_insertions(rng, v)
            if rng.random() < 0.6:
                v.view_insertions = ins
            else:
                transforms.setdefault(key, {})["insertions"] = ins
    numeric = rng.random() < 0.3
    sv = gen.Survey(variables, rng.choice([10, 20, 40, 60]), rng, numvars=["x"] if numeric else [])
    resp = gen.cube_response(sv, [v.alias for v in variables],
                             measures=("count", "mean", "sum", "stddev") if numeric else ("count",),
                             numvar="x" if numeric else None)
    own = variables[n_sorted]
    own_ids = zero_dim_ids(own, zero_role(own))
    opp = None if strand else variables[1 - n_sorted]
    opp_tdim = None if strand else transforms.get(keys[1 - n_sorted])
    tdim = transforms.setdefault(keys[n_sorted], {})
    order = zero_order(rng, place, typ, opp, opp_tdim, tables, numeric)
    # hides / prune: mostly on other elements, sometimes on the element 0 itself
    if rng.random() < 0.25:
        hide = [i for i in own_ids if (i != 0 and rng.random() < 0.3) or (i == 0 and rng.random() < 0.1)]
        if hide:
            tdim["elements"] = {str(i): {"hide": True} for i in hide}
    if rng.random() < 0.2:
        tdim["prune"] = True
    spell = rng.choice([0, 0, 0, 0, 0.0, "0"])
    population = 1000 if "population" in str(order.get("measure")) else None
    out = []
    for j, end in enumerate(("top", "bottom")):
        t = copy.deepcopy(transforms)
        fixed, stale = zero_fixed_lists(rng, end, own_ids, spell)
        t[keys[n_sorted]]["order"] = dict(copy.deepcopy(order), fixed=fixed)
        out.append({"k": k + j, "response": resp, "transforms": t, "strand": strand, "population": population,
                    "kinds": [v.kind for v in variables], "malformed": False,
                    "zero_ids": {"dim": skind, "key": keys[n_sorted], "end": end,
                                 "spelled": type(spell).__name__ if 0 in own_ids else None,
                                 "stale": [repr(x) for x in stale]}})
    return out


def plain_dim_refs(dim_dict):
    """how the references of an order transform name the elements of a dimension that is NOT an array, from
    the raw response alone -> (names of the valid elements in payload order, reference -> name) or None.
    Categorical, text, numeric / binned: the element id itself (Python equality: 0.0 names element 0, "0"
    does not).  Datetime: the element's value, which a reference gives directly or by the element's id as a
    number or numeric string."""
    t = dim_dict.get("type") or {}
    if t.get("class") == "categorical":
        return [e["id"] for e in ou.element_defs(dim_dict) if not e.get("missing")], (lambda x: x)
    sub = (t.get("subtype") or {}).get("class")
    if t.get("class") != "enum" or sub not in ("text", "numeric", "datetime"):
        return None
    defs = ou.element_defs(dim_dict)
    if sub != "datetime":
        return [e["id"] for e in defs if not e.get("missing")], (lambda x: x)
    by_id = [(e["id"], e["value"]) for e in defs if not isinstance(e.get("value"), dict)]

    def name(x):
        i = int(x) if isinstance(x, str) and x.isnumeric() else x
        for id_, value in by_id:
            if not isinstance(i, (list, dict)) and id_ == i:
                return value
        return x

    return [e["value"] for e in defs if not e.get("missing")], name


def raw_fixed_idxs(dim_dict, order_dict, end):
    """payload idxs (among the valid elements) of the elements the caller's fixed.<end> list names, in
    listed order, references that name nothing dropped; None when not decidable from the raw response"""
    refs = plain_dim_refs(dim_dict)
    fixed = order_dict.get("fixed") if isinstance(order_dict, dict) else None
    if refs is None or not isinstance(fixed or {}, dict):
        return None
    names, name_of = refs
    l = (fixed or {}).get(end) or []
    if not isinstance(l, (list, tuple)) or any(isinstance(x, (list, dict, bool)) for x in l):
        return None
    out = []
    for x in l:
        nm = name_of(x)
        if nm in names:
            out.append(names.index(nm))
    return out


def is_datetime_dim(idim):
    dt = idim.dimension_type
    return getattr(dt, "name", str(dt).split(".")[-1]) == "DATETIME"


def sorts_before(a, b, desc):
    """value a is placed strictly before value b by the requested sort (NaN last)"""
    if is_nan(a):
        return False
    if is_nan(b):
        return True
    try:
        return a > b if desc else a < b
    except TypeError:
        return False


def zero_id_coverage(rep, case, v, exp, order):
    """evidence distribution of stream (e) for one sorted dimension with a resolvable key"""
    z = case["zero_ids"]
    if v.key != z.get("key"):
        return
    rep.dist("fixed-id-0:dimension:%s" % z["dim"])
    rep.dist("fixed-id-0:%s@%s" % (v.typ, v.place))
    rep.dist("fixed-id-0:fixed-lists-read-from:" + getattr(v, "fixed_from", "?"))
    if z.get("spelled") is None:
        rep.dist("fixed-id-0:no-element-0(falsy references are stale)")
        return
    rep.dist("fixed-id-0:end:%s" % z["end"])
    rep.dist("fixed-id-0:spelled-as:%s" % z["spelled"])
    refs = plain_dim_refs(v.raw_dim) if v.raw_dim is not None else None
    if refs is None or exp[0] != "sorted":
        return
    names, name_of = refs
    spelled = {"int": 0, "float": 0.0, "str": "0"}[z["spelled"]]
    if name_of(spelled) not in names:
        rep.dist("fixed-id-0:spelling-names-nothing-here(\"0\" on a non-datetime dimension)")
        return
    zi = names.index(name_of(spelled))
    shown = [i for i in order if i >= 0]
    fixed = set(getattr(v, "fixed_top_idxs", [])) | set(getattr(v, "fixed_bottom_idxs", []))
    if zi not in shown or zi not in fixed:
        rep.dist("fixed-id-0:element-0-not-displayed")
        return
    body = [i for i in shown if i not in fixed]
    vals = exp[1]
    if z["end"] == "top":
        away = any(sorts_before(vals[i], vals[zi], v.desc) for i in body)
    else:
        away = any(sorts_before(vals[zi], vals[i], v.desc) for i in body)
    rep.dist("fixed-id-0:element-0-fixed-at-%s:%s" % (
        z["end"], "its-value-would-NOT-sort-it-there" if away else "its-value-sorts-it-there-anyway"))


def model_order_dict(m):
    """the order dict the model is given: on a non-array dimension a float of integral value in a fixed list
    is read as the int it equals (ids are compared with ==; the model's identifiers are int | str | null)"""
    od = m.order_dict
    fixed = od.get("fixed") if isinstance(od, dict) else None
    if m.array or not isinstance(fixed, dict):
        return od

    def f(l):
        return [int(x) if isinstance(x, float) and x.is_integer() else x for x in l] \
            if isinstance(l, list) else l

    return dict(od, fixed={k: f(l) for k, l in fixed.items()})


def drop_nameless_fixed_refs(case):
    """-> (transforms without the fixed-list references that name no element of their non-array dimension,
    [(key, end, reference)])"""
    t2 = copy.deepcopy(case["transforms"])
    dropped = []
    try:
        dds = ou.displayed_dim_dicts(case["response"])
    except (KeyError, TypeError, AttributeError):
        return t2, dropped
    keys = ["rows_dimension"] if case["strand"] else ["rows_dimension", "columns_dimension"]
    dds = dds[-len(keys):]
    for key, dd in zip(keys, dds):
        od = (t2.get(key) or {}).get("order")
        refs = plain_dim_refs(dd)
        if refs is None or not isinstance(od, dict) or not isinstance(od.get("fixed"), dict):
            continue
        names, name_of = refs
        for end in ("top", "bottom"):
            l = od["fixed"].get(end)
            if not isinstance(l, list) or any(isinstance(x, (list, dict, bool)) for x in l):
                continue
            keep = [x for x in l if name_of(x) in names]
            dropped += [(key, end, x) for x in l if name_of(x) not in names]
            od["fixed"][end] = keep
    return t2, dropped


def nameless_refs_leg(case, rep):
    """(e) a reference in a fixed list that names no element of a categorical / text / numeric / datetime
    dimension - falsy-looking ones included - leaves no trace: the partition equals the one of the same
    transforms without it (relational)."""
    t2, dropped = drop_nameless_fixed_refs(case)
    if not dropped:
        return
    rep.dist("leg-e:cases-with-nameless-fixed-references")
    for _, _, x in dropped:
        rep.dist("leg-e:nameless-fixed-reference:%s" % (
            repr(x) if x in ("", "0") or (not isinstance(x, str) and x == 0) else type(x).__name__))
    a, b = observe_run(case, case["transforms"]), observe_run(case, t2)
    if a != b:
        diff = sorted(k for k in set(a) | set(b) if a.get(k) != b.get(k))
        rep.violation("oracle:nameless-reference-not-ignored", _replayable(case),
                      {"what": "nameless-reference-not-ignored", "nameless_references": dropped, "differs": diff,
                       "with": {k: a.get(k) for k in diff[:4]}, "without": {k: b.get(k) for k in diff[:4]},
                       "transforms_without": t2},
                      {"what": "nameless-reference-not-ignored", "group": "fixed"})


# ------------------------------------------------------------------------------------
# reading the implementation
# ------------------------------------------------------------------------------------


def without_order(transforms, key):
    t = copy.deepcopy(transforms)
    if isinstance(t.get(key), dict):
        t[key].pop("order", None)
    return t


def fnum(x):
    """a cell of a public measure -> float (nan for masked / None)"""
    if x is None:
        return float("nan")
    try:
        return float(x)
    except (TypeError, ValueError):
        return float("nan")


def public_matrix_blocks(S, name, info, ro, co):
    """four payload-order blocks of public 2-D measure `name` of the untransformed run, or why not"""
    if not hasattr(type(S), name):
        return ("absent", "no-such-public-measure")
    r = impl.get(S, name)
    if r[0] != "ok":
        return ("absent", "%s" % r[1])
    if r[1] is None:
        return ("absent", "None")
    a = np.asarray(np.ma.filled(r[1], np.nan) if np.ma.isMaskedArray(r[1]) else r[1], dtype=float)
    nr, nrs, nc, ncs = info
    if a.ndim != 2 or a.shape != (nr + nrs, nc + ncs):
        return ("absent", "shape %s" % (a.shape,))
    try:
        return ("ok", impl.blocks2d(a, ro, co, nr, nc, nrs, ncs))
    except ValueError as e:
        return ("absent", str(e))


def public_vector_blocks(S, name, n, nsub, ro):
    if not hasattr(type(S), name):
        return ("absent", "no-such-public-measure")
    r = impl.get(S, name)
    if r[0] != "ok":
        return ("absent", "%s" % r[1])
    if r[1] is None:
        return ("absent", "None")
    a = np.asarray(np.ma.filled(r[1], np.nan) if np.ma.isMaskedArray(r[1]) else r[1], dtype=float)
    if a.ndim != 1 or a.shape != (n + nsub,):
        return ("absent", "shape %s" % (a.shape,))
    try:
        return ("ok", impl.blocks1d(a, ro, n, nsub))
    except ValueError as e:
        return ("absent", str(e))


def labels_in_payload_order(S, axis, n, nsub, order):
    r = impl.get(S, axis + "_labels")
    if r[0] != "ok" or len(r[1]) != n + nsub:
        return None
    base, subs = [None] * n, [None] * nsub
    for pos, z in enumerate(order):
        if z >= 0:
            base[z] = str(r[1][pos])
        else:
            subs[nsub + z] = str(r[1][pos])
    if any(x is None for x in base + subs):
        return None
    return base, subs


class DimView(object):
    """what the check knows about one sorted dimension of a case"""


def g_ident_opt(present, x):
    if not present:
        return "None"
    return "(Some %s)" % ou.g_ident(x)


def g_str_opt(d, key):
    if key not in d:
        return "None"
    v = d[key]
    if not isinstance(v, str):
        raise ou.Unsupported("%s=%r" % (key, v))
    return "(Some %s)" % g_str(v)


def g_blocks(b):
    return "(mkBlocks %s %s %s %s)" % (core.g_mat(b[0][0]), core.g_mat(b[0][1]),
                                       core.g_mat(b[1][0]), core.g_mat(b[1][1]))


def g_vblocks(b):
    return "(%s, %s)" % (core.g_vec(b[0]), core.g_vec(b[1]))


def valid_sources(m):
    """positions of the valid subtotal dicts in the list the subtotals come from"""
    out = []
    ids = set(x for x in m.ids if not isinstance(x, (list, dict)))
    for k, d in enumerate(m.source_list() or []):
        if not isinstance(d, dict) or d.get("function") != "subtotal":
            continue
        if d.get("hide") is True or "anchor" not in d or "name" not in d:
            continue
        if not any(t in ids for t in ou.ins_terms(d)):
            continue
        out.append(k)
    return out


def difference_flags(m):
    """_Subtotal.is_difference of the subtotals of dimension model m, in payload order, from the RAW
    insertion dicts: a "negative" term that is a valid element id"""
    if m.array:
        return []
    ids = set(x for x in m.ids if not isinstance(x, (list, dict)))
    src = m.source_list() or []
    out = []
    for j in valid_sources(m):
        neg = (src[j].get("kwargs") or {}).get("negative") or []
        out.append(any((not isinstance(t, (list, dict))) and t in ids for t in neg))
    return out


def g_flags(flags):
    return g_list([g_bool(bool(f)) for f in flags])


def prepare(case, tables):
    strand = case["strand"]
    resp, tr, pop = case["response"], case["transforms"], case.get("population")
    r = impl.guarded(lambda: impl.partition(resp, tr, population=pop))
    if r[0] != "ok":
        return ("skip", "partition-raises:%s" % r[1])
    T = r[1]
    obs = ou.observe(T, strand)
    r = impl.guarded(lambda: impl.partition(resp, impl.strip_display(tr), population=pop))
    if r[0] != "ok":
        return ("skip", "stripped-partition-raises:%s" % r[1])
    S = r[1]
    sobs_r = impl.get(S, "row_order")
    sobs_c = ("ok", []) if strand else impl.get(S, "column_order")
    if sobs_r[0] != "ok" or sobs_c[0] != "ok":
        return ("skip", "stripped-order-raises")
    sro, sco = [int(z) for z in sobs_r[1]], [int(z) for z in sobs_c[1]]
    emp = ou.reported_empties(T, strand)
    if emp[0] != "ok":
        return ("skip", "empties-unavailable:%s" % (emp[1],))
    try:
        ms = ou.dim_models(T, resp, tr, strand)
        info = impl.dims_info(S)
        idims = list(T._dimensions)[-(1 if strand else 2):] if not strand else list(T._dimensions)[:1]
    except ou.Unsupported as e:
        return ("skip", "unsupported:%s" % e)
    except Exception as e:          # noqa
        return ("skip", "dims-unavailable:%s" % type(e).__name__)
    for m, e in zip(ms, emp[1]):
        m.empties = e
    if strand:
        info = (info[0], info[1], 0, 0)
    nr, nrs, nc, ncs = info
    keys = ["rows_dimension"] if strand else ["rows_dimension", "columns_dimension"]
    raw_facts = array_facts_by_key(resp, strand)
    try:
        raw_dims = ou.displayed_dim_dicts(resp)[-len(keys):]
    except (KeyError, TypeError, AttributeError):
        raw_dims = []
    views, terms = [], []
    # difference flags of the subtotals of each dimension (raw dicts); they must be as many as the
    # subtotals the implementation reports
    try:
        flags = [difference_flags(m) for m in ms]
    except (AttributeError, TypeError) as e:
        return ("skip", "unsupported:insertion-dicts %s" % type(e).__name__)
    if [len(f) for f in flags] != ([nrs] if strand else [nrs, ncs]):
        return ("skip", "unsupported:subtotal-count")
    from cr.cube.enums import DIMENSION_TYPE as DT
    for k, key in enumerate(keys):
        od_raw = (tr.get(key) or {}).get("order")
        if not isinstance(od_raw, dict) or od_raw.get("type") not in ALL_TYPES:
            continue
        v = DimView()
        v.k, v.key, v.axis = k, key, ("row" if k == 0 else "column")
        v.place = "strand" if strand else ("rows" if k == 0 else "columns")
        v.m = ms[k]
        v.od = od_raw
        v.typ = od_raw["type"]
        v.n, v.nsub = (nr, nrs) if k == 0 else (nc, ncs)
        v.desc = od_raw.get("direction", "descending") != "ascending"
        v.idim = idims[k]
        v.raw_dim = raw_dims[k] if len(raw_dims) == len(keys) else None
        v.is_value = v.typ in VALUE_TYPES[v.place]
        # the order of the same run without this order transform
        pr = impl.guarded(lambda: impl.partition(resp, without_order(tr, key), population=pop))
        if pr[0] != "ok":
            return ("skip", "payload-partition-raises:%s" % pr[1])
        v.payload = ou.observe(pr[1], strand)
        # --- the public values the transform names -----------------------------------------
        v.row = None              # table row of the keyword
        v.pub = ("absent", "not-a-measure-sort")
        v.kwstate = "n/a"
        env_term, marg_term, venv_term = '(fun _ => None)', '(fun _ => None)', '(fun _ => None)'
        if v.typ in ("opposing_element", "opposing_insertion") and not strand:
            kw = od_raw.get("measure")
            v.row = tables.row("matrix", kw)
            v.kwstate = ("missing" if "measure" not in od_raw else "sortable" if v.row
                         else "unsortable" if kw in tables.enum("measure_enum") else "unknown")
            if v.row:
                v.pub = public_matrix_blocks(S, v.row["public"], info, sro, sco)
                env_term = "(single_menv %s %s)" % (
                    g_str(v.row["prop"]), "(Some %s)" % g_blocks(v.pub[1]) if v.pub[0] == "ok" else "None")
        elif v.typ == "marginal" and v.place == "rows":
            kw = od_raw.get("marginal")
            v.row = tables.row("marginal", kw)
            v.kwstate = ("missing" if "marginal" not in od_raw else "sortable" if v.row else "unknown")
            if v.row:
                v.pub = public_vector_blocks(S, v.row["public"], nr, nrs, sro)
                marg_term = "(single_venv %s %s)" % (
                    g_str(v.row["prop"]), "(Some %s)" % g_vblocks(v.pub[1]) if v.pub[0] == "ok" else "None")
        elif v.typ == "univariate_measure" and strand:
            kw = od_raw.get("measure")
            v.row = tables.row("strand", kw)
            v.kwstate = ("missing" if "measure" not in od_raw else "sortable" if v.row else "unknown")
            if v.row:
                v.pub = public_vector_blocks(S, v.row["public"], nr, nrs, sro)
                venv_term = "(single_venv %s %s)" % (
                    g_str(v.row["prop"]), "(Some %s)" % g_vblocks(v.pub[1]) if v.pub[0] == "ok" else "None")
        elif v.typ == "label":
            lb = labels_in_payload_order(S, v.axis, v.n, v.nsub, sro if k == 0 else sco)
            v.pub = ("ok", lb) if lb is not None else ("absent", "labels")
        # --- opposing dimension ----------------------------------------------------------------
        v.opp_known = None
        # the key names an item of an ARRAY opposing dimension by a reference that certainly matches
        # nothing (decided from the raw response, NOT by the implementation's translation)
        v.ref_unmatched = False
        opp_facts = None if strand else raw_facts.get(keys[1 - k])
        if opp_facts is not None:
            if v.typ == "opposing_element" and "element_id" in od_raw:
                v.ref_unmatched = matches_nothing(od_raw["element_id"], opp_facts)
            elif v.typ == "opposing_insertion" and k == 0 and "insertion_id" in od_raw:
                v.ref_unmatched = matches_nothing(od_raw["insertion_id"], opp_facts)
            if v.ref_unmatched:
                v.ref_class = stale_ref_class(od_raw.get("element_id", od_raw.get("insertion_id")), opp_facts)
        el_present, el_val, in_present, in_val = False, None, False, None
        opp_term = "(mkOpp [] [] false)"
        if not strand:
            oi = idims[1 - k]
            om = ms[1 - k]
            v.opp_ids = list(oi.element_ids)
            v.opp_ins_ids = [int(x) for x in oi.insertion_ids]
            v.opp_array = oi.dimension_type in DT.ARRAY_TYPES
            opp_term = "(opposing_of %s %s)" % (om.term, g_bool(v.opp_array))
            if "element_id" in od_raw:
                el_present = True
                t = impl.guarded(lambda: oi.translate_element_id(od_raw["element_id"]))
                if t[0] != "ok":
                    return ("skip", "translate-raises:%s" % t[1])
                el_val = t[1]
            if "insertion_id" in od_raw:
                in_present = True
                in_val = od_raw["insertion_id"]
                if v.opp_array and k == 0:
                    t = impl.guarded(lambda: oi.translate_element_id(od_raw["insertion_id"]))
                    if t[0] != "ok":
                        return ("skip", "translate-raises:%s" % t[1])
                    in_val = t[1]
            v.el_present, v.el_val, v.in_present, v.in_val = el_present, el_val, in_present, in_val
        # --- model term ------------------------------------------------------------------------------
        try:
            oreq = "(mkOrd %s %s %s %s %s %s [])" % (
                g_str_opt(od_raw, "type"), g_str_opt(od_raw, "measure"), g_str_opt(od_raw, "marginal"),
                g_ident_opt(el_present, el_val), g_ident_opt(in_present, in_val),
                ou.g_sortspec(model_order_dict(v.m)))
        except (ou.Unsupported, AssertionError) as e:
            return ("skip", "unsupported:%s" % e)
        src = v.m.source_list() if not v.m.array else []
        sublabels = [src[j].get("name") or "" for j in valid_sources(v.m)] if not v.m.array else []
        try:
            labels_t = g_list([g_str(x) for x in v.m.labels])
            sublabels_t = g_list([g_str(x) for x in sublabels])
        except AssertionError as e:
            return ("skip", "unsupported:label %s" % e)
        emp_t = g_list([g_nat(i) for i in v.m.empties])
        if strand:
            term = "run_strand %s %s %s %s %s %s %s" % (
                v.m.term, oreq, g_flags(flags[0]), venv_term, labels_t, sublabels_t, emp_t)
        elif k == 0:
            term = "run_rows %s %s %s %s %s %s %s %s %s %s %s" % (
                v.m.term, oreq, opp_term, g_flags(flags[0]), g_flags(flags[1]), env_term, marg_term,
                labels_t, sublabels_t, emp_t, ou.psub_term(ms[1]))
        else:
            term = "run_columns %s %s %s %s %s %s %s %s %s %s" % (
                v.m.term, oreq, opp_term, g_flags(flags[0]), g_flags(flags[1]), env_term, labels_t,
                sublabels_t, emp_t, ou.psub_term(ms[0]))
        terms.append(term)
        # difference subtotals of the sorted dimension / of the opposing one (coverage only)
        v.diff_subs = [j for j, f in enumerate(flags[k]) if f]
        v.opp_diff_flags = [] if strand else list(flags[1 - k])
        views.append(v)
    return {"obs": obs, "views": views, "terms": terms, "info": info}


# ------------------------------------------------------------------------------------
# (b) oracle on the implementation alone
# ------------------------------------------------------------------------------------


def is_nan(x):
    return isinstance(x, float) and math.isnan(x)


def group_problems(seq, val, desc):
    """seq: signed indexes of one value-sorted group in display order; val: idx -> float | str"""
    out = []
    seen_nan = False
    prev = None
    prev_nan = None
    for z in seq:
        x = val(z)
        if is_nan(x):
            if prev_nan is not None and not prev_nan < z:
                out.append("NaN-valued %d after NaN-valued %d: not payload order" % (z, prev_nan))
            prev_nan = z
            seen_nan = True
            continue
        if seen_nan:
            out.append("valued %d (%r) after a NaN-valued vector" % (z, x))
        if prev is not None:
            a, b = val(prev), x
            if (desc and not a >= b) or (not desc and not a <= b):
                out.append("%d (%r) before %d (%r) is not %s" % (prev, a, z, b,
                                                                "descending" if desc else "ascending"))
        prev = z
    return out


def resolve_expectation(v, strand):
    """what the property text expects of dimension view v:
    ('payload', why) | ('sorted', base_vals, sub_vals) | ('skip', why)"""
    if not v.is_value:
        return ("payload", "type-means-payload-order-here")
    if v.typ == "label":
        if v.pub[0] != "ok":
            return ("skip", "labels-unavailable")
        return ("sorted", list(v.pub[1][0]), list(v.pub[1][1]))
    if v.kwstate == "missing":
        return ("skip", "keyword-field-absent")            # malformed request (KeyError)
    if v.kwstate == "unsortable":
        return ("skip", "keyword-not-sortable")            # NotImplementedError
    if v.kwstate == "unknown":
        return ("payload", "unknown-keyword")
    if v.typ in ("marginal", "univariate_measure"):
        if v.pub[0] != "ok":
            return ("payload", "measure-unavailable:" + str(v.pub[1])[:40])
        return ("sorted", [fnum(x) for x in v.pub[1][0]], [fnum(x) for x in v.pub[1][1]])
    # opposing element / insertion
    if v.pub[0] != "ok":
        return ("payload", "measure-unavailable:" + str(v.pub[1])[:40])
    b = v.pub[1]
    by_element = v.typ == "opposing_element" or (v.typ == "opposing_insertion" and v.opp_array and v.k == 0)
    if by_element:
        present, x = (v.el_present, v.el_val) if v.typ == "opposing_element" else (v.in_present, v.in_val)
        if not present:
            return ("skip", "id-field-absent")
        if v.ref_unmatched:
            # whatever the implementation made of it: it names no item, the key cannot be resolved
            return ("payload", "unmatched-array-reference")
        if x not in v.opp_ids:
            return ("payload", "unknown-element-id")
        j = v.opp_ids.index(x)
        if v.k == 0:
            return ("sorted", [fnum(r[j]) for r in b[0][0]], [fnum(r[j]) for r in b[1][0]])
        return ("sorted", [fnum(x) for x in b[0][0][j]], [fnum(x) for x in b[0][1][j]])
    if not v.in_present:
        return ("skip", "id-field-absent")
    x = v.in_val
    if isinstance(x, bool) or not isinstance(x, int) or x not in v.opp_ins_ids:
        return ("payload", "unknown-insertion-id")
    j = v.opp_ins_ids.index(x)
    if v.k == 0:
        return ("sorted", [fnum(r[j]) for r in b[0][1]], [fnum(r[j]) for r in b[1][1]])
    return ("sorted", [fnum(x) for x in b[1][0][j]], [fnum(x) for x in b[1][1][j]])


def oracle(v, obs, strand):
    """-> (expectation kind, [(what, detail, group)])"""
    exp = resolve_expectation(v, strand)
    got = obs[v.axis + "_order"]
    pay = v.payload[v.axis + "_order"]
    fails = []
    if exp[0] == "skip":
        return exp, fails
    if exp[0] == "payload":
        if got != pay or obs[v.axis + "_order_bogus"] != v.payload[v.axis + "_order_bogus"]:
            fails.append(("fallback", {"why": exp[1], "order": got, "payload_order": pay,
                                       "bogus": obs[v.axis + "_order_bogus"],
                                       "payload_bogus": v.payload[v.axis + "_order_bogus"]}, "fallback"))
        return exp, fails
    if got[0] != "ok":
        fails.append(("sorted-order-raises", {"order": got}, "raise"))
        return exp, fails
    order = got[1]
    base_vals, sub_vals = exp[1], exp[2]
    if len(base_vals) != v.n or len(sub_vals) != v.nsub:
        return ("skip", "value-vector-length"), fails
    # the order must name existing vectors (C05 owns range / duplicates in general; here an index
    # outside -n_subtotals .. n_elements-1 would make the value look-ups below meaningless)
    if any(not isinstance(z, int) or isinstance(z, bool) or not (-v.nsub <= z < v.n) for z in order):
        fails.append(("sorted-order-out-of-range",
                      {"order": order, "n_elements": v.n, "n_subtotals": v.nsub}, "range"))
        return exp, fails
    # same vectors as without the order transform
    if pay[0] == "ok" and sorted(order) != sorted(pay[1]):
        fails.append(("members", {"order": order, "payload_order": pay[1]}, "members"))
    negs = [z for z in order if z < 0]
    nn = len(negs)
    lead = order[:nn] if v.desc else order[len(order) - nn:]
    core_ = order[nn:] if v.desc else order[:len(order) - nn]
    if any(z >= 0 for z in lead):
        fails.append(("subtotal-group-placement",
                      {"order": order, "descending": v.desc}, "placement"))
        core_ = [z for z in order if z >= 0]
    # fixed brackets, in listed order, unknown ids dropped
    ids = list(v.idim.element_ids)
    spec = v.idim.order_spec
    shown = set(core_)

    def listed(fixed_ids):
        out = []
        for i in fixed_ids:
            if i in ids:
                out.append(ids.index(i))
        return out

    def first_mentions(seq, but=()):
        out = []
        for i in seq:
            if i not in out and i not in but:
                out.append(i)
        return out

    # an element named more than once counts where it is first mentioned: once inside a list, and an
    # element of the top list is ignored in the bottom list
    # WHICH elements the lists name: on categorical / text / numeric / datetime dimensions read from the
    # caller's transform and the raw response (leg (e): the implementation's own parsed lists are what is
    # being checked there); on array dimensions the translated ids are the implementation's (C19's)
    raw_top = raw_bot = None
    if v.raw_dim is not None and not (v.m.array and not is_datetime_dim(v.idim)):
        raw_top, raw_bot = raw_fixed_idxs(v.raw_dim, v.od, "top"), raw_fixed_idxs(v.raw_dim, v.od, "bottom")
        refs = plain_dim_refs(v.raw_dim)
        if refs is None or len(refs[0]) != v.n:
            raw_top = raw_bot = None
    v.fixed_from = "raw-transform" if raw_top is not None and raw_bot is not None else "implementation"
    if v.fixed_from == "raw-transform":
        top_all = first_mentions(raw_top)
        bot_all = first_mentions(raw_bot, top_all)
    else:
        top_all = first_mentions(listed(spec.top_fixed_ids))
        bot_all = first_mentions(listed(spec.bottom_fixed_ids), top_all)
    v.fixed_top_idxs, v.fixed_bottom_idxs = top_all, bot_all
    top = [i for i in top_all if i in shown]
    bot = [i for i in bot_all if i in shown]
    if core_[:len(top)] != top or (bot and core_[len(core_) - len(bot):] != bot):
        fails.append(("fixed-brackets", {"order": order, "fixed_top_idxs": top, "fixed_bottom_idxs": bot},
                      "fixed"))
        middle = [z for z in core_ if z not in top_all and z not in bot_all]
    else:
        middle = core_[len(top):len(core_) - len(bot)]
        if any(z in top_all or z in bot_all for z in middle):
            fails.append(("fixed-brackets", {"order": order, "fixed_in_body": middle}, "fixed"))
    p = group_problems(middle, lambda z: base_vals[z], v.desc)
    if p:
        fails.append(("body-not-monotone", {"order": order, "problems": p[:4],
                                            "values": [base_vals[z] for z in middle], "body": middle}, "body"))
    p = group_problems(negs, lambda z: sub_vals[v.nsub + z], v.desc)
    if p:
        fails.append(("subtotals-not-monotone", {"order": order, "problems": p[:4], "subtotals": negs,
                                                 "values": [sub_vals[v.nsub + z] for z in negs]}, "subtotals"))
    return exp, fails


# ------------------------------------------------------------------------------------
# (a) model vs implementation
# ------------------------------------------------------------------------------------


def decode_sorted(toks):
    d = ou.ODec(toks)
    out = {}
    c = d.Z()
    out["signed"] = ("ok", d.zs()) if c == 0 else ("exc", ERR.get(c, str(c)))
    c = d.Z()
    out["found"] = ("exc", ERR.get(c, str(c))) if c != 0 else ("ok", d.Z() == 1)
    out["segments"] = d.list(d.zs)
    c = d.Z()
    out["bogus"] = ("ok", d.entries()) if c == 0 else ("exc", ERR.get(c, str(c)))
    assert d.done(), "trailing tokens"
    return out


def canon_ties(order, val):
    """sort every maximal run of neighbours with exactly equal (non-NaN) value"""
    out, run = [], []

    def flush():
        out.extend(sorted(run))
        del run[:]

    for z in order:
        x = val(z)
        if run and not is_nan(x) and val(run[-1]) == x:
            run.append(z)
        else:
            flush()
            run.append(z)
    flush()
    return out


def compare_model(v, dec, obs, exp):
    fails = []
    got = obs[v.axis + "_order"]
    mod = dec["signed"]
    same = got == mod
    tie_tolerated = False
    if (not same and got[0] == "ok" and mod[0] == "ok" and exp[0] == "sorted"
            and v.row is not None and v.row["reading"] != "same"):
        base_vals, sub_vals = exp[1], exp[2]

        def val(z):
            return base_vals[z] if z >= 0 else sub_vals[v.nsub + z]

        try:
            if canon_ties(got[1], val) == canon_ties(mod[1], val):
                same, tie_tolerated = True, True
        except (IndexError, TypeError):
            pass
    if not same:
        grp = "order"
        if got[0] == "ok" and mod[0] == "ok" and [z for z in got[1] if z >= 0] == [z for z in mod[1] if z >= 0]:
            grp = "subtotals"
        fails.append((v.axis + "_order", {"model": mod, "impl": got, "key_found": dec["found"]}, grp))
    elif not tie_tolerated and obs[v.axis + "_order_bogus"] != dec["bogus"]:
        fails.append((v.axis + "_order_bogus", {"model": dec["bogus"],
                                                "impl": obs[v.axis + "_order_bogus"]}, "bogus"))
    return fails, tie_tolerated


# ------------------------------------------------------------------------------------


def _replayable(case):
    return {k: case.get(k) for k in ("response", "transforms", "strand", "population", "k", "kinds",
                                     "repeats", "population_difference", "stale_refs", "zero_ids",
                                     "uneven_bases") if k in case or k != "uneven_bases"}


def observe_run(case, transforms):
    r = impl.guarded(lambda: impl.partition(copy.deepcopy(case["response"]), copy.deepcopy(transforms),
                                            population=case.get("population")))
    if r[0] != "ok":
        return {"partition": ("exc", r[1])}
    return ou.observe(r[1], case["strand"])


def unmatched_refs_leg(case, rep, tables, prepared):
    """(c) references to items of an ARRAY dimension that certainly match nothing (raw response):
    in list / key slots (fixed top / bottom, explicit ids, element transforms) they must leave no trace -
    the partition equals the one of the transforms without them; as the KEY of a sort by opposing element
    they make the key unresolvable - that is part of oracle (b) (`v.ref_unmatched`), and is checked here
    for the cases the model correspondence cannot take (numeric array by a categorical variable)."""
    facts = array_facts_by_key(case["response"], case["strand"])
    if not any(facts.values()):
        return
    rc = _replayable(case)
    t2, dropped = drop_unmatched_refs(case["transforms"], facts)
    seen = None
    if dropped:
        rep.dist("leg-c:cases-with-unmatched-array-references-in-lists")
        for key, slot, x in dropped:
            rep.dist("leg-c:%s:%s:%s" % (facts[key]["kind"], slot, stale_ref_class(x, facts[key])))
        seen = observe_run(case, case["transforms"])
        b = observe_run(case, t2)
        if seen != b:
            diff = sorted(k for k in set(seen) | set(b) if seen.get(k) != b.get(k))
            rep.violation("oracle:unmatched-reference-not-ignored", rc,
                          {"what": "unmatched-reference-not-ignored", "unmatched_references": dropped,
                           "differs": diff, "with": {k: seen.get(k) for k in diff[:4]},
                           "without": {k: b.get(k) for k in diff[:4]}, "transforms_without": t2},
                          {"what": "unmatched-reference-not-ignored", "group": "fixed"})
    if prepared or case["strand"]:
        return
    keys = ["rows_dimension", "columns_dimension"]
    for n, key in enumerate(keys):
        o = (case["transforms"].get(key) or {}).get("order")
        opp = facts.get(keys[1 - n])
        if not isinstance(o, dict) or opp is None or o.get("measure") not in tables.keywords("matrix"):
            continue
        if o.get("type") == "opposing_element" and "element_id" in o:
            x = o["element_id"]
        elif o.get("type") == "opposing_insertion" and n == 0 and "insertion_id" in o:
            x = o["insertion_id"]
        else:
            continue
        if not matches_nothing(x, opp):
            continue
        rep.dist("leg-c:%s:sort-key(relational only):%s" % (opp["kind"], stale_ref_class(x, opp)))
        seen = seen or observe_run(case, case["transforms"])
        pay = observe_run(case, without_order(case["transforms"], key))
        axis = "row" if n == 0 else "column"
        got = (seen.get(axis + "_order", seen.get("partition")), seen.get(axis + "_order_bogus"))
        want = (pay.get(axis + "_order", pay.get("partition")), pay.get(axis + "_order_bogus"))
        if got != want:
            rep.violation("oracle:fallback", rc,
                          {"what": "fallback", "why": "unmatched-array-reference", "axis": axis,
                           "order_transform": o, "order": got[0], "payload_order": want[0],
                           "bogus": got[1], "payload_bogus": want[1]},
                          {"what": "fallback", "group": "fallback"})


def run_cases(rep, cases, tables):
    preps, terms = [], []
    for case in cases:
        p = prepare(case, tables)
        preps.append(p)
        if isinstance(p, dict):
            terms.extend(p["terms"])
    results, coq_s = core.run_coq_cases(PID, IMPORTS, terms) if terms else ([], 0.0)
    pos = 0
    for case, p in zip(cases, preps):
        rc = _replayable(case)
        if case.get("stale_refs"):
            rep.dist("stream:stale-array-references")
            rep.dist("stream:stale-array-references:" + case["stale_refs"])
        unmatched_refs_leg(case, rep, tables, isinstance(p, dict))
        if case.get("zero_ids"):
            rep.dist("stream:fixed-id-0-and-falsy-references")
            nameless_refs_leg(case, rep)
        if not isinstance(p, dict):
            rep.count_case(rc, bool(case.get("stale_refs")))
            rep.dist("skipped:" + p[1].split(":")[0])
            if p[1].startswith("partition-raises"):
                rep.violation("impl-exception", rc, {"why": p[1]}, {"what": "partition-raises"})
            continue
        rep.count_case(rc, bool(p["views"]))
        if case.get("repeats"):
            rep.dist("stream:repeated-fixed-ids")
        if case.get("population_difference"):
            rep.dist("stream:population-difference-subtotals")
        rep.dist("strand" if case["strand"] else "slice")
        rep.dist("kinds:" + "x".join(str(x) for x in case.get("kinds") or []))
        ub = case.get("uneven_bases")
        if ub:
            rep.dist("stream:mr-strand-uneven-item-bases")
        rep.sample({"transforms": case["transforms"], "strand": case["strand"],
                    "population": case.get("population")})
        for v in p["views"]:
            dec = decode_sorted(results[pos])
            pos += 1
            exp, ofails = oracle(v, p["obs"], case["strand"])
            mfails, tol = compare_model(v, dec, p["obs"], exp)
            if tol:
                rep.cov["skipped_near_threshold"] += 0
                rep.dist("surrogate-tie-permutation-tolerated")
            # --- coverage
            rep.dist("place:" + v.place)
            rep.dist("type:%s@%s" % (v.typ, v.place))
            rep.dist("direction:" + ("descending" if v.desc else "ascending"))
            kw = v.od.get("measure") if v.typ != "marginal" else v.od.get("marginal")
            if v.row is not None and exp[0] == "sorted":
                rep.dist("keyword:%s:%s" % ("strand" if case["strand"] else
                                            "marginal" if v.typ == "marginal" else "matrix", kw))
            rep.dist("expect:" + exp[0] + (":" + exp[1].split(":")[0] if exp[0] != "sorted" else ""))
            if v.ref_unmatched:
                rep.dist("leg-c:sort-key:%s@%s:%s" % (v.typ, v.place, v.ref_class))
            if dec["found"][0] == "exc":
                rep.dist("model:escaping-" + dec["found"][1])
            if exp[0] == "sorted":
                bv, svs = exp[1], exp[2]
                nb = [x for x in bv if not is_nan(x)]
                if len(set(nb)) < len(nb):
                    rep.dist("ties-among-base-values")
                if any(is_nan(x) for x in bv):
                    rep.dist("nan-base-values")
                if any(is_nan(x) for x in svs):
                    rep.dist("nan-subtotal-values")
                if svs:
                    rep.dist("with-subtotals")
                if v.diff_subs:
                    rep.dist("with-difference-subtotals")
                if kw == "population" and v.typ != "marginal":
                    if v.diff_subs and len(svs) > 1:
                        rep.dist("population:difference-in-sorted-subtotal-group")
                    if v.diff_subs and any(not is_nan(x) for x in svs):
                        rep.dist("population:difference-beside-valued-subtotal")
                    if (v.typ == "opposing_insertion" and not v.opp_array
                            and v.in_val in v.opp_ins_ids
                            and v.opp_ins_ids.index(v.in_val) < len(v.opp_diff_flags)
                            and v.opp_diff_flags[v.opp_ins_ids.index(v.in_val)]):
                        rep.dist("population:key-at-opposing-difference")
                if v.od.get("fixed"):
                    rep.dist("with-fixed-lists")
                    rep.dist("fixed-lists-read-from:" + getattr(v, "fixed_from", "?"))
                    fx = [str(x) for x in (v.od["fixed"].get("top") or []) + (v.od["fixed"].get("bottom") or [])]
                    if len(set(fx)) != len(fx):
                        rep.dist("with-repeated-fixed-ids")
                if v.m.empties and v.m.prune:
                    rep.dist("with-pruned-elements")
                if (case["transforms"].get(v.key) or {}).get("elements"):
                    rep.dist("with-hidden-elements")
                if v.m.array:
                    rep.dist("sorted-dimension-is-array")
                if ub:
                    # leg (f): keyword x direction met with a resolvable key on rows of very different bases
                    rep.dist("uneven-bases:%s:%s" % (ub["keyword"], ub["direction"]))
                    for f in ("base_ratio_ge_5", "stddev_and_stderr_discordant", "count_and_percent_discordant"):
                        if ub.get(f):
                            rep.dist("uneven-bases:rows:" + f)
                    vals = [x for x in bv if not is_nan(x)]
                    if len(set(vals)) > 1:
                        rep.dist("uneven-bases:named-measure-has-distinct-values")
            if case.get("zero_ids") and exp[0] in ("sorted", "payload"):
                got_o = p["obs"][v.axis + "_order"]
                zero_id_coverage(rep, case, v, exp, got_o[1] if got_o[0] == "ok" else [])
            for what, detail, grp in ofails:
                rep.violation("oracle:" + what, rc,
                              dict(detail, what=what, axis=v.axis, order_transform=v.od,
                                   expectation=exp[0]),
                              {"what": what, "group": grp})
            for what, detail, grp in mfails:
                rep.violation("impl-vs-model", rc, dict(detail, what=what, axis=v.axis, order_transform=v.od),
                              {"what": what, "group": grp})
    return coq_s, len(terms)


# ------------------------------------------------------------------------------------
# (d) ONE transforms dict object for a sequence of cubes over DIFFERENT array variables
# ------------------------------------------------------------------------------------
#
# "Fixed-top and fixed-bottom elements bracket them in their listed order" and "sorted by opposing
# element" refer to the ids the CALLER wrote; a dashboard applies one transforms dict to the same question
# of two waves (other subvariables, hence other aliases; same element ids).  The sort-by-value order of cube
# k of such a sequence must be that of cube k alone.  Sequences, sharing levels (whole dict / dimension
# dicts / 'order' level), read orders (interleaved, all built first, reversed, CubeSet) and the comparison
# with the fresh-copy run are those of C07's leg (d); the transforms are this property's.

SEQ_COUNT_KEYWORDS = {
    "matrix": ("col_percent", "row_percent", "table_percent", "count_weighted", "count_unweighted",
               "col_base_unweighted", "row_base_weighted", "table_std_err", "col_index", "z_score",
               "col_percent_moe", "row_std_dev", "col_share_sum"),
    "strand": ("count_weighted", "count_unweighted", "percent", "percent_moe", "percent_stddev",
               "base_unweighted", "base_weighted", "share_sum"),
    "marginal": ("unweighted_base", "weighted_base", "table_proportion"),
}


def seq_keyword(rng, tables, which, numeric):
    have = tables.keywords(which)
    if numeric and "mean" in have and rng.random() < 0.8:
        return "mean"
    if rng.random() < 0.05:
        return rng.choice(have + ["foo"])
    return rng.choice([k for k in SEQ_COUNT_KEYWORDS[which] if k in have] or have)


def seq_sort_transforms(rng, cubes, idx, tables, stats):
    """a sort-by-value order for the rows (idx 0) / columns (idx 1) of the whole sequence, written with the
    first cube in mind: type, keyword, opposing key and fixed lists by element id / subvariable id of ITS
    array items (else any spelling of any cube)"""
    pool, by_id = seq.seq_ref_pools(cubes, idx)
    opp_pool, opp_by_id = seq.seq_ref_pools(cubes, 1 - idx)
    first = cubes[0]
    numeric = first["layout"].startswith("numarr")
    if first["strand"] or not opp_pool:
        typ = rng.choice(["univariate_measure"] * 3 + ["label"])
    elif idx == 0:
        typ = rng.choice(["opposing_element"] * 4 + ["label", "label", "marginal", "marginal", "opposing_insertion"])
    else:
        typ = rng.choice(["opposing_element"] * 4 + ["label", "label", "opposing_insertion"])
    o = {"type": typ}
    which = "strand" if typ == "univariate_measure" else "matrix"
    if typ in ("univariate_measure", "opposing_element", "opposing_insertion"):
        # mostly keywords whose value differs from element to element (a base is often the same for all)
        varying = [kw for kw in ZERO_VARYING_KEYWORDS[which] if kw in tables.keywords(which)]
        o["measure"] = rng.choice(varying) if varying and not numeric and rng.random() < 0.65 \
            else seq_keyword(rng, tables, which, numeric)
    elif typ == "marginal":
        o["marginal"] = seq_keyword(rng, tables, "marginal", False)
    if typ == "opposing_element":
        o["element_id"] = seq.seq_refs(rng, opp_pool, opp_by_id, 1, stats, "sort-key", p_id=0.6)[0]
    if typ == "opposing_insertion":
        o["insertion_id"] = rng.choice([1, 1, 2, 3, 99])
    d = rng.random()
    if d < 0.9:
        o["direction"] = "ascending" if d < 0.45 else "descending"
    if rng.random() < 0.88 and pool:
        n_top, n_bottom = rng.choice([(1, 0), (0, 1), (1, 1), (2, 0), (2, 1), (1, 2)])
        fixed = {}
        if n_top or rng.random() < 0.2:
            fixed["top"] = seq.seq_refs(rng, pool, by_id, n_top, stats, "fixed-top")
        if n_bottom or rng.random() < 0.2:
            fixed["bottom"] = seq.seq_refs(rng, pool, by_id, n_bottom, stats, "fixed-bottom")
        if rng.random() < 0.12:
            both = (fixed.get("top") or []) + (fixed.get("bottom") or [])
            fixed.setdefault("bottom", []).append(rng.choice(both))      # named twice: first mention counts
            stats.append("fixed:repeat")
        o["fixed"] = fixed
    stats.append("sort:" + typ)
    t = {"order": o}
    seq.seq_decorate(rng, t, pool, by_id, idx, stats, p_ins=0.3)
    return t


def gen_seq_case(rng, k, tables):
    mode = rng.choice(["numeric", "token", "token"])
    cubes, stats = seq.seq_cubes(rng, rng.choice([2, 2, 2, 3]), mode)
    which = rng.random()
    dims = [0] if which < 0.5 else [1] if which < 0.8 else [0, 1]
    transforms = {}
    for idx in dims:
        transforms[seq.SEQ_AXIS_KEYS[idx]] = seq_sort_transforms(rng, cubes, idx, tables, stats)
    for idx in (0, 1):
        if idx not in dims and rng.random() < 0.4:       # the other axis: hides / prune / insertions only
            pool, by_id = seq.seq_ref_pools(cubes, idx)
            t = {}
            seq.seq_decorate(rng, t, pool, by_id, idx, stats, p_ins=0.6)
            if t:
                transforms[seq.SEQ_AXIS_KEYS[idx]] = t
    case = {"leg": seq.SEQ_LEG, "k": k, "cubes": cubes, "transforms": transforms, "svid_mode": mode,
            "stats": stats, "population": rng.choice([None, None, 1000])}
    case.update(seq.seq_sharing(rng, dims))
    return case


def seq_fixed_lists(td):
    od = td.get("order")
    fx = od.get("fixed") if isinstance(od, dict) else None
    return [fx.get("top"), fx.get("bottom")] if isinstance(fx, dict) else []


def _seq_replayable(case):
    return dict(seq._seq_replayable(case), population=case.get("population"))


def seq_sorted_somewhere(case, ref):
    """number of (cube, slice, axis) of the fresh-copy run whose sorted axis is NOT in payload order: the
    sort (or its fixed lists) moves something there"""
    n = 0
    for ci, spec in enumerate(case["cubes"]):
        for og in ref[ci]:
            for idx, axis in enumerate(["row"] if spec["strand"] else ["row", "column"]):
                o = og.get(axis + "_order")
                if (seq.SEQ_AXIS_KEYS[idx] in case["transforms"] and "order" in case["transforms"][seq.SEQ_AXIS_KEYS[idx]]
                        and o and o[0] == "ok" and [z for z in o[1] if z >= 0] != sorted(z for z in o[1] if z >= 0)):
                    n += 1
    return n


def run_seq_cases(rep, cases):
    for case in cases:
        case = core.jsonable(case)              # what a replay file gives back
        got = seq.seq_run(case, shared=True, population=case.get("population"))
        ref = seq.seq_run(case, shared=False, population=case.get("population"))
        found = seq.seq_rel_diffs(case, got, ref)
        two = seq.seq_refs_in_two_cubes(case, seq_fixed_lists)
        moved = seq_sorted_somewhere(case, ref)
        rc = _seq_replayable(case)
        rep.count_case(rc, two or moved > 0)
        seq.seq_dist(rep, case, two, "fixed-id-reference-names-an-item-in-2+-cubes-with-other-aliases")
        rep.dist(seq.SEQ_LEG + ":sorted-axes-not-in-payload-order(fresh-copy run)", moved)
        if two:
            rep.sample({"leg": seq.SEQ_LEG, "transforms": case["transforms"], "share": case["share"],
                        "cubes": [c["layout"] for c in case["cubes"]], "read": case["read"]}, limit=4)
        for what, detail in found:
            rep.violation("shared-transforms-sort-order", rc, dict(detail, what=what),
                          {"what": what.split(".")[-1], "leg": seq.SEQ_LEG, "group": "shared-transforms",
                           "kinds": "+".join(c["layout"] for c in case["cubes"])})


# ------------------------------------------------------------------------------------
# small scope: SortByValueCollator itself on synthetic value vectors (incl. +-inf, ties, NaN)
# ------------------------------------------------------------------------------------

SCOPE_ALPHABET = [float("nan"), float("-inf"), 0.0, 1.0, float("inf")]
SCOPE_FIXED = [{}, {"top": [3]}, {"top": [4, 999, 1], "bottom": [2]}, {"bottom": [1, 3]},
               {"top": [2, 2], "bottom": [2]}, {"top": [4, 1, 4], "bottom": [3, 1, 999, 3]}]
SCOPE_HIDDEN = [(), (2,), (1, 4)]
SCOPE_SUBVALS = [(0.5, 0.5), (float("nan"), 1.0), (2.0, float("nan")), (float("nan"), float("nan")),
                 (float("inf"), -1.0)]


def scope_response():
    rv = gen.make_cat(random.Random(11), "r", n_valid=4, n_missing=1, ids=[1, 2, 3, 4, 9],
                      missing_anywhere=False)
    cv = gen.make_cat(random.Random(12), "c", n_valid=2, n_missing=0, ids=[1, 2])
    rv.view_insertions = [{"function": "subtotal", "name": "A", "anchor": "top", "args": [1, 2], "id": 1},
                          {"function": "subtotal", "name": "B", "anchor": 3, "args": [3], "id": 2}]
    sv = gen.Survey([rv, cv], 12, random.Random(13))
    return gen.cube_response(sv, ["r", "c"])


def run_scope(rep, rng, limit):
    """every value pattern over {NaN, -inf, 0, 1, inf}^4 x direction x fixed configuration (incl. two
    with ids repeated inside a list / named at both ends; subtotal
    values, hidden sets and pruned-empty sets cycled): collator vs Model/Collator.v sbv_display"""
    import itertools

    from cr.cube.collator import SortByValueCollator
    from cr.cube.enums import ORDER_FORMAT

    resp = scope_response()
    combos = list(itertools.product(itertools.product(range(5), repeat=4), [True, False],
                                    range(len(SCOPE_FIXED))))
    rng.shuffle(combos)
    combos = combos[:limit]
    dims = {}
    jobs, terms = [], []
    for n, (pat, desc, fx) in enumerate(combos):
        hid = SCOPE_HIDDEN[n % len(SCOPE_HIDDEN)]
        prune = (n // 3) % 2 == 0
        empties = [(n // 7) % 4] if (n // 5) % 3 == 0 else []
        svals = SCOPE_SUBVALS[n % len(SCOPE_SUBVALS)]
        key = (desc, fx, hid, prune)
        if key not in dims:
            t = {"order": {"type": "label", "direction": "descending" if desc else "ascending",
                           "fixed": SCOPE_FIXED[fx]}}
            if hid:
                t["elements"] = {str(i): {"hide": True} for i in hid}
            if prune:
                t["prune"] = True
            tr = {"rows_dimension": t}
            part = impl.partition(resp, tr)
            dims[key] = (part._dimensions[0], ou.cat_dim_model(ou.displayed_dim_dicts(resp)[0], t), tr)
        idim, m, tr = dims[key]
        vals = [SCOPE_ALPHABET[i] for i in pat]
        got = impl.guarded(lambda: [int(z) for z in SortByValueCollator.display_order(
            idim, np.array(vals), np.array(svals), tuple(empties), ORDER_FORMAT.SIGNED_INDEXES)])
        terms.append("r_zs (sbv_display %s %s %s %s %s)" % (
            m.term, ou.g_sortspec(m.order_dict), g_list([ou.g_sval(x) for x in vals]),
            g_list([ou.g_sval(x) for x in svals]), g_list([g_nat(i) for i in empties])))
        jobs.append((vals, svals, empties, tr, got))
    results, coq_s = core.run_coq_cases(PID, IMPORTS, terms, tag="scope") if terms else ([], 0.0)
    for (vals, svals, empties, tr, got), toks in zip(jobs, results):
        case = {"scope": True, "values": vals, "subtotal_values": list(svals), "empties": empties,
                "transforms": tr}
        rep.count_case(case, True)
        rep.dist("stream:collator-small-scope")
        want = ("ok", ou.ODec(toks).zs())
        if got[:2] != want and not (got[0] == "ok" and got[1] == want[1]):
            rep.violation("impl-vs-model", case, {"what": "SortByValueCollator.display_order",
                                                  "model": want, "impl": got},
                          {"what": "collator-scope", "cls": "other"})
    return coq_s, len(terms)



def load_tables(rep):
    src = source_tables()
    mod = model_tables()
    diffs = compare_tables(rep, src, mod)
    for d in diffs:
        print("NOTE keyword-table-differs " + d[:300])
    if diffs:
        rep.violation("keyword-table-differs", {"theorem_or_file": "Model/SortKeys.v tables"},
                      {"differences": diffs}, {"what": "tables"}, failing_input=False)
    rep.cov["keyword_tables"] = {
        "source_readable": {k: v is not None for k, v in src.items()},
        "matrix_keywords": len(src["matrix"] or {}), "strand_keywords": len(src["strand"] or {}),
        "marginal_keywords": len(src["marginal"] or {}), "differences": diffs}
    return Tables(src, mod)


def run(tier, seed):
    rep = core.Report(PID, tier, seed)
    ob = core.obligations_gate(rep, PID)
    tables = load_tables(rep)
    n_cases = 900 if tier == "quick" else 8000
    rng = random.Random(seed)
    cycle = (["matrix:" + k for k in tables.keywords("matrix")]
             + ["strand:" + k for k in tables.keywords("strand")]
             + ["marginal:" + k for k in tables.keywords("marginal")])
    kw_cycle = [c.split(":", 1)[1] for c in cycle]
    cases = [gen_case(rng, k, tables, kw_cycle) for k in range(n_cases)]
    cases += [gen_repeat_case(rng, n_cases + k, tables, kw_cycle) for k in range(60 if tier == "quick" else 600)]
    # own generator state: the streams above stay what they were for a given seed
    rng_pd = random.Random("C08-population-difference-%s" % seed)
    cases += [gen_population_difference_case(rng_pd, len(cases) + k, tables)
              for k in range(80 if tier == "quick" else 800)]
    rng_sr = random.Random("C08-stale-array-references-%s" % seed)
    n_sr = 160 if tier == "quick" else 1600
    # the sort key alone first (this property's own slot), then with fixed lists, then with hide keys too
    cases += [gen_stale_ref_case(rng_sr, len(cases) + k, tables, kw_cycle,
                                 ("key",) if 5 * k < 2 * n_sr else ("key", "fixed") if 10 * k < 7 * n_sr
                                 else ("key", "fixed", "hide"))
              for k in range(n_sr)]
    # leg (e): the element with id 0 in the fixed lists (pairs: fixed on top / at the bottom of one response)
    rng_z = random.Random("C08-fixed-id-0-%s" % seed)
    n_zero = 110 if tier == "quick" else 1100
    for n in range(n_zero):
        cases += gen_zero_id_cases(rng_z, len(cases), tables, n)
    # leg (f): MR strands with heavily uneven per-item bases x every strand keyword x both directions
    rng_ub = random.Random("C08-uneven-item-bases-%s" % seed)
    n_uneven = 12 if tier == "quick" else 150
    for n in range(n_uneven):
        cases += gen_uneven_bases_cases(rng_ub, len(cases), tables)
    coq_s, n_terms = run_cases(rep, cases, tables)
    s2, n2 = run_scope(rep, rng, 600 if tier == "quick" else 7500)
    coq_s, n_terms = coq_s + s2, n_terms + n2
    n_seq = 200 if tier == "quick" else 3000
    rng_seq = random.Random("C08/%s/%s" % (seq.SEQ_LEG, seed))     # own stream: the cases above stay as they were
    run_seq_cases(rep, [gen_seq_case(rng_seq, k, tables) for k in range(n_seq)])
    # every sortable keyword must have been exercised with a resolvable key
    missing = [c for c in cycle if not rep.cov["distribution"].get("keyword:" + c)]
    rep.cov["keywords_not_exercised"] = missing
    # ... and, leg (f), on a strand whose rows have very different bases, in both directions
    rep.cov["uneven_bases_keywords_not_exercised"] = [
        "%s:%s" % (kw, d) for kw in tables.keywords("strand") for d in ("descending", "ascending")
        if not rep.cov["distribution"].get("uneven-bases:%s:%s" % (kw, d))]
    # the two situations of the former finding must have been met (with a resolvable key)
    rep.cov["population_difference_classes_not_exercised"] = [
        c for c in ("population:difference-beside-valued-subtotal", "population:key-at-opposing-difference")
        if not rep.cov["distribution"].get(c)]
    rep.cov["rule"] = (
        "cases from random.Random(seed): CAT / CAT_DATE / MR / CA slices and CAT / CAT_DATE / MR strands "
        "(harness.props.common_cases: 0..40 respondents, dyadic weights incl. 0, view / transform "
        "insertions incl. differences, valid-count and mean/sum/stddev measures on 45%), hides and prune "
        "on every dimension, a sort-by-value order on rows, columns or both: type from the dispatch of the "
        "place (7% any type), measure / marginal keyword cycling through EVERY key of the three tables read "
        "from the source (plus unknown, not-sortable, absent and other-table keywords), opposing element "
        "ids valid (int / alias / subvariable-id / string spellings on arrays), stale, missing-category, "
        "null or absent, opposing insertion ids valid / unknown / string / absent, direction ascending / "
        "descending / absent / junk, fixed top/bottom lists incl. stale ids, population "
        "0..250000 and filter fractions in [0,1] on a quarter of the population cases; + a 60-case stream (600 "
        "thorough) with ids repeated inside a fixed list and named at both ends, compared like the others (the "
        "first mention counts); + an 80-case stream (800 thorough, own generator state) of sorts by the "
        "`population` keyword on a dimension with a difference subtotal in its subtotal group or keyed on an "
        "opposing difference insertion (population_difference_classes_not_exercised must be []); "
        "+ a 160-case stream (1600 thorough, own generator state) of leg (c): MR / CA / numeric-array dimensions "
        "(numeric array alone or by CAT on ~12%) whose sort key (first 40%), fixed top / bottom lists (next 30%) "
        "and hide keys (rest) name references that match nothing - negative ints / numeric strings in -n..-1 and "
        "below -n, numbers >= n, non-numeric strings (distribution keys leg-c:*); leg (c) runs on every case; "
        "+ leg (e) (fixed-id-0:* / leg-e:* keys, own generator state): N_ZERO pairs of cases (one response; the "
        "element with id 0 of the sorted dimension fixed on top in one, at the bottom in the other, spelled 0 4 : "
        "0.0 1 : '0' 1, alone or beside another fixed element 40%, another element at the other end 35%), sorted "
        "dimension cycling through categorical with a valid category 0 (0-based scale / 0-1 flag / 0 among other "
        "codes; 3 : cat-date 1), text 2, numeric 1, binned 1, datetime 1, categorical without category 0 2; strand "
        "30% else rows 55% / columns 45% against CAT / CAT_DATE / MR / text / binned, 2..6 valid elements, 10..60 "
        "respondents, sort type cycling through every type of the place, count keywords (65% counts / percentages / "
        "z-score / index; 'mean' with numeric measures 30%), direction ascending 45% / descending 40% / absent, subtotals on 60% of the categorical "
        "dimensions, hides 25% (element 0 itself 10% of them), prune 20%, falsy-looking references that name "
        "nothing ('' / '0', and 0 / 0.0 where there is no element 0) in 45% (100% without element 0) of the lists; "
        "+ leg (f) (uneven-bases:* keys, own generator state): N_UNEVEN MR strands of 2..6 items, 30 / 60 / 120 / 250 "
        "respondents (weighted 60%, numeric measures 35%), per item an own missing rate from 0 / 3 / 30 / 60 / 85 / "
        "93 / 97% (one item 0-3%, one 85-97%) and share of 'selected' 5..90%, redrawn (<= 25 times) until the bases "
        "differ by a factor >= 5 and some pair of rows is ordered differently by p(1-p) and by p(1-p)/N; each "
        "sorted by every strand keyword of the source table x descending (absent 33%) / ascending, hides / prune "
        "on 20%, fixed lists on 15% of the cases; "
        "+ small scope on SortByValueCollator.display_order itself: "
        "value patterns {NaN,-inf,0,1,+inf}^4 x direction x 6 fixed configurations, two of them with repeated "
        "ids (subtotal values, hidden "
        "and pruned-empty sets cycled; 600 sampled in quick, all 7500 in thorough). non-trivial = "
        "a sorted dimension present; distinct by content hash; + leg (d) (shared-transforms:* keys, own random "
        "stream): N_SEQ sequences of 2 (75%) or 3 cubes over different array variables of 2..5 items (layouts and "
        "surveys of C09's leg (c); third cube = the first again 30%; view insertions on 40% of the categorical "
        "dimensions), ONE transforms object for the sequence (whole dict 60%, dimension dicts 20%, 'order' level "
        "20%): a sort-by-value order on rows 50% / columns 30% / both 20%, type written for the first cube "
        "(opposing_element 4 : label 2 : marginal 2 : opposing_insertion 1; strands univariate_measure 3 : label 1), "
        "count-based keywords ('mean' on numeric arrays, 5% any / unknown), opposing key 60% element id / "
        "subvariable id of the first cube's opposing array else any spelling of any cube, direction ascending 45% / "
        "descending 45% / absent, fixed lists on 88% (1..3 references over top / bottom, 75% element id / "
        "subvariable id of the first cube's array, int or string, 6% name nothing, 12% a repeat), hide 25%, prune "
        "25%, transforms insertions 30%; read interleaved 55%, all built first 18%, reversed 9%, as the cubes of "
        "a CubeSet 18%; every sequence is run a second time with a pristine deep copy per cube (reference); "
        "non-trivial there = a fixed-list id reference names an item in two cubes with other aliases, or a sorted "
        "axis of the reference run is not in payload order").replace("N_SEQ", str(n_seq)).replace(
            "N_ZERO", str(n_zero)).replace("N_UNEVEN", str(n_uneven))
    rep.cov["coq_eval_seconds"] = round(coq_s, 2)
    rep.cov["model_terms_evaluated"] = n_terms
    rep.assumptions = [
        "population * population_fraction >= 0 and not NaN (generated: populations 0..250000, filter fractions "
        "in [0, 1]); a NaN fraction (unfiltered weighted N = 0) with non-zero counts is an inconsistent response "
        "and is not generated",
        "for array dimensions the shimmed element ids / fixed ids and the translation of the opposing "
        "element id are the implementation's (identifier translation is C19's); insertion ids are read "
        "from the implementation's Dimension objects (C07's); EXCEPT references that certainly match nothing on an "
        "array dimension (leg (c)): decided from the raw response, conservatively (anything equal to an alias / "
        "subvariable id / element id in some spelling, bools, floats, null, non-ASCII strings are left to the "
        "implementation's translation)",
        "NUM_ARRAY x CAT slices are outside the model correspondence (skipped:dims-unavailable); leg (c) checks "
        "them relationally",
        "empty-vector indexes are the implementation's own pruning masks (C09's)",
        "order transforms whose keyword field is absent (KeyError) or names a member of MEASURE that has "
        "no sort entry (NotImplementedError) are outside the property text: only the correspondence with "
        "the model (same exception class) is checked",
        "which elements a fixed list names is decided from the caller's transform and the raw response on "
        "categorical / text / numeric / datetime dimensions (leg (e)); on array dimensions from the implementation's "
        "translated ids",
        "ids that are bools or non-integral floats are not generated; an integral float in a fixed list of a "
        "non-array dimension is given to the model as the int it equals",
    ]
    return rep.finish("proof", ob, trusted_base=core.TRUSTED_BASE_COMMON + [
        "Model/Collator.v (SortByValueCollator) and Model/SortKeys.v (order helpers) are hand-written; the "
        "keyword tables are compared with the source text on every run, everything else is tied by this "
        "correspondence run only",
        "the mapping keyword -> PUBLIC measure of the partition (kw_public / kw_reading in Model/SortKeys.v) "
        "is the check's reading of the property text"])


def replay_scope(rep, case):
    from cr.cube.collator import SortByValueCollator
    from cr.cube.enums import ORDER_FORMAT

    resp = scope_response()
    tr = case["transforms"]
    t = tr["rows_dimension"]
    part = impl.partition(resp, tr)
    m = ou.cat_dim_model(ou.displayed_dim_dicts(resp)[0], t)
    f = lambda xs: [float(x) for x in xs]          # noqa  ("nan" / "inf" strings of the replay file)
    vals, svals, empties = f(case["values"]), f(case["subtotal_values"]), case["empties"]
    got = impl.guarded(lambda: [int(z) for z in SortByValueCollator.display_order(
        part._dimensions[0], np.array(vals), np.array(svals), tuple(empties), ORDER_FORMAT.SIGNED_INDEXES)])
    term = "r_zs (sbv_display %s %s %s %s %s)" % (
        m.term, ou.g_sortspec(m.order_dict), g_list([ou.g_sval(x) for x in vals]),
        g_list([ou.g_sval(x) for x in svals]), g_list([g_nat(i) for i in empties]))
    toks, _ = core.run_coq_cases(PID, IMPORTS, [term], tag="scope")
    want = ou.ODec(toks[0]).zs()
    if not (got[0] == "ok" and got[1] == want):
        rep.violation("impl-vs-model", case, {"what": "SortByValueCollator.display_order",
                                              "model": want, "impl": got}, {"what": "collator-scope"})



def replay(path):
    d = json.load(open(path))
    if "violation" not in d:
        print("REPLAY: %s records a crash of the check itself, not a case; run ./check C08" % path)
        return 1
    case = d["violation"]["case"]
    rep = core.Report(PID, "quick", d.get("seed", 0))
    rep.findings = []
    tables = load_tables(rep)
    table_violations, rep.violations = rep.violations, []
    if case.get("scope"):
        replay_scope(rep, case)
    elif case.get("leg") == seq.SEQ_LEG:
        run_seq_cases(rep, [case])
    elif "response" in case:
        case.setdefault("malformed", False)
        run_cases(rep, [case], tables)
    rep.violations.extend(table_violations)
    for v in rep.violations:
        print("REPLAY still fails:", json.dumps(core.jsonable(v["detail"]))[:700])
    if not rep.violations:
        print("REPLAY: no longer fails")
    return 1 if rep.violations else 0
