# -*- coding: utf-8 -*-
"""Shared helpers of the checks C01 (cell values), C02 (bases/margins), C16 (column index).

A case is a respondent-level survey (harness.gen.Survey), an order of the response's
dimensions (natural, or permuted so that every row x column class pair of
matrix/cubemeasure.py is reached) and optional numeric measures.  For a case we produce

  * the Crunch JSON response (for the implementation),
  * Gallina literals: dimensions, payload, survey (for Model/CubeCounts.v and Spec/Survey.v),
  * the respondent-level oracle: weighted / unweighted counts of respondents who satisfy
    "belongs to element" / "eligible for element" predicates, computed straight from the
    answers (never from a tensor).
"""
import copy
import itertools
from fractions import Fraction

import numpy as np

from harness import core, gen, impl
from harness.core import g_bool, g_list, g_nat, g_opt, g_q, g_vec, g_xq, g_Z

IMPORTS = """From Coq Require Import QArith ZArith List Bool.
From CC Require Import Base.XQ Base.Render Base.ListX Spec.Survey Model.CubeCounts Model.CubeCountsRender.
Import ListNotations."""

SEL, OTH, MIS = gen.SEL, gen.OTH, gen.MIS
ROLE_DK = {"cat": "DCat", "mr_items": "DMrSubvar", "mr_sel": "DMrCat",
           "ca_items": "DCaSubvar", "ca_cats": "DCat", "numarr": "DNumArr"}


# ------------------------------------------------------------------------------------
# variables <-> JSON (replays carry the whole survey)
# ------------------------------------------------------------------------------------

def var_to_json(v):
    d = {"kind": v.kind, "alias": v.alias, "name": v.name}
    for key in ("cats", "items", "elements", "mr_cats"):
        if hasattr(v, key):
            d[key] = copy.deepcopy(getattr(v, key))
    if getattr(v, "view_insertions", None) is not None:
        d["view_insertions"] = copy.deepcopy(v.view_insertions)
    if getattr(v, "typedef_order", None) is not None:
        d["typedef_order"] = copy.deepcopy(v.typedef_order)
    return d


def var_from_json(d):
    d = copy.deepcopy(d)
    for c in d.get("cats", []):
        if c.get("numeric_value") is not None:
            c["numeric_value"] = _fr(c["numeric_value"])
    v = gen.Var(**d)
    return v


def _fr(x):
    if isinstance(x, str):
        return Fraction(x)
    return Fraction(x)


def survey_to_json(sv):
    return {"vars": [core.jsonable(var_to_json(v)) for v in sv.vars],
            "weighted": sv.weighted, "numvars": list(sv.numvars),
            "resp": [{"ans": r["ans"], "w": str(r["w"]),
                      "num": {k: (None if x is None else str(x)) for k, x in r["num"].items()}}
                     for r in sv.resp]}


class _Survey(object):
    def var(self, alias):
        for v in self.vars:
            if v.alias == alias:
                return v
        raise KeyError(alias)


def survey_from_json(d):
    sv = _Survey()
    sv.vars = [var_from_json(x) for x in d["vars"]]
    sv.weighted = d["weighted"]
    sv.numvars = list(d.get("numvars", []))
    sv.resp = [{"ans": r["ans"], "w": Fraction(r["w"]),
                "num": {k: (None if x is None else Fraction(x)) for k, x in r.get("num", {}).items()}}
               for r in d["resp"]]
    return sv


# ------------------------------------------------------------------------------------
# axes of the response
# ------------------------------------------------------------------------------------

def var_axes(v):
    """[(role, missing_flags)] for the 1 or 2 dimensions a variable contributes."""
    if v.kind in ("cat", "cat_date"):
        return [("cat", [bool(c["missing"]) for c in v.cats])]
    if v.kind == "mr":
        return [("mr_items", [bool(it.get("missing", False)) for it in v.items]),
                ("mr_sel", [False, False, True])]
    if v.kind == "ca":
        return [("ca_items", [bool(it.get("missing", False)) for it in v.items]),
                ("ca_cats", [bool(c["missing"]) for c in v.cats])]
    return [("cat", [bool(e["missing"]) for e in v.elements])]


def natural_axes(sv, aliases):
    out = []
    for a in aliases:
        for role, ms in var_axes(sv.var(a)):
            ax = {"alias": a, "role": role, "missing": ms}
            td = axis_typedef(sv.var(a), role)
            if td is not None:
                ax["typedef"] = td          # only variables that carry a typedef order (C01)
            out.append(ax)
    return out


# ------------------------------------------------------------------------------------
# "order" list in the TYPE DEFINITION of a categorical / enum dimension (type.order)
#
# v.cats / v.elements stay in PAYLOAD order (answers, tabulation, oracle and the missing flags of
# the axes all index it).  v.typedef_order = {"catalogue": [{"p": payload position} | {"extra":
# element dict not mentioned in the order list}, ...], "order": [code, ...]} says how the type
# definition LISTS the elements (any order, plus elements the order list leaves out, which are
# then no elements of the dimension at all) and what its "order" list is (the ids in payload
# order, plus codes the catalogue does not know, which have no payload slot).  Variables without
# the attribute are emitted as before.
# ------------------------------------------------------------------------------------

def payload_elements(v):
    """the element dicts of the one-axis part of a variable that can carry a typedef order"""
    if v.kind in ("cat", "cat_date", "ca"):
        return v.cats
    if v.kind in ("datetime", "text", "binned"):
        return v.elements
    return None


def axis_typedef(v, role):
    """{"defs": [(id, missing)] in catalogue order, "order": [codes]} of an axis, or None"""
    td = getattr(v, "typedef_order", None)
    if td is None or role not in ("cat", "ca_cats"):
        return None
    els = payload_elements(v)
    defs = []
    for entry in td["catalogue"]:
        e = els[entry["p"]] if "p" in entry else entry["extra"]
        defs.append([e["id"], bool(e.get("missing"))])
    return {"defs": defs, "order": list(td["order"])}


def gen_typedef_order(rng, v, p_shuffle=0.85, p_extra=0.3, p_unknown=0.25):
    """a random typedef order for a cat / cat_date / ca / enum variable (does not touch v)"""
    els = payload_elements(v)
    n = len(els)
    perm = list(range(n))
    if n >= 2 and rng.random() < p_shuffle:
        while perm == list(range(n)):
            rng.shuffle(perm)
    catalogue = [{"p": p} for p in perm]
    ids = [e["id"] for e in els]
    fresh = [i for i in range(40, 60) if i not in ids]
    rng.shuffle(fresh)
    if rng.random() < p_extra:
        for j in range(rng.randint(1, 2)):
            i = fresh.pop()
            missing = rng.random() < 0.4
            if v.kind in ("cat", "cat_date", "ca"):
                e = {"id": i, "missing": missing, "name": "%s_x%d" % (v.alias, i), "numeric_value": None}
                if v.kind == "cat_date" and not missing:
                    e["date"] = "2030-%02d" % (1 + j)
            elif missing:
                e = {"id": i, "missing": True, "value": {"?": -2}}
            else:
                val = {"datetime": "2030-%02d" % (1 + j), "text": "%s_x%d" % (v.alias, i),
                       "binned": [900 + 10 * j, 910 + 10 * j]}[v.kind]
                e = {"id": i, "missing": False, "value": val}
            catalogue.insert(rng.randint(0, len(catalogue)), {"extra": e})
    order = list(ids)
    if rng.random() < p_unknown:
        for _ in range(rng.randint(1, 2)):
            order.insert(rng.randint(0, len(order)), fresh.pop())
    return {"catalogue": catalogue, "order": order}


def apply_typedef_orders(resp, sv):
    """re-list the categories / elements of every dimension dict whose variable carries a typedef
    order and add the "order" key (in place; a no-op for any other response)"""
    for d in resp["result"]["dimensions"]:
        alias = (d.get("references") or {}).get("alias")
        try:
            v = sv.var(alias)
        except KeyError:
            continue
        td = getattr(v, "typedef_order", None)
        if td is None:
            continue
        t = d["type"]
        if t["class"] == "categorical":
            if v.kind == "mr":
                continue
            key = "categories"
            extra_json = gen.cat_json
        elif t["class"] == "enum" and t.get("subtype", {}).get("class") != "variable":
            key = "elements"
            extra_json = copy.deepcopy
        else:
            continue                      # the items dimension of an array
        listed = t[key]
        t[key] = [listed[e["p"]] if "p" in e else extra_json(e["extra"]) for e in td["catalogue"]]
        t["order"] = list(td["order"])
    return resp


def axis_expected_ids(sv, ax):
    """element ids (as Dimension.valid_elements.element_ids reports them) of the valid elements
    of an apparent axis, in payload order, from the survey's variables"""
    v = sv.var(ax["alias"])
    role = ax["role"]
    valid = valid_positions(ax["missing"])
    if role in ("mr_items", "ca_items"):
        return [v.items[k]["alias"] for k in valid]
    els = payload_elements(v)
    if v.kind == "datetime":
        return [els[k]["value"] for k in valid]
    return [els[k]["id"] for k in valid]


def axis_blocks(sv, aliases):
    """Blocks of natural axis numbers that must stay adjacent (MR items+selection)."""
    blocks, n = [], 0
    for a in aliases:
        v = sv.var(a)
        if v.kind == "mr":
            blocks.append([n, n + 1])
            n += 2
        elif v.kind == "ca":
            blocks.append([n])
            blocks.append([n + 1])
            n += 2
        else:
            blocks.append([n])
            n += 1
    return blocks


def permute_flat(data, shape, perm):
    if not shape:
        return list(data)
    arr = np.empty(len(data), dtype=object)
    for k, x in enumerate(data):
        arr[k] = x
    arr = arr.reshape(shape).transpose(perm)
    return list(arr.flatten())


def build_response(sv, aliases, perm=None, measures=("count",), numvar=None, valid_counts=False,
                   unavailable=None):
    """Crunch response for the cube over `aliases`, dimensions in the order `perm` of the
    natural axes (None = natural)."""
    resp = gen.cube_response(sv, aliases, measures=measures, numvar=numvar,
                             valid_counts=valid_counts, unavailable=unavailable)
    shape, _ = gen.tabulate(sv, aliases, weight=False)
    if perm is not None and list(perm) != list(range(len(shape))):
        res = resp["result"]
        res["dimensions"] = [res["dimensions"][p] for p in perm]
        res["counts"] = permute_flat(res["counts"], shape, perm)
        for m in res["measures"].values():
            m["data"] = permute_flat(m["data"], shape, perm)
    if any(getattr(v, "typedef_order", None) is not None for v in sv.vars):
        apply_typedef_orders(resp, sv)
    return resp


def response_axes(sv, aliases, perm):
    nat = natural_axes(sv, aliases)
    perm = list(range(len(nat))) if perm is None else perm
    return [nat[p] for p in perm]


# ------------------------------------------------------------------------------------
# Gallina literals
# ------------------------------------------------------------------------------------

def g_typedef(td):
    return "%s (Some %s)" % (g_list(["(mkEdef %s %s)" % (g_Z(i), g_bool(m)) for i, m in td["defs"]]),
                             g_list([g_Z(c) for c in td["order"]]))


def g_dim(a):
    if a.get("typedef") is not None:
        # the dimension as Model/TypedefOrder.v derives it from the type definition (C01 only:
        # needs Model.TypedefOrder among the imports)
        return "(dim_of_typedef %s %s)" % (ROLE_DK[a["role"]], g_typedef(a["typedef"]))
    return "(mkDim %s %s)" % (ROLE_DK[a["role"]], g_list([g_bool(m) for m in a["missing"]]))


def g_dims(axes):
    return g_list([g_dim(a) for a in axes])


def _cell(x):
    if isinstance(x, dict):
        return None
    return x


def g_data(data):
    return g_vec([_cell(x) for x in data])


def g_payload(resp):
    res = resp["result"]
    meas = res.get("measures", {})
    cnt = meas.get("count", {}).get("data")
    vcu = meas.get("valid_count_unweighted", {}).get("data")
    vcw = meas.get("valid_count_weighted", {}).get("data")
    return "(mkPayload %s %s %s %s)" % (
        g_data(res["counts"]), g_opt(cnt, g_data), g_opt(vcu, g_data), g_opt(vcw, g_data))


def g_answer(v, a):
    if v.kind == "mr":
        return "(AMr %s)" % g_list([("Sel", "Oth", "Mis")[s] for s in a])
    if v.kind == "ca":
        return "(AArr %s)" % g_list([g_nat(c) for c in a])
    return "(ACat %s)" % g_nat(a)


def g_survey(sv, aliases, weight=True):
    rs = []
    for r in sv.resp:
        w = r["w"] if weight else Fraction(1)
        rs.append("(mkResp %s %s)" % (
            g_list([g_answer(sv.var(a), r["ans"][a]) for a in aliases]), g_q(w)))
    return g_list(rs)


def g_cubevars(sv, aliases):
    out = []
    for n, a in enumerate(aliases):
        k = sv.var(a).kind
        out.append("(%s, %s)" % (g_nat(n), {"mr": "KMr", "ca": "KArr"}.get(k, "KCat")))
    return g_list(out)


# ------------------------------------------------------------------------------------
# decoding of Model/CubeCountsRender.v
# ------------------------------------------------------------------------------------

def dec_masks(d):
    return d.list(lambda: d.list(d.bool))


def dec_slice_out(d):
    o = {}
    o["counts"] = d.mat()
    o["row_bases"] = d.mat()
    o["column_bases"] = d.mat()
    o["table_bases"] = d.mat()
    o["rows_base"] = d.opt(d.vec)
    o["columns_base"] = d.opt(d.vec)
    o["rows_table_base"] = d.opt(d.vec)
    o["columns_table_base"] = d.opt(d.vec)
    o["table_base"] = d.opt(d.xq)
    o["range"] = [d.xq(), d.xq()]
    o["row_mask"] = dec_masks(d)
    o["column_mask"] = dec_masks(d)
    o["table_mask"] = dec_masks(d)
    return o


def dec_cube_slices(toks):
    d = core.Dec(toks)

    def one():
        w = d.opt(lambda: dec_slice_out(d))
        u = d.opt(lambda: dec_slice_out(d))
        ci = d.opt(d.mat)
        return {"w": w, "u": u, "column_index": ci}

    out = d.list(one)
    assert d.done()
    return out


def dec_strand_out(d):
    return {"counts": d.vec(), "bases": d.vec(), "table_base": d.opt(d.xq),
            "range": [d.xq(), d.xq()], "mask": d.list(d.bool)}


def dec_cube_strands(toks):
    d = core.Dec(toks)

    def one():
        return {"w": d.opt(lambda: dec_strand_out(d)), "u": d.opt(lambda: dec_strand_out(d))}

    out = d.list(one)
    assert d.done()
    return out


def dec_passthrough(toks):
    d = core.Dec(toks)
    out = d.list(lambda: d.opt(d.mat))
    assert d.done()
    return out


# ------------------------------------------------------------------------------------
# respondent-level oracle
# ------------------------------------------------------------------------------------

def valid_positions(flags):
    return [k for k, m in enumerate(flags) if not m]


class Oracle(object):
    """Weighted / unweighted numbers of respondents per cell, straight from the answers.

    A cell assigns to every apparent axis of the response a pair (mode, element) with
    mode 'in' (belongs to the element), 'ok' (eligible for it) or 'any' (no condition)."""

    def __init__(self, sv, axes):
        self.sv = sv
        self.axes = axes
        self.apparent = [a for a in axes if a["role"] != "mr_sel"]

    def _holds(self, r, assign):
        # assign: list (axis, mode, element) for the apparent axes
        per_var = {}
        for ax, mode, e in assign:
            per_var.setdefault(ax["alias"], {})[ax["role"]] = (mode, e, ax)
        for alias, roles in per_var.items():
            a = r["ans"][alias]
            if "cat" in roles:
                mode, e, ax = roles["cat"]
                valid = valid_positions(ax["missing"])
                if mode == "in" and a != valid[e]:
                    return False
                if mode == "ok" and a not in valid:
                    return False
            elif "mr_items" in roles:
                mode, e, ax = roles["mr_items"]
                item = valid_positions(ax["missing"])[e]
                if mode == "in" and a[item] != SEL:
                    return False
                if mode == "ok" and a[item] == MIS:
                    return False
            else:
                m1, e1, ax1 = roles["ca_items"]
                m2, e2, ax2 = roles["ca_cats"]
                item = valid_positions(ax1["missing"])[e1]
                valid = valid_positions(ax2["missing"])
                if m2 == "in" and a[item] != valid[e2]:
                    return False
                if m2 == "ok" and a[item] not in valid:
                    return False
        return True

    def w(self, assign, weighted=True):
        tot = Fraction(0)
        for r in self.sv.resp:
            if self._holds(r, assign):
                tot += r["w"] if weighted else 1
        return tot

    def n_valid(self, ax):
        return len(valid_positions(ax["missing"]))

    def slice_cells(self, k, mode_r, mode_c, weighted):
        """matrix over (row element, column element) of partition k."""
        ap = self.apparent
        rows, cols = ap[-2], ap[-1]
        table = ap[:-2]
        out = []
        for i in range(self.n_valid(rows)):
            row = []
            for j in range(self.n_valid(cols)):
                assign = [(t, "in", k) for t in table] + [(rows, mode_r, i), (cols, mode_c, j)]
                row.append(self.w(assign, weighted))
            out.append(row)
        return out

    def strand_cells(self, k, mode, weighted, ca0=False):
        ap = self.apparent
        rows = ap[-1]
        table = ap[:-1] if ca0 else []
        return [self.w([(t, "in", k) for t in table] + [(rows, mode, i)], weighted)
                for i in range(self.n_valid(rows))]


def fdiv(a, b):
    """numpy division on exact values: returns Fraction | 'nan' | 'inf' | '-inf'."""
    if isinstance(a, str) or isinstance(b, str):
        if a == "nan" or b == "nan":
            return "nan"
        if isinstance(a, str) and isinstance(b, str):
            return "nan"
        if isinstance(b, str):
            return Fraction(0)
        neg = (a == "-inf") != (b < 0)
        return "-inf" if neg else "inf"
    if b == 0:
        if a == 0:
            return "nan"
        return "inf" if a > 0 else "-inf"
    return a / b


def fmul(a, b):
    if isinstance(a, str) or isinstance(b, str):
        if a == "nan" or b == "nan":
            return "nan"
        sa = -1 if (a == "-inf" or (not isinstance(a, str) and a < 0)) else (0 if a == 0 else 1)
        sb = -1 if (b == "-inf" or (not isinstance(b, str) and b < 0)) else (0 if b == 0 else 1)
        if sa * sb == 0:
            return "nan"
        return "inf" if sa * sb > 0 else "-inf"
    return a * b


# ------------------------------------------------------------------------------------
# case generation
# ------------------------------------------------------------------------------------

def make_var(rng, alias, kind, small=False):
    if kind == "cat":
        return gen.make_cat(rng, alias, n_valid=rng.randint(1, 3 if small else 4),
                            n_missing=rng.choice([0, 1, 1, 2]), missing_anywhere=True,
                            numeric=None)
    if kind == "cat_date":
        return gen.make_cat(rng, alias, n_valid=rng.randint(1, 3), n_missing=rng.choice([0, 1]),
                            date=True, numeric=None)
    if kind == "mr":
        return gen.make_mr(rng, alias, n_items=rng.randint(1, 3))
    if kind == "ca":
        return gen.make_ca(rng, alias, n_items=rng.randint(1, 3), n_valid=rng.randint(1, 3),
                           n_missing=rng.choice([0, 1, 1]))
    return gen.make_enum(rng, alias, kind, n_valid=rng.randint(1, 3))


ONE = ["cat", "cat", "cat_date", "mr", "mr", "mr", "datetime", "text", "binned"]


def pick_kinds(rng, shape_class):
    """kinds of the variables of a case.  shape_class: '1d', '2d', '3d', 'ca', 'ca3'."""
    if shape_class == "1d":
        return [rng.choice(ONE)]
    if shape_class == "2d":
        return [rng.choice(ONE), rng.choice(ONE)]
    if shape_class == "3d":
        return [rng.choice(ONE), rng.choice(ONE), rng.choice(ONE)]
    if shape_class == "ca":
        return ["ca"]
    other = rng.choice(["cat", "mr", "mr", "cat"])
    return ["ca", other] if rng.random() < 0.5 else [other, "ca"]


def gen_case(rng, k, shape_class=None, numeric=None, permute=None, heavy_missing=False,
             n_resp=None, missing_table_first=False):
    if shape_class is None:
        shape_class = rng.choice(["1d", "2d", "2d", "2d", "2d", "3d", "3d", "ca", "ca3", "ca3"])
    kinds = pick_kinds(rng, shape_class)
    vs = [make_var(rng, "v%d" % n, kd, small=(len(kinds) > 2)) for n, kd in enumerate(kinds)]
    if missing_table_first and vs[0].kind in ("cat", "cat_date") and len(vs[0].cats) >= 2:
        # a missing category BEFORE a valid one on the table dimension
        vs[0].cats[0]["missing"] = True
        vs[0].cats[-1]["missing"] = False
        for c in vs[0].cats:
            if c["missing"]:
                c["numeric_value"] = None
                c.pop("date", None)
    ca0 = bool(shape_class == "ca" and rng.random() < 0.4)
    numeric = ((rng.random() < 0.35) if numeric is None else numeric) and not ca0
    n_resp = (rng.choice([0, 1, 3, 8, 15, 25, 30]) if n_resp is None else n_resp)
    sv = gen.Survey(vs, n_resp, rng, numvars=["x"] if numeric else [])
    if heavy_missing:
        # many missing column answers, unevenly over rows
        colv = vs[-1]
        rowv = vs[-2] if len(vs) >= 2 else None
        for r in sv.resp:
            skew = 0.7
            if rowv is not None and rowv.kind in ("cat", "cat_date"):
                skew = 0.15 + 0.8 * (r["ans"][rowv.alias] % 2)
            if rng.random() < skew:
                if colv.kind in ("cat", "cat_date"):
                    miss = [n for n, c in enumerate(colv.cats) if c["missing"]]
                    if miss:
                        r["ans"][colv.alias] = rng.choice(miss)
                elif colv.kind == "mr":
                    r["ans"][colv.alias] = [MIS if rng.random() < 0.7 else s
                                            for s in r["ans"][colv.alias]]
    aliases = [v.alias for v in vs]
    blocks = axis_blocks(sv, aliases)
    perm = None
    permute = ((rng.random() < 0.5) if permute is None else permute) and not ca0
    if permute and any(v.kind == "ca" for v in vs):
        order = list(range(len(blocks)))
        rng.shuffle(order)
        perm = [x for b in order for x in blocks[b]]
    measures = ["count"]
    valid_counts = False
    unavailable = set()
    if numeric:
        measures += rng.sample(["mean", "sum", "stddev", "median"], rng.randint(1, 3))
        valid_counts = rng.choice([False, False, True, "unweighted_only"])
        shape, _ = gen.tabulate(sv, aliases, weight=False)
        size = int(np.prod(shape)) if shape else 1
        unavailable = set(rng.sample(range(size), min(size, rng.choice([0, 0, 1, 2]))))
    case = {"k": k, "shape_class": shape_class, "survey": survey_to_json(sv), "aliases": aliases,
            "perm": perm, "measures": measures, "numvar": "x" if numeric else None,
            "valid_counts": valid_counts, "unavailable": sorted(unavailable),
            "mask_size": rng.choice([0, 1, 2, 3, 5, 10]),
            "ca_as_0th": ca0}
    finish_case(case)
    return case


def finish_case(case):
    """(re)build the derived parts of a case from its JSON description."""
    sv = survey_from_json(case["survey"])
    case["_sv"] = sv
    perm = case.get("perm")
    case["response"] = build_response(sv, case["aliases"], perm, measures=tuple(case["measures"]),
                                      numvar=case["numvar"], valid_counts=case["valid_counts"],
                                      unavailable=set(case["unavailable"]))
    case["_axes"] = response_axes(sv, case["aliases"], perm)
    return case


def replayable(case):
    return {k: v for k, v in case.items() if not k.startswith("_")}


def near_flat_variant(case, rng, k):
    """The same survey with NEARLY FLAT weights: every respondent weighs 1 + j * 2^-20, j in -8..8 (a raking
    weight on an already balanced sample), so that every weighted cell is within 1e-5 (relative) of - but not
    equal to - its unweighted count.  (After seeded changes C01-11 / C02-11, found independently by two
    agents: `np.allclose(weighted, unweighted)` instead of list equality decides that such a cube is
    'not weighted'.)  The weights are dyadic, so the exact model and the float64 code agree to the last bit
    and a deviation of 1e-6 is far outside the comparator's 1e-9."""
    import copy
    c = {kk: copy.deepcopy(v) for kk, v in case.items() if not kk.startswith("_")}
    c["k"] = k
    c["near_flat_weights"] = True
    c["survey"]["weighted"] = True
    for r in c["survey"]["resp"]:
        j = rng.choice([-8, -5, -3, -1, 1, 2, 3, 5, 8])
        r["w"] = str(Fraction(2 ** 20 + j, 2 ** 20))
    finish_case(c)
    return c


# ------------------------------------------------------------------------------------
# running the implementation
# ------------------------------------------------------------------------------------

SLICE_COUNT_NAMES = ["counts", "unweighted_counts"]
SLICE_BASE_NAMES = ["row_weighted_bases", "row_unweighted_bases", "column_weighted_bases",
                    "column_unweighted_bases", "table_weighted_bases", "table_unweighted_bases",
                    "rows_margin", "rows_base", "columns_margin", "columns_base",
                    "table_margin", "table_base", "table_base_range", "table_margin_range"]
STRAND_COUNT_NAMES = ["counts", "unweighted_counts"]
STRAND_BASE_NAMES = ["weighted_bases", "unweighted_bases", "table_base_range",
                     "table_margin_range", "rows_margin", "rows_base"]
NUMERIC_NAMES = {"mean": "means", "sum": "sums", "stddev": "stddev", "median": "medians"}


def run_impl(case, names_slice, names_strand, masks=False):
    """-> dict(kind='slice'|'strand'|'nub', parts=[{name: ('ok', value)|('exc',..)}], types)"""
    cube_idx = 0 if case.get("ca_as_0th") else None
    res = impl.guarded(lambda: impl.cube(case["response"], mask_size=case.get("mask_size", 0),
                                         cube_idx=cube_idx).partitions)
    if res[0] != "ok":
        return {"error": res}
    parts = res[1]
    out = {"parts": [], "types": [type(p).__name__ for p in parts]}
    for p in parts:
        tn = type(p).__name__
        names = names_slice if tn == "_Slice" else names_strand if tn == "_Strand" else []
        d = {}
        for n in names:
            r = impl.get(p, n)
            d[n] = (r[0], impl.tolist(r[1])) if r[0] == "ok" else r
        if masks:
            if tn == "_Slice":
                for mn in ("row_mask", "column_mask", "table_mask"):
                    r = impl.guarded(lambda mn=mn: getattr(p.min_base_size_mask, mn))
                    d[mn] = (r[0], impl.tolist(r[1])) if r[0] == "ok" else r
            elif tn == "_Strand":
                r = impl.get(p, "min_base_size_mask")
                d["mask"] = (r[0], impl.tolist(r[1])) if r[0] == "ok" else r
        out["parts"].append(d)
    return out


def model_terms(case):
    """Gallina terms for a case: (kind, term) list."""
    axes = case["_axes"]
    ds = g_dims(axes)
    p = g_payload(case["response"])
    size = g_xq(Fraction(case.get("mask_size", 0)))
    n_app = len([a for a in axes if a["role"] != "mr_sel"])
    terms = []
    if n_app >= 2 and not case.get("ca_as_0th"):
        terms.append(("slices", "r_cube_slices %s %s %s" % (ds, p, size)))
    elif n_app >= 1:
        terms.append(("strands", "r_cube_strands %s %s %s %s" % (
            ds, p, g_bool(bool(case.get("ca_as_0th"))), size)))
    meas = case["response"]["result"]["measures"]
    for m, pub in NUMERIC_NAMES.items():
        if m in meas:
            if n_app >= 2 and not case.get("ca_as_0th"):
                terms.append(("num:" + pub, "r_passthrough_slices %s %s" % (ds, g_data(meas[m]["data"]))))
            elif n_app == 1:
                terms.append(("snum:" + pub, "r_opt r_vec (strand_passthrough %s %s)" % (
                    ds, g_data(meas[m]["data"]))))
    return terms


def tabulate_term(case):
    """Gallina term: the flat tensor of the survey in NATURAL axis order (weighted)."""
    sv = case["_sv"]
    shape, _ = gen.tabulate(sv, case["aliases"], weight=False)
    return "r_tabulate %s %s %s" % (
        g_list([g_nat(s) for s in shape]), g_cubevars(sv, case["aliases"]),
        g_survey(sv, case["aliases"], weight=True))


def natural_weighted_tensor(case):
    sv = case["_sv"]
    _, data = gen.tabulate(sv, case["aliases"], weight=True)
    return data


def class_pair(case):
    ap = [a for a in case["_axes"] if a["role"] != "mr_sel"]

    def c(a):
        return {"mr_items": "Mr", "ca_items": "Arr"}.get(a["role"], "Cat")

    if case.get("ca_as_0th"):
        return "CA0th"
    if len(ap) == 1:
        return "strand-" + c(ap[0])
    return "%sx%s%s" % (c(ap[-2]), c(ap[-1]), "" if len(ap) == 2 else "|table-" + c(ap[0]))


def mat_mismatch(impl_val, expect, what):
    """expect: nested list of Fraction / 'nan' ...; impl_val nested list / None."""
    if impl_val is None:
        return {"what": what, "impl": None}
    try:
        a = np.asarray(impl_val, dtype=float)
    except Exception:
        return {"what": what, "impl": repr(impl_val)[:200]}
    if a.ndim == 1:
        if len(expect) != a.shape[0] or not core.close_vec(a.tolist(), expect):
            return {"what": what, "impl": a.tolist(), "expected": expect}
        return None
    if a.ndim == 0:
        return None if core.close(float(a), expect) else {"what": what, "impl": float(a), "expected": expect}
    e = [list(r) for r in expect]
    if a.shape[0] != len(e):
        return {"what": what, "impl_shape": list(a.shape), "expected_rows": len(e)}
    if len(e) and a.shape[1] != len(e[0]):
        return {"what": what, "impl_shape": list(a.shape), "expected_cols": len(e[0])}
    d = core.first_diff_mat(a.tolist(), e)
    if d is not None:
        return {"what": what, "first_diff(i,j,impl,expected)": d}
    return None
