# -*- coding: utf-8 -*-
"""C16 - Column index compares column share with the unconditional row share.

Obligations: coq/Props/C16.v (Spec/Survey.v, Model/CubeCounts.v, Proofs/CubeCountsIndex.v).

Correspondence on random respondent-level surveys with heavy, uneven column missingness
(harness/props/cube_util.py):
  (a) Model/CubeCounts.v `slice_column_index` evaluated in Coq on the JSON payload vs. the
      implementation's `_Slice.column_index` (base block);
  (b) the respondent-level value 100 * (w(row,col)/w(ok_row,col)) / (w(row)/w(ok_row)), computed
      from the answers regardless of the column answer, vs. the same output;
  (c) inserted subtotal rows / columns of column_index are NaN.
The model is faithful to the code.  3-D cubes whose table dimension has a missing category before
a valid one were the genuine defect C16-3d-baseline-wrong-table (baseline taken from the wrong
table), repaired in /repo; 35% of the generated 3-D cases have that shape and (a) and (b) must
both agree on them (theorem C16_former_witness is the minimal one, run first).
"""
import json
import random

import numpy as np

from harness import core, gen, impl
from harness.props import cube_util as cu

PID = "C16"


def has_valid_counts(case):
    m = case["response"]["result"]["measures"]
    return "valid_count_unweighted" in m or "valid_count_weighted" in m


def cat_mr_only(case):
    return all(a["role"] in ("cat", "mr_items", "mr_sel") for a in case["_axes"])


def build(case):
    io = cu.run_impl(case, ["column_index"], [])
    terms = [t for t in cu.model_terms(case) if t[0] == "slices"]
    return io, terms


def expected_index(oracle, k, weighted):
    ap = oracle.apparent
    rows, cols = ap[-2], ap[-1]
    table = ap[:-2]
    tab = [(t, "in", k) for t in table]
    out = []
    for i in range(oracle.n_valid(rows)):
        n = oracle.w(tab + [(rows, "in", i), (cols, "any", 0)], weighted)
        d = oracle.w(tab + [(rows, "ok", i), (cols, "any", 0)], weighted)
        base = cu.fdiv(n, d)
        row = []
        for j in range(oracle.n_valid(cols)):
            c = oracle.w(tab + [(rows, "in", i), (cols, "in", j)], weighted)
            b = oracle.w(tab + [(rows, "ok", i), (cols, "in", j)], weighted)
            row.append(cu.fmul(100, cu.fdiv(cu.fdiv(c, b), base)))
        out.append(row)
    return out


def rank_is_offset(case, k):
    ap = [a for a in case["_axes"] if a["role"] != "mr_sel"]
    if len(ap) < 3:
        return True
    return cu.valid_positions(ap[0]["missing"])[k] == k


def compare(case, io, terms, results):
    fails = []
    if "error" in io:
        return [{"what": "exception", "impl": io["error"][1:]}]
    parts = io["parts"]
    sv = case["_sv"]
    oracle = cu.Oracle(sv, case["_axes"])
    use_oracle = (not has_valid_counts(case)) and cat_mr_only(case)
    for (kind, _t), toks in zip(terms, results):
        model = cu.dec_cube_slices(toks)
        if len(model) != len(parts):
            fails.append({"what": "n_partitions", "impl": len(parts), "model": len(model)})
            continue
        for k, (mp, ip) in enumerate(zip(model, parts)):
            r = ip["column_index"]
            if r[0] != "ok":
                fails.append({"what": "column_index", "part": k, "impl": r[1:], "oracle": "model"})
                continue
            if mp["column_index"] is None:
                fails.append({"what": "column_index:model-undefined", "part": k})
                continue
            d = cu.mat_mismatch(r[1], mp["column_index"], "column_index")
            if d:
                fails.append(dict(d, part=k, oracle="model", rank_is_offset=rank_is_offset(case, k)))
            if use_oracle:
                exp = expected_index(oracle, k, sv.weighted)
                d = cu.mat_mismatch(r[1], exp, "column_index")
                if d:
                    fails.append(dict(d, part=k, oracle="survey",
                                      rank_is_offset=rank_is_offset(case, k)))
    return fails


# (c) subtotals are NaN ---------------------------------------------------------------

def gen_subtotal_case(rng, k):
    kinds = [rng.choice(["cat", "cat", "mr"]), rng.choice(["cat", "cat", "mr"])]
    if "cat" not in kinds:
        kinds[rng.randrange(2)] = "cat"
    vs = [cu.make_var(rng, "v%d" % n, kd) for n, kd in enumerate(kinds)]
    for v in vs:
        if v.kind == "cat":
            v.view_insertions = gen.random_insertions(rng, v, max_n=2, stale=False)
    sv = gen.Survey(vs, rng.choice([3, 8, 15]), rng)
    case = {"k": k, "shape_class": "subtotals", "survey": cu.survey_to_json(sv),
            "aliases": [v.alias for v in vs], "perm": None, "measures": ["count"], "numvar": None,
            "valid_counts": False, "unavailable": [], "mask_size": 0, "ca_as_0th": False,
            "subtotals": True}
    cu.finish_case(case)
    return case


def run_subtotal_case(case):
    res = impl.guarded(lambda: impl.cube(case["response"]).partitions)
    if res[0] != "ok":
        return [{"what": "exception", "impl": res[1:]}], 0
    fails, n = [], 0
    for k, p in enumerate(res[1]):
        info = impl.guarded(lambda: (impl.dims_info(p), list(p.row_order()), list(p.column_order())))
        r = impl.get(p, "column_index")
        if info[0] != "ok" or r[0] != "ok":
            fails.append({"what": "column_index:subtotals", "impl": (info[1:], r[1:])})
            continue
        # READ-ORDER LEG (common_cases.late_reads): column_index read after every other public read of
        # a second partition is the one of the fresh partition
        from harness.props import common_cases as cc
        population, late = cc.late_reads({"response": case["response"], "transforms": None,
                                          "k": 1000 * int(case.get("k", 0)) + k},
                                         ["column_index"], {"column_index": r}, transforms=None, k=k)
        for nm, a, b, culprits in late[:1]:
            fails.append({"what": "column_index depends on what was read before", "fresh": a,
                          "after_other_reads": b, "population": population, "partition": k,
                          "single_earlier_reads_that_change_it": culprits})
        (nr, nrs, nc, ncs), ro, co = info[1]
        n += nrs + ncs
        blk = impl.blocks2d(r[1], ro, co, nr, nc, nrs, ncs)
        for name, b in (("subtotal-columns", blk[0][1]), ("subtotal-rows", blk[1][0]),
                        ("intersections", blk[1][1])):
            if not all(core.close(x, "nan") for row in b for x in row):
                fails.append({"what": "column_index:" + name + "-not-nan", "part": k, "impl": b})
    return fails, n


def witness_case():
    """The minimal response of finding C16-3d-baseline-wrong-table (Props/C16.v c16_witness)."""
    def catvar(alias, flags):
        return {"kind": "cat", "alias": alias, "name": alias.upper(),
                "cats": [{"id": n + 1, "missing": m, "name": "%s_c%d" % (alias, n + 1),
                          "numeric_value": None} for n, m in enumerate(flags)]}
    rows = [((0, 0, 0), 10), ((1, 0, 0), 1), ((1, 0, 1), 1), ((1, 1, 0), 3), ((1, 1, 1), 3)]
    resp = []
    for (t, r, c), n in rows:
        for _ in range(n):
            resp.append({"ans": {"v0": t, "v1": r, "v2": c}, "w": "1", "num": {}})
    case = {"k": -1, "shape_class": "witness", "aliases": ["v0", "v1", "v2"], "perm": None,
            "survey": {"vars": [catvar("v0", [True, False]), catvar("v1", [False, False]),
                                catvar("v2", [False, False])],
                       "weighted": False, "numvars": [], "resp": resp},
            "measures": ["count"], "numvar": None, "valid_counts": False, "unavailable": [],
            "mask_size": 0, "ca_as_0th": False}
    cu.finish_case(case)
    return case


def describe(rep, case):
    rep.dist("class=" + cu.class_pair(case))
    sv = case["_sv"]
    rep.dist("weighted" if sv.weighted else "unweighted")
    if case.get("heavy"):
        rep.dist("heavy_uneven_column_missingness")
    ap = [a for a in case["_axes"] if a["role"] != "mr_sel"]
    if len(ap) == 3 and any(not rank_is_offset(case, k)
                            for k in range(len(cu.valid_positions(ap[0]["missing"])))):
        rep.dist("3d_missing_table_element_before_valid")


def run(tier, seed):
    rep = core.Report(PID, tier, seed)
    ob = core.obligations_gate(rep, PID)
    n_cases = 260 if tier == "quick" else 4000
    n_sub_cases = 80 if tier == "quick" else 1000
    rng = random.Random(seed + 16)
    cases = [witness_case()]
    for k in range(n_cases):
        r = rng.random()
        sc = "2d" if r < 0.55 else "3d" if r < 0.9 else "ca3"
        heavy = rng.random() < 0.6
        case = cu.gen_case(rng, k, shape_class=sc, numeric=(rng.random() < 0.08),
                           heavy_missing=heavy,
                           missing_table_first=(sc == "3d" and rng.random() < 0.35),
                           n_resp=rng.choice([0, 2, 6, 12, 20, 30]))
        case["heavy"] = heavy
        cases.append(case)
    ios, allterms, flat = [], [], []
    for case in cases:
        io, terms = build(case)
        ios.append(io)
        allterms.append(terms)
        flat.extend(t for (_k, t) in terms)
    results, coq_s = core.run_coq_cases(PID, cu.IMPORTS, flat, shard=60) if flat else ([], 0.0)
    pos = 0
    for case, io, terms in zip(cases, ios, allterms):
        res = results[pos:pos + len(terms)]
        pos += len(terms)
        nt = len(case["_sv"].resp) > 0
        rep.count_case(cu.replayable(case), nt)
        describe(rep, case)
        if nt and case["k"] >= 0:
            rep.sample({"class": cu.class_pair(case), "aliases": case["aliases"],
                        "n_resp": len(case["_sv"].resp), "heavy": case.get("heavy")})
        for f in compare(case, io, terms, res):
            ap = [a for a in case["_axes"] if a["role"] != "mr_sel"]
            ctx = {"what": f.get("what"), "oracle": f.get("oracle"), "ndim": len(ap),
                   "rank_is_offset": f.get("rank_is_offset")}
            rep.violation("impl-vs-model" if f.get("oracle") != "survey" else "impl-vs-survey",
                          cu.replayable(case), f, ctx)
    n_subtotals = 0
    for k in range(n_sub_cases):
        case = gen_subtotal_case(rng, k)
        fails, ns = run_subtotal_case(case)
        n_subtotals += ns
        rep.count_case(cu.replayable(case), ns > 0)
        rep.dist("subtotal-case")
        for f in fails:
            rep.violation("impl-subtotals", cu.replayable(case), f, {"what": f.get("what")})
    rep.cov["rule"] = (
        "cases from random.Random(seed+16): the minimal witness of the repaired finding, then surveys of "
        "0..30 respondents over cat / cat_date / mr / enum (and a few array) variables, 2-D and 3-D, "
        "weighted (dyadic, zero) or not, 60% with heavy column missingness skewed by row, 35% of the 3-D "
        "cases with a missing table category before a valid one; plus CAT/MR slices with subtotal "
        "insertions (NaN check). non-trivial = at least one respondent; distinct by content hash")
    rep.cov["coq_eval_seconds"] = round(coq_s, 2)
    rep.cov["model_terms_evaluated"] = len(flat)
    rep.cov["subtotal_vectors_checked"] = n_subtotals
    rep.assumptions = [
        "MR items are never flagged missing (the code relies on it: the 2-D baselines are not filtered "
        "by validity of MR items); generated responses respect it",
        "array dimensions are outside the property (the code treats them as categorical in the baseline); "
        "they are compared with the model only",
        "float64 vs exact rationals: relative tolerance 1e-9",
    ]
    return rep.finish("proof", ob, trusted_base=core.TRUSTED_BASE_COMMON + [
        "Model/CubeCounts.v is hand-written; tied to matrix/measure.py _ColumnIndex and cube.py "
        "counts_with_missings by this correspondence run only; the four _*UnconditionalCubeCounts.baseline "
        "variants (through the factory's conditional chain), their constructor argument, _slice_idx_expr and "
        "the counts extractors are ALSO tied to the text of matrix/cubemeasure.py by the C16_gen_* obligations "
        "(Proofs/GenAgreeBaseline.v, GenAgreeCounts.v)",
        core.TRUSTED_BASE_TRANSLATOR])


def replay(path):
    d = json.load(open(path))
    if d["violation"].get("kind") in core.OBLIGATION_KINDS:  # a broken obligation, no input to re-run
        return core.replay_obligations(PID, d)
    case = d["violation"]["case"]
    cu.finish_case(case)
    if case.get("subtotals"):
        fails, _ = run_subtotal_case(case)
    else:
        io, terms = build(case)
        results, _ = core.run_coq_cases(PID, cu.IMPORTS, [t for (_k, t) in terms], tag="replay")
        fails = compare(case, io, terms, results)
    for f in fails:
        print("REPLAY still fails:", json.dumps(core.jsonable(f))[:600])
    if not fails:
        print("REPLAY: no longer fails")
    return 1 if fails else 0
