# -*- coding: utf-8 -*-
"""C16 - Column index compares column share with the unconditional row share.

Obligations: coq/Props/C16.v (Spec/Survey.v, Model/CubeCounts.v, Proofs/CubeCountsIndex.v).

Correspondence on random respondent-level surveys with heavy, uneven column missingness
(harness/props/cube_util.py):
  (a) Model/CubeCounts.v `slice_column_index` evaluated in Coq on the JSON payload vs. the
      implementation's `_Slice.column_index` (base block);
  (b) the respondent-level value 100 * (w(row,col)/w(ok_row,col)) / (w(row)/w(ok_row)), computed
      from the answers regardless of the column answer, vs. the same output;
  (c) inserted subtotal rows / columns of column_index are NaN.
The model is faithful to the code.  3-D cubes whose table dimension has a missing category before
a valid one were the genuine defect C16-3d-baseline-wrong-table (baseline taken from the wrong
table), repaired in /repo; 35% of the generated 3-D cases have that shape and (a) and (b) must
both agree on them (theorem C16_former_witness is the minimal one, run first).

  (d) DISPLAY TRANSFORMS (added after seeded change C16-6: `_CatXMrUnconditionalCubeCounts.baseline`
      summed the table margin over the rows that are not hidden, which no case could show because no
      case hid anything).  The property defines the baseline as the row element's share of ALL
      respondents eligible for it and does not mention the display: a hidden / pruned / reordered row or
      column is still an element of the table and its respondents still count.  `gen_display_case`
      draws CAT/MR x CAT/MR slices - all four pairings in turn, 2-D and 3-D (CAT or MR table
      dimension), half of them with subtotal insertions, 60% with heavy uneven column missingness -
      and per-dimension display transforms: `hide` flags (65% of the cases force one on a POPULATED row
      element; keys are ids or MR item aliases), explicit orders (permutation / subset / stale id), prune.
      The cube is built (A) without and (B) with them and every displayed cell of (B).column_index must
      equal  (a) for a base cell (row_order()[i] >= 0, column_order()[j] >= 0) the model's value and
      the respondent-level value of THAT base cell, whose baseline is computed from all rows; NaN for an
      inserted subtotal;  (b) relationally, the cell of (A).column_index that (B)'s own row_order() /
      column_order() point at.  Distribution keys `display:*`.

  (e) SMOOTHING READ ORDER (added after seeded change C16-9: the smoothed column index assigned its
      smoothed base block INTO the cached blocks of the unsmoothed measure, so `column_index` read after
      `smoothed_column_index` was the moving average).  The property defines column_index from the counts
      alone; which other outputs of the same slice were read before is not an input.  A stream of
      CAT/MR/CAT_DATE x CAT_DATE slices under a VALID smoothing transform (one-sided moving average,
      window 2): `column_index` read right after `smoothed_column_index`, and after EVERY other public
      read in two shuffled orders, must be value-exactly the one of a fresh partition.  Distribution key
      `smoothing-read-order`.
"""
import json
import random

import numpy as np

from harness import core, gen, impl
from harness.props import cube_util as cu

PID = "C16"


def has_valid_counts(case):
    m = case["response"]["result"]["measures"]
    return "valid_count_unweighted" in m or "valid_count_weighted" in m


def cat_mr_only(case):
    return all(a["role"] in ("cat", "mr_items", "mr_sel") for a in case["_axes"])


def build(case):
    io = cu.run_impl(case, ["column_index"], [])
    terms = [t for t in cu.model_terms(case) if t[0] == "slices"]
    return io, terms


def expected_index(oracle, k, weighted):
    ap = oracle.apparent
    rows, cols = ap[-2], ap[-1]
    table = ap[:-2]
    tab = [(t, "in", k) for t in table]
    out = []
    for i in range(oracle.n_valid(rows)):
        n = oracle.w(tab + [(rows, "in", i), (cols, "any", 0)], weighted)
        d = oracle.w(tab + [(rows, "ok", i), (cols, "any", 0)], weighted)
        base = cu.fdiv(n, d)
        row = []
        for j in range(oracle.n_valid(cols)):
            c = oracle.w(tab + [(rows, "in", i), (cols, "in", j)], weighted)
            b = oracle.w(tab + [(rows, "ok", i), (cols, "in", j)], weighted)
            row.append(cu.fmul(100, cu.fdiv(cu.fdiv(c, b), base)))
        out.append(row)
    return out


def rank_is_offset(case, k):
    ap = [a for a in case["_axes"] if a["role"] != "mr_sel"]
    if len(ap) < 3:
        return True
    return cu.valid_positions(ap[0]["missing"])[k] == k


def compare(case, io, terms, results):
    fails = []
    if "error" in io:
        return [{"what": "exception", "impl": io["error"][1:]}]
    parts = io["parts"]
    sv = case["_sv"]
    oracle = cu.Oracle(sv, case["_axes"])
    use_oracle = (not has_valid_counts(case)) and cat_mr_only(case)
    for (kind, _t), toks in zip(terms, results):
        model = cu.dec_cube_slices(toks)
        if len(model) != len(parts):
            fails.append({"what": "n_partitions", "impl": len(parts), "model": len(model)})
            continue
        for k, (mp, ip) in enumerate(zip(model, parts)):
            r = ip["column_index"]
            if r[0] != "ok":
                fails.append({"what": "column_index", "part": k, "impl": r[1:], "oracle": "model"})
                continue
            if mp["column_index"] is None:
                fails.append({"what": "column_index:model-undefined", "part": k})
                continue
            d = cu.mat_mismatch(r[1], mp["column_index"], "column_index")
            if d:
                fails.append(dict(d, part=k, oracle="model", rank_is_offset=rank_is_offset(case, k)))
            if use_oracle:
                exp = expected_index(oracle, k, sv.weighted)
                d = cu.mat_mismatch(r[1], exp, "column_index")
                if d:
                    fails.append(dict(d, part=k, oracle="survey",
                                      rank_is_offset=rank_is_offset(case, k)))
    return fails


# (c) subtotals are NaN ---------------------------------------------------------------

def gen_subtotal_case(rng, k):
    kinds = [rng.choice(["cat", "cat", "mr"]), rng.choice(["cat", "cat", "mr"])]
    if "cat" not in kinds:
        kinds[rng.randrange(2)] = "cat"
    vs = [cu.make_var(rng, "v%d" % n, kd) for n, kd in enumerate(kinds)]
    for v in vs:
        if v.kind == "cat":
            v.view_insertions = gen.random_insertions(rng, v, max_n=2, stale=False)
    sv = gen.Survey(vs, rng.choice([3, 8, 15]), rng)
    case = {"k": k, "shape_class": "subtotals", "survey": cu.survey_to_json(sv),
            "aliases": [v.alias for v in vs], "perm": None, "measures": ["count"], "numvar": None,
            "valid_counts": False, "unavailable": [], "mask_size": 0, "ca_as_0th": False,
            "subtotals": True}
    cu.finish_case(case)
    return case


def run_subtotal_case(case):
    res = impl.guarded(lambda: impl.cube(case["response"]).partitions)
    if res[0] != "ok":
        return [{"what": "exception", "impl": res[1:]}], 0
    fails, n = [], 0
    for k, p in enumerate(res[1]):
        info = impl.guarded(lambda: (impl.dims_info(p), list(p.row_order()), list(p.column_order())))
        r = impl.get(p, "column_index")
        if info[0] != "ok" or r[0] != "ok":
            fails.append({"what": "column_index:subtotals", "impl": (info[1:], r[1:])})
            continue
        # READ-ORDER LEG (common_cases.late_reads): column_index read after every other public read of
        # a second partition is the one of the fresh partition
        from harness.props import common_cases as cc
        population, late = cc.late_reads({"response": case["response"], "transforms": None,
                                          "k": 1000 * int(case.get("k", 0)) + k},
                                         ["column_index"], {"column_index": r}, transforms=None, k=k)
        for nm, a, b in cc.warnings_as_errors({"response": case["response"], "transforms": None},
                                              ["column_index"], transforms=None, k=k)[:1]:
            fails.append({"what": "column_index differs when warnings are errors", "normal": a,
                          "warnings_as_errors": b, "partition": k})
        for nm, a, b, culprits in late[:1]:
            fails.append({"what": "column_index depends on what was read before", "fresh": a,
                          "after_other_reads": b, "population": population, "partition": k,
                          "single_earlier_reads_that_change_it": culprits})
        (nr, nrs, nc, ncs), ro, co = info[1]
        n += nrs + ncs
        blk = impl.blocks2d(r[1], ro, co, nr, nc, nrs, ncs)
        for name, b in (("subtotal-columns", blk[0][1]), ("subtotal-rows", blk[1][0]),
                        ("intersections", blk[1][1])):
            if not all(core.close(x, "nan") for row in b for x in row):
                fails.append({"what": "column_index:" + name + "-not-nan", "part": k, "impl": b})
    return fails, n


# (d) display transforms --------------------------------------------------------------

PAIRINGS = [("cat", "cat"), ("cat", "mr"), ("mr", "cat"), ("mr", "mr")]


def _display_var(rng, alias, kind, small):
    if kind == "mr":
        return gen.make_mr(rng, alias, n_items=rng.randint(2, 3))
    return gen.make_cat(rng, alias, n_valid=rng.randint(2, 3 if small else 4),
                        n_missing=rng.choice([0, 1, 1, 2]), missing_anywhere=True, numeric=None,
                        date=(rng.random() < 0.15))


def populated_elements(sv, v):
    """positions (among the VALID elements) of the elements of v that have a respondent"""
    if v.kind == "mr":
        return [e for e in range(len(v.items))
                if any(r["ans"][v.alias][e] == gen.SEL for r in sv.resp)]
    valid = cu.valid_positions([bool(c["missing"]) for c in v.cats])
    return [e for e, p in enumerate(valid) if any(r["ans"][v.alias] == p for r in sv.resp)]


def dim_display(rng, v, populated, force_hide):
    """hide flags / explicit order / prune for the dimension of variable v (keys are strings: category
    / item ids, or item aliases, so that a replay read back from JSON is the same dict)"""
    if v.kind == "mr":
        ids = [it["id"] for it in v.items]
        keys = [rng.choice([str(it["id"]), it["alias"]]) for it in v.items]
    else:
        ids = gen.valid_cat_ids(v)
        keys = [str(i) for i in ids]
    t = {}
    r = rng.random()
    p_hide = 0.0 if r < 0.25 else 0.3 if r < 0.8 else 0.6
    hidden = set(e for e in range(len(ids)) if rng.random() < p_hide)
    if force_hide and populated:
        hidden.add(rng.choice(populated))
    if hidden:
        t["elements"] = {keys[e]: {"hide": True} for e in sorted(hidden)}
    if rng.random() < 0.45 and ids:
        x = rng.random()
        if x < 0.4:
            listed = rng.sample(ids, len(ids))
        elif x < 0.8:
            listed = rng.sample(ids, rng.randint(0, len(ids)))
        else:
            listed = rng.sample(ids, rng.randint(0, len(ids))) + [999]
            rng.shuffle(listed)
        t["order"] = {"type": "explicit", "element_ids": listed}
    if rng.random() < 0.4:
        t["prune"] = True
    return t


def gen_display_case(rng, k):
    """CAT/MR x CAT/MR slice (2-D, or 3-D under a CAT / MR table dimension), with or without subtotal
    insertions, plus display transforms (hide / explicit order / prune) on rows and columns."""
    pair = PAIRINGS[k % 4] if rng.random() < 0.8 else rng.choice(PAIRINGS)
    three_d = rng.random() < 0.4
    vs = []
    if three_d:
        vs.append(cu.make_var(rng, "v0", rng.choice(["cat", "cat", "mr"]), small=True))
    for kd in pair:
        vs.append(_display_var(rng, "v%d" % len(vs), kd, three_d))
    if three_d and rng.random() < 0.35 and vs[0].kind == "cat" and len(vs[0].cats) >= 2:
        vs[0].cats[0]["missing"] = True
        vs[0].cats[-1]["missing"] = False
        for c in vs[0].cats:
            if c["missing"]:
                c["numeric_value"] = None
    subtotals = rng.random() < 0.5
    if subtotals:
        for v in vs[-2:]:
            if v.kind in ("cat", "cat_date"):
                v.view_insertions = gen.random_insertions(rng, v, max_n=2, stale=False)
    sv = gen.Survey(vs, rng.choice([4, 8, 15, 25]), rng)
    heavy = rng.random() < 0.6
    if heavy:
        rowv, colv = vs[-2], vs[-1]
        for r in sv.resp:
            skew = 0.7
            if rowv.kind in ("cat", "cat_date"):
                skew = 0.15 + 0.8 * (r["ans"][rowv.alias] % 2)
            if rng.random() < skew:
                if colv.kind == "mr":
                    r["ans"][colv.alias] = [gen.MIS if rng.random() < 0.7 else s
                                            for s in r["ans"][colv.alias]]
                else:
                    miss = [n for n, c in enumerate(colv.cats) if c["missing"]]
                    if miss:
                        r["ans"][colv.alias] = rng.choice(miss)
    display = {}
    force_row_hide = rng.random() < 0.65
    for key, v, force in (("rows_dimension", vs[-2], force_row_hide),
                          ("columns_dimension", vs[-1], rng.random() < 0.2)):
        t = dim_display(rng, v, populated_elements(sv, v), force)
        if t:
            display[key] = t
    case = {"k": k, "shape_class": "display", "survey": cu.survey_to_json(sv),
            "aliases": [v.alias for v in vs], "perm": None, "measures": ["count"], "numvar": None,
            "valid_counts": False, "unavailable": [], "mask_size": 0, "ca_as_0th": False,
            "display_leg": True, "display": display, "heavy": heavy, "subtotals": subtotals}
    cu.finish_case(case)
    return case


def _read_partition(p):
    out = {n: impl.get(p, n) for n in ("column_index", "row_order", "column_order")}
    out["dims"] = impl.guarded(lambda: impl.dims_info(p))
    return out


def build_display(case):
    """(A) the partitions without display transforms, (B) the same with them; the model's slices."""
    io = {}
    for tag, tr in (("A", None), ("B", case["display"] or None)):
        res = impl.guarded(lambda tr=tr: impl.cube(case["response"], transforms=tr).partitions)
        if res[0] != "ok":
            return {"error": res}, []
        io[tag] = [_read_partition(p) for p in res[1]]
    terms = [t for t in cu.model_terms(case) if t[0] == "slices"]
    return io, terms


def _pyidx(z, n):
    return z if z >= 0 else n + z


def compare_display(case, io, terms, results):
    """every displayed cell of (B): (a) base cell = the model's / the survey oracle's value of the base
    cell (row_order, column_order)[cell] points at, whose baseline counts ALL rows of the table; an
    inserted subtotal = NaN; (b) = the cell of (A) the displayed partition's own orders point at."""
    if "error" in io:
        return [{"what": "exception", "impl": io["error"][1:]}]
    fails = []
    sv = case["_sv"]
    oracle = cu.Oracle(sv, case["_axes"])
    model = None
    for (_kind, _t), toks in zip(terms, results):
        model = cu.dec_cube_slices(toks)
    if model is None or len(model) != len(io["A"]) or len(io["A"]) != len(io["B"]):
        return [{"what": "n_partitions", "impl": [len(io["A"]), len(io["B"])],
                 "model": None if model is None else len(model)}]
    case["_undisplayed"] = []
    for k, (A, B) in enumerate(zip(io["A"], io["B"])):
        roi = rank_is_offset(case, k)
        bad = {n: v[1:] for tag, P in (("A", A), ("B", B)) for n, v in P.items() if v[0] != "ok"}
        if bad:
            fails.append({"what": "column_index:display-read", "part": k, "impl": bad})
            continue
        if A["dims"][1] != B["dims"][1]:
            fails.append({"what": "column_index:display-dims-differ", "part": k,
                          "impl": [A["dims"][1], B["dims"][1]]})
            continue
        nr, nrs, nc, ncs = A["dims"][1]
        nR, nC = nr + nrs, nc + ncs
        full = [[None] * nC for _ in range(nR)]
        a = impl.tolist(A["column_index"][1])
        for di, r in enumerate(A["row_order"][1]):
            for dj, c in enumerate(A["column_order"][1]):
                full[_pyidx(int(r), nR)][_pyidx(int(c), nC)] = a[di][dj]
        if any(x is None for row in full for x in row):
            fails.append({"what": "column_index:untransformed-order-incomplete", "part": k,
                          "impl": [impl.tolist(A["row_order"][1]), impl.tolist(A["column_order"][1])]})
            continue
        mod = model[k]["column_index"]
        if mod is None:
            fails.append({"what": "column_index:model-undefined", "part": k})
            continue
        exp = expected_index(oracle, k, sv.weighted)
        # the base block of (A) against model and survey (as in leg (a)/(b), here with insertions)
        baseA = [row[:nc] for row in full[:nr]]
        for orc, want in (("model", mod), ("survey", exp)):
            d = cu.mat_mismatch(baseA, want, "column_index")
            if d and nr and nc:
                fails.append(dict(d, part=k, oracle=orc, rank_is_offset=roi))
        ro = [int(z) for z in B["row_order"][1]]
        co = [int(z) for z in B["column_order"][1]]
        case["_undisplayed"].append(([i for i in range(nr) if i not in ro],
                                     [j for j in range(nc) if j not in co], ro, co, nr, nc))
        b = impl.tolist(B["column_index"][1])
        info = {"part": k, "row_order": ro, "column_order": co, "display": case["display"],
                "rank_is_offset": roi}
        if len(b) != len(ro) or any(len(row) != len(co) for row in b):
            fails.append(dict(info, what="column_index.displayed:shape", oracle="untransformed",
                              impl_shape=[len(b), len(b[0]) if b else 0]))
            continue

        def want_of(which, r, c):
            if which == "untransformed":
                return core.to_exact(full[_pyidx(r, nR)][_pyidx(c, nC)])
            if r < 0 or c < 0:
                return "nan"
            return (mod if which == "model" else exp)[r][c]

        for which in ("model", "survey", "untransformed"):
            hit = None
            for di, r in enumerate(ro):
                for dj, c in enumerate(co):
                    want = want_of(which, r, c)
                    if not core.close(b[di][dj], want):
                        hit = dict(info, what="column_index.displayed", oracle=which, cell=[di, dj],
                                   signed=[r, c], impl=b[di][dj], expected=want)
                        break
                if hit:
                    break
            if hit:
                fails.append(hit)
    return fails


def describe_display(rep, case):
    rep.dist("display:case")
    cp = cu.class_pair(case)
    rep.dist("display:class=" + cp)
    ap = [a for a in case["_axes"] if a["role"] != "mr_sel"]
    rep.dist("display:%dd" % len(ap))
    rep.dist("display:with-subtotal-insertions" if case.get("subtotals") else "display:no-insertions")
    for key, t in (case.get("display") or {}).items():
        ax = "rows" if key == "rows_dimension" else "columns"
        if "elements" in t:
            rep.dist("display:hide-" + ax)
        if "order" in t:
            rep.dist("display:explicit-order-" + ax)
        if t.get("prune"):
            rep.dist("display:prune-" + ax)
    sv = case["_sv"]
    vs = [sv.var(a) for a in case["aliases"]]
    pop_r, pop_c = populated_elements(sv, vs[-2]), populated_elements(sv, vs[-1])
    und = case.get("_undisplayed") or []
    if any(set(gr) & set(pop_r) for gr, _gc, _ro, _co, _nr, _nc in und):
        rep.dist("display:undisplayed-populated-base-row")
        rep.dist("display:undisplayed-populated-base-row:" + cp.split("|")[0])
    if any(set(gc) & set(pop_c) for _gr, gc, _ro, _co, _nr, _nc in und):
        rep.dist("display:undisplayed-populated-base-column")
    if any([z for z in ro if z >= 0] != sorted(z for z in ro if z >= 0) or
           [z for z in co if z >= 0] != sorted(z for z in co if z >= 0)
           for _gr, _gc, ro, co, _nr, _nc in und):
        rep.dist("display:base-elements-reordered")
    if any(z < 0 for _gr, _gc, ro, co, _nr, _nc in und for z in ro + co):
        rep.dist("display:displayed-subtotal-vector")


def witness_case():
    """The minimal response of finding C16-3d-baseline-wrong-table (Props/C16.v c16_witness)."""
    def catvar(alias, flags):
        return {"kind": "cat", "alias": alias, "name": alias.upper(),
                "cats": [{"id": n + 1, "missing": m, "name": "%s_c%d" % (alias, n + 1),
                          "numeric_value": None} for n, m in enumerate(flags)]}
    rows = [((0, 0, 0), 10), ((1, 0, 0), 1), ((1, 0, 1), 1), ((1, 1, 0), 3), ((1, 1, 1), 3)]
    resp = []
    for (t, r, c), n in rows:
        for _ in range(n):
            resp.append({"ans": {"v0": t, "v1": r, "v2": c}, "w": "1", "num": {}})
    case = {"k": -1, "shape_class": "witness", "aliases": ["v0", "v1", "v2"], "perm": None,
            "survey": {"vars": [catvar("v0", [True, False]), catvar("v1", [False, False]),
                                catvar("v2", [False, False])],
                       "weighted": False, "numvars": [], "resp": resp},
            "measures": ["count"], "numvar": None, "valid_counts": False, "unavailable": [],
            "mask_size": 0, "ca_as_0th": False}
    cu.finish_case(case)
    return case


def describe(rep, case):
    rep.dist("class=" + cu.class_pair(case))
    if case.get("weights_outside_the_table"):
        rep.dist("weights-only-outside-the-table")
    sv = case["_sv"]
    rep.dist("weighted" if sv.weighted else "unweighted")
    if case.get("heavy"):
        rep.dist("heavy_uneven_column_missingness")
    ap = [a for a in case["_axes"] if a["role"] != "mr_sel"]
    if len(ap) == 3 and any(not rank_is_offset(case, k)
                            for k in range(len(cu.valid_positions(ap[0]["missing"])))):
        rep.dist("3d_missing_table_element_before_valid")


def smoothing_read_order_fails(scase):
    from harness.props import common_cases as cc
    tr = dict(scase.get("transforms") or {})
    cd = dict(tr.get("columns_dimension") or {})
    cd["smoother"] = {"function": "one_sided_moving_avg", "window": 2}
    tr["columns_dimension"] = cd
    case = dict(scase, transforms=tr)
    fresh = {"column_index": impl.get(impl.partition(case["response"], tr), "column_index")}
    if fresh["column_index"][0] == "ok":
        import copy
        fresh["column_index"] = ("ok", copy.deepcopy(fresh["column_index"][1]))
    fails = []
    # targeted: the smoothed index first, then the plain one, on one partition
    p = impl.partition(case["response"], tr)
    impl.get(p, "smoothed_column_index")
    a, b = cc._canon_read(fresh["column_index"]), cc._canon_read(impl.get(p, "column_index"))
    if a != b:
        fails.append({"what": "column_index depends on what was read before", "fresh": a, "after": b,
                      "schedule": ["smoothed_column_index", "column_index"]})
    for extra in (0, 500000):
        population, late = cc.late_reads(dict(case, k=int(case.get("k", 0)) + extra), ["column_index"], fresh,
                                         transforms=tr)
        for nm, x, y, culprits in late[:1]:
            fails.append({"what": "column_index depends on what was read before", "fresh": x,
                          "after_other_reads": y, "population": population,
                          "single_earlier_reads_that_change_it": culprits})
    return fails[:2]


def weights_outside_the_table(case, rng):
    sv = case["survey"]
    last = [v for v in sv["vars"] if v["alias"] == case["aliases"][-1]][0]
    def outside(ans):
        if last["kind"] == "mr":
            return all(x == gen.MIS for x in ans)
        els = last.get("cats") or last.get("elements") or []
        return isinstance(ans, int) and 0 <= ans < len(els) and bool(els[ans].get("missing"))
    out = [r for r in sv["resp"] if outside(r["ans"][last["alias"]])]
    if not out or len(out) == len(sv["resp"]):
        return False
    for r in sv["resp"]:
        r["w"] = "1"
    for r in out:
        r["w"] = rng.choice(["1/2", "1/4", "2", "3", "5/2"])
    sv["weighted"] = True
    case["weights_outside_the_table"] = True
    cu.finish_case(case)
    return True


def run(tier, seed):
    rep = core.Report(PID, tier, seed)
    ob = core.obligations_gate(rep, PID)
    n_cases = 260 if tier == "quick" else 4000
    n_sub_cases = 80 if tier == "quick" else 1000
    rng = random.Random(seed + 16)
    cases = [witness_case()]
    for k in range(n_cases):
        r = rng.random()
        sc = "2d" if r < 0.55 else "3d" if r < 0.9 else "ca3"
        heavy = rng.random() < 0.6
        case = cu.gen_case(rng, k, shape_class=sc, numeric=(rng.random() < 0.08),
                           heavy_missing=heavy,
                           missing_table_first=(sc == "3d" and rng.random() < 0.35),
                           n_resp=rng.choice([0, 2, 6, 12, 20, 30]))
        case["heavy"] = heavy
        cases.append(case)
    # WEIGHTS ONLY OUTSIDE THE TABLE (after seeded change C16-8: the cube decided "is weighted" by comparing
    # the weighted with the unweighted counts on the VALID cells only, and built the baseline from
    # unweighted counts otherwise): in one case out of seven every respondent with a valid answer on the
    # last (columns) dimension weighs exactly 1 and the respondents WITHOUT one carry other weights -
    # the counts, bases and proportions look unweighted, the baseline (all respondents of the row) is not
    wrng = random.Random(seed * 31 + 5)
    for case in cases[1:]:
        if wrng.random() < 0.15:
            weights_outside_the_table(case, wrng)
    ios, allterms, flat = [], [], []
    for case in cases:
        io, terms = build(case)
        ios.append(io)
        allterms.append(terms)
        flat.extend(t for (_k, t) in terms)
    # (d) display transforms: own PRNG, so that the stream of the cases above is unchanged
    n_disp_cases = 120 if tier == "quick" else 2000
    drng = random.Random(seed * 7919 + 166)
    dcases = [gen_display_case(drng, k) for k in range(n_disp_cases)]
    dios, dterms = [], []
    for case in dcases:
        io, terms = build_display(case)
        dios.append(io)
        dterms.append(terms)
        flat.extend(t for (_k, t) in terms)
    # (e) SMOOTHING stream (after seeded change C16-9: the smoothed column index assigned its smoothed base
    # block INTO the cached blocks of the unsmoothed measure): categorical-date columns under a valid
    # smoothing transform; column_index read after `smoothed_column_index` (targeted) and after every other
    # public read in two shuffled orders is the one of a fresh partition
    from harness.props import common_cases as cc
    rng_sm = random.Random(seed + 61)
    for k in range(24 if tier == "quick" else 300):
        scase = cc.replayable(cc.gen_slice_case(rng_sm, 200000 + k, p_strand=0.0, p_insert=0.3, valid_counts_p=0.0,
                                                kinds2d=[("cat", "cat_date"), ("mr", "cat_date"),
                                                         ("cat_date", "cat_date")], n_resp=(6, 30)))
        for f in smoothing_read_order_fails(scase):
            rep.violation("impl-vs-property", dict(scase, smoothing_stream=True), f,
                          {"what": f.get("what"), "leg": "smoothing-read-order"})
        rep.count_case(dict(scase, smoothing_stream=True), True)
        rep.dist("smoothing-read-order")
    results, coq_s = core.run_coq_cases(PID, cu.IMPORTS, flat, shard=60) if flat else ([], 0.0)
    pos = 0
    for case, io, terms in zip(cases, ios, allterms):
        res = results[pos:pos + len(terms)]
        pos += len(terms)
        nt = len(case["_sv"].resp) > 0
        rep.count_case(cu.replayable(case), nt)
        describe(rep, case)
        if nt and case["k"] >= 0:
            rep.sample({"class": cu.class_pair(case), "aliases": case["aliases"],
                        "n_resp": len(case["_sv"].resp), "heavy": case.get("heavy")})
        for f in compare(case, io, terms, res):
            ap = [a for a in case["_axes"] if a["role"] != "mr_sel"]
            ctx = {"what": f.get("what"), "oracle": f.get("oracle"), "ndim": len(ap),
                   "rank_is_offset": f.get("rank_is_offset")}
            rep.violation("impl-vs-model" if f.get("oracle") != "survey" else "impl-vs-survey",
                          cu.replayable(case), f, ctx)
    for case, io, terms in zip(dcases, dios, dterms):
        res = results[pos:pos + len(terms)]
        pos += len(terms)
        fails = compare_display(case, io, terms, res)
        rep.count_case(cu.replayable(case), len(case["_sv"].resp) > 0 and bool(case["display"]))
        describe_display(rep, case)
        ap = [a for a in case["_axes"] if a["role"] != "mr_sel"]
        for f in fails:
            ctx = {"what": f.get("what"), "oracle": f.get("oracle"), "ndim": len(ap),
                   "rank_is_offset": f.get("rank_is_offset")}
            kind = {"survey": "impl-vs-survey", "untransformed": "impl-displayed-vs-untransformed"}.get(
                f.get("oracle"), "impl-vs-model")
            rep.violation(kind, cu.replayable(case), f, ctx)
    n_subtotals = 0
    for k in range(n_sub_cases):
        case = gen_subtotal_case(rng, k)
        fails, ns = run_subtotal_case(case)
        n_subtotals += ns
        rep.count_case(cu.replayable(case), ns > 0)
        rep.dist("subtotal-case")
        for f in fails:
            rep.violation("impl-subtotals", cu.replayable(case), f, {"what": f.get("what")})
    rep.cov["rule"] = (
        "cases from random.Random(seed+16): the minimal witness of the repaired finding, then surveys of "
        "0..30 respondents over cat / cat_date / mr / enum (and a few array) variables, 2-D and 3-D, "
        "weighted (dyadic, zero) or not, 60% with heavy column missingness skewed by row, 35% of the 3-D "
        "cases with a missing table category before a valid one; plus CAT/MR slices with subtotal "
        "insertions (NaN check); plus (own PRNG) CAT/MR x CAT/MR slices of 4..25 respondents - the four "
        "pairings in turn, 40% 3-D, 50% with subtotal insertions, 60% heavy missingness - each built without "
        "and with display transforms (per dimension: hide flags on 0/30/60% of the elements, on a populated row "
        "element in 65% of the cases; explicit order 45%; prune 40%): every displayed cell against model, "
        "respondent-level oracle (baseline over ALL rows) and the untransformed column_index re-indexed by the "
        "displayed partition's own row_order()/column_order(). "
        "non-trivial = at least one respondent (display cases: and a non-empty display dict); distinct by "
        "content hash")
    rep.cov["display_cases"] = n_disp_cases
    rep.cov["coq_eval_seconds"] = round(coq_s, 2)
    rep.cov["model_terms_evaluated"] = len(flat)
    rep.cov["subtotal_vectors_checked"] = n_subtotals
    rep.assumptions = [
        "MR items are never flagged missing (the code relies on it: the 2-D baselines are not filtered "
        "by validity of MR items); generated responses respect it",
        "array dimensions are outside the property (the code treats them as categorical in the baseline); "
        "they are compared with the model only",
        "float64 vs exact rationals: relative tolerance 1e-9",
    ]
    return rep.finish("proof", ob, trusted_base=core.TRUSTED_BASE_COMMON + [
        "Model/CubeCounts.v is hand-written; tied to matrix/measure.py _ColumnIndex and cube.py "
        "counts_with_missings by this correspondence run only; the four _*UnconditionalCubeCounts.baseline "
        "variants (through the factory's conditional chain), their constructor argument, _slice_idx_expr and "
        "the counts extractors are ALSO tied to the text of matrix/cubemeasure.py by the C16_gen_* obligations "
        "(Proofs/GenAgreeBaseline.v, GenAgreeCounts.v)",
        core.TRUSTED_BASE_TRANSLATOR])


def replay(path):
    d = json.load(open(path))
    if d["violation"].get("kind") in core.OBLIGATION_KINDS:  # a broken obligation, no input to re-run
        return core.replay_obligations(PID, d)
    case = d["violation"]["case"]
    if case.get("smoothing_stream"):
        fails = smoothing_read_order_fails(case)
        for f in fails:
            print("REPLAY still fails:", json.dumps(core.jsonable(f))[:600])
        if not fails:
            print("REPLAY: no longer fails")
        return 1 if fails else 0
    cu.finish_case(case)
    if case.get("display_leg"):
        io, terms = build_display(case)
        results, _ = core.run_coq_cases(PID, cu.IMPORTS, [t for (_k, t) in terms], tag="replay")
        fails = compare_display(case, io, terms, results)
    elif case.get("subtotals"):
        fails, _ = run_subtotal_case(case)
    else:
        io, terms = build(case)
        results, _ = core.run_coq_cases(PID, cu.IMPORTS, [t for (_k, t) in terms], tag="replay")
        fails = compare(case, io, terms, results)
    for f in fails:
        print("REPLAY still fails:", json.dumps(core.jsonable(f))[:600])
    if not fails:
        print("REPLAY: no longer fails")
    return 1 if fails else 0
