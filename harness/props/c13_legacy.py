# -*- coding: utf-8 -*-
"""C13 - correspondence legs for the models added with the follow-up of the pairwise translator:

  * Model/PairwiseLegacy.v - the rest of measures/pairwise_significance.py: for every test object of
    slice.pairwise_significance_tests (the run WITH display transforms) the column-summary test
    (summary_t_stats as t*|t|, _df, summary_p_vals, summary_pairwise_indices) and the scale-mean test
    (t_stats_scale_means, _two_sample_df, p_vals_scale_means, scale_mean_pairwise_indices) are compared
    with summary_t / summary_df / scale_t / scale_dfs / legacy_where evaluated in Coq on the slice's OWN
    displayed columns_base, table_margin, counts, columns_scale_mean and (private)
    _columns_scale_mean_variance / _rows_dimension_numeric_values - the model follows the code, so the
    open finding C05-scale-mean-pairwise-hidden (statistics from the displayed rows) is not re-reported
    here; p-values with scipy from the model's exact t^2 and df; index tuples from the reported p / t;
    the aggregates summary_pairwise_indices / columns_scale_mean_pairwise_indices are one entry per test
    object, in order.  Applies when columns_base is 1-D (categorical rows) and table_margin is a scalar
    or one value per column; other shapes are counted, not compared.  Where the model's t is infinite (a
    division by an exact zero) only the magnitude is compared: IEEE takes the sign from the signed zero
    divisor, Base/XQ.v does not model signed zeros (counted: infinite_t_sign_not_compared).
  * Model/OverlapBases.v - which planes of cube.overlaps / cube.valid_overlaps feed the overlap test:
    selected_of / valid_of evaluated in Coq on the cube's (public) overlaps / valid_overlaps tensors are
    compared with the (private) cube_overlaps.selected_bases / .valid_bases of the slice and with the
    harness' own respondent-level S / N matrices (c13_util.overlap_bases_from_survey).
Hooks in c13.py: read_impl (impl_run), build_jobs (build_terms), compare (compare).
"""
import math
from fractions import Fraction

import numpy as np
from scipy.stats import t as student_t

from harness import core, impl
from harness.core import g_mat, g_vec, g_nat, g_bool, g_list

IMPORT_LINE = "From CC Require Import Model.CubeCounts Model.PairwiseLegacy Model.OverlapBases."

SUMMARY = ("summary_t_stats", "_df", "summary_p_vals", "summary_pairwise_indices")
SCALE = ("t_stats_scale_means", "_two_sample_df", "p_vals_scale_means", "scale_mean_pairwise_indices")


def _ok(r):
    return r is not None and r[0] == "ok"


def wanted(case):
    """the legacy-statistics legs run on the cases the probe-CDF leg (c13_probe.wanted) does not take: a
    deterministic half (the case number is part of a replay); the overlap-bases leg runs on every overlap case"""
    return case.get("k", 0) % 2 == 1


def read_impl(B, case, dimtypes):
    g = impl.get
    none = ("exc", "NotRead", "")
    if wanted(case):
        out = {"cb": g(B, "columns_base"), "tm": g(B, "table_margin"), "counts": g(B, "counts"),
               "means": g(B, "columns_scale_mean"),
               "var": impl.guarded(lambda: B._columns_scale_mean_variance),
               "nv": impl.guarded(lambda: B._rows_dimension_numeric_values)}
    else:
        out = {k: none for k in ("cb", "tm", "counts", "means", "var", "nv")}

    def tests():
        res = []
        for t in B.pairwise_significance_tests:
            d = {m: impl.guarded(lambda m=m, t=t: getattr(t, m)) for m in SUMMARY + SCALE}
            # the test objects of pairwise_significance_tests carry their OWN alpha / only_larger (the
            # constructor defaults), the slice-level aggregates the slice's
            d["own"] = impl.guarded(lambda t=t: (float(t._alpha), bool(t._only_larger)))
            res.append(d)
        return res

    out["tests"] = impl.guarded(tests) if wanted(case) else none
    out["agg_summary"] = impl.guarded(lambda: [tuple(int(x) for x in c) for c in B.summary_pairwise_indices])
    out["agg_scale"] = impl.guarded(
        lambda: None if B.columns_scale_mean_pairwise_indices is None
        else [tuple(int(x) for x in c) for c in B.columns_scale_mean_pairwise_indices])
    if case["stream"] == "overlap":
        def ov():
            cube = B._cube
            co = B._measures._cube_measures.cube_overlaps
            return {"O": np.asarray(cube.overlaps, dtype=float), "V": np.asarray(cube.valid_overlaps, dtype=float),
                    "sel": np.asarray(co.selected_bases, dtype=float), "val": np.asarray(co.valid_bases, dtype=float),
                    "ndim": int(cube.ndim), "cls": type(co).__name__}
        out["ov"] = impl.guarded(ov)
        out["rows_mr"] = "MR" in str(dimtypes[0]) if dimtypes else False
    return out


def _vec(x):
    return [float(v) for v in np.asarray(x, dtype=float).tolist()]


def build_jobs(case, io):
    L = io.get("LG")
    if not L:
        return []
    jobs = []
    tests = L["tests"][1] if _ok(L["tests"]) else None
    cb = np.asarray(L["cb"][1], dtype=float) if _ok(L["cb"]) and L["cb"][1] is not None else None
    tm = L["tm"][1] if _ok(L["tm"]) else None
    L["summary_on"] = L["scale_on"] = False
    if tests and cb is not None and cb.ndim == 1 and len(cb) == len(tests) and tm is not None:
        tmn = np.asarray(tm, dtype=float)
        nc = len(cb)
        if tmn.ndim == 0:
            tmf = "(fun _ : nat => %s)" % core.g_xq(float(tmn))
        elif tmn.ndim == 1 and len(tmn) == nc:
            tmf = "(vnth %s)" % g_vec(_vec(tmn))
        else:
            tmf = None
        if tmf is not None:
            t = ("let cb := %s in flat_map (fun c => r_vec (summary_t cb %s c) ++ r_vec (summary_df cb c)) (seq 0 %s)"
                 % (g_vec(_vec(cb)), tmf, g_nat(nc)))
            jobs.append(("lg-summary", t, {"n": nc}))
            L["summary_on"] = True
    means = L["means"][1] if _ok(L["means"]) else None
    var = L["var"][1] if _ok(L["var"]) else None
    counts = np.asarray(L["counts"][1], dtype=float) if _ok(L["counts"]) else None
    nv = np.asarray(L["nv"][1], dtype=float) if _ok(L["nv"]) else None
    if (tests and means is not None and var is not None and counts is not None and nv is not None
            and counts.ndim == 2 and nv.ndim == 1 and counts.shape[0] == len(nv) and counts.shape[0] > 0
            and np.ndim(means) == 1 and len(means) == counts.shape[1] == len(tests) and len(var) == len(tests)):
        nr, nc = counts.shape
        t = ("let n := valid_counts %s %s %s in flat_map (fun c => r_vec (scale_t %s %s n c) ++ "
             "r_vec (scale_dfs %s n c)) (seq 0 %s)"
             % (g_vec(_vec(nv)), g_mat(counts.tolist()), g_nat(nr), g_vec(_vec(means)), g_vec(_vec(var)),
                g_nat(nc), g_nat(nc)))
        jobs.append(("lg-scale", t, {"n": nc}))
        L["scale_on"] = True
    # index tuples from the reported p / t: each test object with its own alpha / only_larger, the
    # slice-level aggregates (one entry per displayed column) with the slice's
    A = io["A"]
    av, olv = A.get("alpha_values"), A.get("only_larger")
    slice_par = None
    if _ok(av) and _ok(olv) and isinstance(av[1], (tuple, list)) and len(av[1]) == 2 and isinstance(av[1][0], float):
        slice_par = (av[1][0], bool(olv[1]))
    if tests:
        parts, spec = [], []
        for c, tst in enumerate(tests):
            for what, pm, tmm, sm, agg in (
                    ("summary", "summary_p_vals", "summary_t_stats", "summary_pairwise_indices", "agg_summary"),
                    ("scale", "p_vals_scale_means", "t_stats_scale_means", "scale_mean_pairwise_indices", "agg_scale")):
                if not L["%s_on" % what]:
                    continue
                if not (_ok(tst[pm]) and _ok(tst[tmm]) and _ok(tst[sm])):
                    continue
                p = np.asarray(tst[pm][1], dtype=float)
                tv = np.asarray(tst[tmm][1], dtype=float)
                if p.ndim != 1 or tv.shape != p.shape:
                    continue
                tt = [x * abs(x) if not math.isnan(x) else float("nan") for x in tv.tolist()]
                targets = []
                if _ok(tst.get("own")):
                    targets.append((tst["own"][1], ("test", c, what, sm)))
                a = L.get(agg)
                if slice_par is not None and _ok(a) and a[1] is not None and c < len(a[1]):
                    targets.append((slice_par, ("agg", c, what, agg)))
                for (alpha, ol), tag in targets:
                    if any(abs(x - alpha) <= 1e-9 for x in p.tolist() if not math.isnan(x)):
                        L["near_alpha"] = L.get("near_alpha", 0) + 1
                        continue
                    parts.append("legacy_where %s %s (vnth %s) (vnth %s) %s"
                                 % (core.g_xq(alpha), g_bool(ol), g_vec(p.tolist()), g_vec(tt), g_nat(len(p))))
                    spec.append(tag)
        if parts:
            jobs.append(("lg-sets", "r_list r_nats %s" % g_list(parts), {"spec": spec}))
    # overlap bases
    ov = L.get("ov")
    if _ok(ov):
        o = ov[1]
        O, V = o["O"], o["V"]
        rmr = bool(L.get("rows_mr"))
        want = 5 if rmr else 4
        if O.ndim == want and V.shape == O.shape and o["ndim"] < 3:
            nr, ns = O.shape[0], O.shape[-1]
            sel = O.shape[1] if rmr else O.shape[2]
            shp = g_list([g_nat(int(x)) for x in O.shape])
            t = ("let O := overlap_slice %s false 0 (of_flat %s %s) in let V := overlap_slice %s false 0 (of_flat %s %s) in "
                 "r_list r_mat (bases_mats (selected_of O %s %s %s) %s %s) ++ r_list r_mat (bases_mats (valid_of V %s %s %s) %s %s)"
                 % (g_nat(o["ndim"]), shp, g_vec(O.reshape(-1).tolist()), g_nat(o["ndim"]), shp, g_vec(V.reshape(-1).tolist()),
                    g_nat(nr), g_nat(sel), g_bool(rmr), g_nat(nr), g_nat(ns),
                    g_nat(nr), g_nat(sel), g_bool(rmr), g_nat(nr), g_nat(ns)))
            jobs.append(("lg-overlap", t, {"nr": nr, "ns": ns, "rmr": rmr}))
    return jobs


def _tabs(x):
    x = float(x)
    return x if math.isnan(x) else x * abs(x)


def _expected_p(m, df):
    if m == "nan" or df == "nan":
        return float("nan")
    tv = float("inf") if isinstance(m, str) else math.sqrt(abs(float(m)))
    dfv = float("inf") if df == "inf" else float("-inf") if df == "-inf" else float(df)
    with np.errstate(all="ignore"):
        return float(2 * (1 - student_t.cdf(tv, df=dfv)))


def _close_p(a, b, tol=1e-9):
    a = float(a)
    if math.isnan(a) or math.isnan(b):
        return math.isnan(a) and math.isnan(b)
    return abs(a - b) <= tol


def _cmp_stats(what, names, tests, n, d, io, fails):
    tn, dn, pn = names
    for c in range(n):
        mt, mdf = d.vec(), d.vec()
        tst = tests[c]
        if not (_ok(tst[tn]) and _ok(tst[dn]) and _ok(tst[pn])):
            fails.append(("lg-%s-exception" % what, {"test": c, "t": tst[tn], "df": tst[dn], "p": tst[pn]}))
            return
        T = np.asarray(tst[tn][1], dtype=float)
        D = np.asarray(tst[dn][1], dtype=float)
        P = np.asarray(tst[pn][1], dtype=float)
        if T.shape != (n,) or D.shape != (n,) or P.shape != (n,) or len(mt) != n or len(mdf) != n:
            fails.append(("lg-%s-shape" % what, {"test": c, "t": list(T.shape), "df": list(D.shape), "p": list(P.shape)}))
            return
        for j in range(n):
            io["lg_cells"] = io.get("lg_cells", 0) + 1
            if mt[j] in ("inf", "-inf") and math.isinf(float(T[j])):
                # a division by an exact zero: IEEE gives the infinity the sign of the SIGNED zero divisor
                # (here e.g. sqrt(-0.0) from (n - 1) * 0.0 with n < 1), the model (Base/XQ.v: signed zero is
                # not modelled) the sign of the dividend; only the magnitude is compared, and counted
                io["lg_signed_zero"] = io.get("lg_signed_zero", 0) + 1
            elif not core.close(_tabs(T[j]), mt[j]):
                fails.append(("lg-%s-t" % what, {"test": c, "col": j, "impl_t": float(T[j]), "model_t_abs_t": mt[j]}))
                return
            if not core.close(float(D[j]), mdf[j]):
                fails.append(("lg-%s-df" % what, {"test": c, "col": j, "impl_df": float(D[j]), "model_df": mdf[j]}))
                return
            ep = _expected_p(mt[j], mdf[j])
            if not _close_p(P[j], ep):
                fails.append(("lg-%s-p" % what, {"test": c, "col": j, "impl_p": float(P[j]), "expected_p": ep,
                                                 "model_t_abs_t": mt[j], "df": mdf[j]}))
                return


def compare(kind, d, aux, case, io, fails):
    """handles the job kinds of this module; returns False for any other kind"""
    if not kind.startswith("lg-"):
        return False
    L = io["LG"]
    tests = L["tests"][1] if _ok(L["tests"]) else []
    if kind == "lg-summary":
        _cmp_stats("summary", ("summary_t_stats", "_df", "summary_p_vals"), tests, aux["n"], d, io, fails)
    elif kind == "lg-scale":
        _cmp_stats("scale", ("t_stats_scale_means", "_two_sample_df", "p_vals_scale_means"), tests, aux["n"], d, io, fails)
    elif kind == "lg-sets":
        got = d.list(d.nats)
        for (where, c, what, key), model in zip(aux["spec"], got):
            impl_set = [int(x) for x in (tests[c][key][1] if where == "test" else L[key][1][c])]
            io["lg_sets"] = io.get("lg_sets", 0) + 1
            if impl_set != sorted(model):
                fails.append(("lg-%s-indices" % what, {"of": where, "member": key, "column": c,
                                                       "impl": impl_set, "model": model}))
                return True
    elif kind == "lg-overlap":
        nr = aux["nr"]
        ms = d.list(d.mat)
        mv = d.list(d.mat)
        if len(ms) != nr or len(mv) != nr:
            fails.append(("lg-overlap-shape", {"model_rows": [len(ms), len(mv)], "rows": nr}))
            return True
        o = L["ov"][1]
        for name, model, arr, key in (("selected_bases", ms, o["sel"], "S"), ("valid_bases", mv, o["val"], "N")):
            if arr.shape[0] != nr:
                fails.append(("lg-overlap-shape", {"member": name, "impl": list(arr.shape), "rows": nr}))
                return True
            for r in range(nr):
                io["lg_overlap_mats"] = io.get("lg_overlap_mats", 0) + 1
                if not core.close_mat(arr[r].tolist(), model[r]):
                    fails.append(("lg-overlap-%s" % name, {"row": r, "impl": arr[r].tolist(),
                                                            "model": core.jsonable(model[r]), "class": o["cls"]}))
                    return True
                sn = (case.get("SN") or {}).get(key)
                if sn is not None and r < len(sn):
                    ref = [[float(Fraction(x)) if not isinstance(x, (int, float)) else float(x) for x in row] for row in sn[r]]
                    if not core.close_mat(ref, model[r]):
                        fails.append(("lg-overlap-survey-%s" % name, {"row": r, "survey": ref,
                                                                        "model": core.jsonable(model[r])}))
                        return True
    return True


def distribution(io, rep):
    if io.get("lg_signed_zero"):
        rep.cov["skipped_near_threshold"] += io["lg_signed_zero"]
        rep.dist("legacy_leg:infinite_t_sign_not_compared(signed zero divisor)", io["lg_signed_zero"])
    for k in ("lg_cells", "lg_sets", "lg_overlap_mats"):
        if io.get(k):
            rep.dist("legacy_leg:" + k, io[k])
    L = io.get("LG") or {}
    if L.get("summary_on"):
        rep.dist("legacy_leg:cases_with_summary_test")
    if L.get("scale_on"):
        rep.dist("legacy_leg:cases_with_scale_mean_test")
    if L.get("near_alpha"):
        rep.cov["skipped_near_threshold"] += L["near_alpha"]
        rep.dist("legacy_leg:index_tuples_skipped_near_alpha", L["near_alpha"])
    if L.get("tests") is not None and not _ok(L["tests"]) and L["tests"][1] != "NotRead":
        rep.dist("legacy_leg:tests_unavailable(%s)" % L["tests"][1])
