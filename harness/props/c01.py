# -*- coding: utf-8 -*-
"""C01 - Cell values are faithful tabulations of the survey behind the response.

Obligations: coq/Props/C01.v  (Spec/Survey.v, Model/CubeCounts.v, Proofs/CubeCountsProofs.v).

Correspondence, on random respondent-level surveys (harness/props/cube_util.py):
  (a) Model/CubeCounts.v evaluated inside Coq on the JSON payload (dimensions + flat data)
      vs. the implementation's public outputs: _Slice/_Strand .counts, .unweighted_counts,
      .means/.sums/.stddev/.medians, Cube.counts / unweighted_counts (valid tensor);
  (b) the respondent-level oracle (number of respondents who belong to row AND column
      element, computed from the answers) vs. the same public outputs;
  (c) Spec/Survey.v `tabulate` evaluated inside Coq on the survey literal vs. the payload
      the generator emitted (the two tabulators check each other).
Because Props/C01.v proves model(tabulate S) = respondent-level count, (a)+(c) make every
disagreement a concrete failing input of the property; (b) is the direct search oracle.
"""
import json
import random

import numpy as np

from harness import core, gen, impl
from harness.props import cube_util as cu

PID = "C01"
NUM_PUB = list(cu.NUMERIC_NAMES.values())


def impl_cube_level(case):
    cube_idx = 0 if case.get("ca_as_0th") else None

    def f():
        c = impl.cube(case["response"], cube_idx=cube_idx)
        return {"counts": impl.tolist(c.counts), "unweighted_counts": impl.tolist(c.unweighted_counts)}

    return impl.guarded(f)


def build(case, with_tab):
    io = cu.run_impl(case, cu.SLICE_COUNT_NAMES + NUM_PUB, cu.STRAND_COUNT_NAMES + NUM_PUB)
    io["cube"] = impl_cube_level(case)
    terms = cu.model_terms(case)
    ds = cu.g_dims(case["_axes"])
    pay = cu.g_payload(case["response"])
    terms.append(("valid:counts", "r_valid_tensor %s (cwm_payload %s)" % (ds, pay)))
    terms.append(("valid:unweighted_counts",
                  "r_valid_tensor %s (unweighted_counts_payload %s)" % (ds, pay)))
    if with_tab:
        terms.append(("tabulate", cu.tabulate_term(case)))
    return io, terms


def has_valid_counts(case):
    m = case["response"]["result"]["measures"]
    return "valid_count_unweighted" in m or "valid_count_weighted" in m


def compare(case, io, terms, results):
    fails = []
    if "error" in io:
        return [{"what": "exception", "impl": io["error"][1:]}]
    n_app = len([a for a in case["_axes"] if a["role"] != "mr_sel"])
    parts = io["parts"]
    sv = case["_sv"]
    oracle = cu.Oracle(sv, case["_axes"])
    use_oracle = not has_valid_counts(case)
    for (kind, _t), toks in zip(terms, results):
        if kind == "slices":
            model = cu.dec_cube_slices(toks)
            if len(model) != len(parts):
                fails.append({"what": "n_partitions", "impl": len(parts), "model": len(model)})
                continue
            for k, (mp, ip) in enumerate(zip(model, parts)):
                for name, key in (("counts", "w"), ("unweighted_counts", "u")):
                    r = ip[name]
                    if r[0] != "ok":
                        fails.append({"what": name, "part": k, "impl": r[1:]})
                        continue
                    if mp[key] is None:
                        fails.append({"what": name + ":model-undefined", "part": k})
                        continue
                    d = cu.mat_mismatch(r[1], mp[key]["counts"], name)
                    if d:
                        fails.append(dict(d, part=k, oracle="model"))
                    if use_oracle:
                        weighted = (key == "w") and sv.weighted
                        exp = oracle.slice_cells(k, "in", "in", weighted)
                        d = cu.mat_mismatch(r[1], exp, name)
                        if d:
                            fails.append(dict(d, part=k, oracle="survey"))
        elif kind == "strands":
            model = cu.dec_cube_strands(toks)
            if len(model) != len(parts):
                fails.append({"what": "n_partitions", "impl": len(parts), "model": len(model)})
                continue
            for k, (mp, ip) in enumerate(zip(model, parts)):
                for name, key in (("counts", "w"), ("unweighted_counts", "u")):
                    r = ip[name]
                    if r[0] != "ok":
                        fails.append({"what": name, "part": k, "impl": r[1:]})
                        continue
                    d = cu.mat_mismatch(r[1], mp[key]["counts"], name)
                    if d:
                        fails.append(dict(d, part=k, oracle="model"))
                    if use_oracle:
                        weighted = (key == "w") and sv.weighted
                        exp = oracle.strand_cells(k, "in", weighted, ca0=bool(case.get("ca_as_0th")))
                        d = cu.mat_mismatch(r[1], exp, name)
                        if d:
                            fails.append(dict(d, part=k, oracle="survey"))
        elif kind.startswith("num:"):
            pub = kind[4:]
            model = cu.dec_passthrough(toks)
            for k, (mm, ip) in enumerate(zip(model, parts)):
                r = ip[pub]
                if r[0] != "ok":
                    fails.append({"what": pub, "part": k, "impl": r[1:]})
                    continue
                d = cu.mat_mismatch(r[1], mm, pub)
                if d:
                    fails.append(dict(d, part=k, oracle="model"))
        elif kind.startswith("snum:"):
            pub = kind[5:]
            mv = core.Dec(toks).opt(core.Dec(toks).vec) if False else None
            d0 = core.Dec(toks)
            mv = d0.opt(d0.vec)
            r = parts[0][pub]
            if r[0] != "ok":
                fails.append({"what": pub, "impl": r[1:]})
            else:
                d = cu.mat_mismatch(r[1], mv, pub)
                if d:
                    fails.append(dict(d, oracle="model"))
        elif kind.startswith("valid:"):
            name = kind[6:]
            mv = core.Dec(toks).vec()
            r = io["cube"]
            if r[0] != "ok":
                fails.append({"what": "Cube." + name, "impl": r[1:]})
            else:
                flat = np.asarray(r[1][name], dtype=float).flatten().tolist()
                if not core.close_vec(flat, mv):
                    fails.append({"what": "Cube." + name, "impl": flat, "model": mv})
        elif kind == "tabulate":
            mv = core.Dec(toks).vec()
            exp = cu.natural_weighted_tensor(case)
            if mv != exp:
                fails.append({"what": "tabulate(Coq Spec) vs generator payload", "coq": mv,
                              "python": exp, "no_impl": True})
    # numeric measures that the response does not carry must raise ValueError, not invent values
    meas = case["response"]["result"]["measures"]
    for m, pub in cu.NUMERIC_NAMES.items():
        if m not in meas:
            for k, ip in enumerate(parts):
                if pub in ip and ip[pub][0] == "ok" and ip[pub][1] is not None:
                    fails.append({"what": pub + ":absent-measure-has-value", "part": k})
    return fails


def nontrivial(case):
    sv = case["_sv"]
    return len(sv.resp) > 0


def describe(rep, case):
    rep.dist("class=" + cu.class_pair(case))
    sv = case["_sv"]
    rep.dist("weighted" if sv.weighted else "unweighted")
    ap = [a for a in case["_axes"] if a["role"] != "mr_sel"]
    rep.dist("ndim=%d" % len(ap))
    mid = any(any(m and not all(a["missing"][n:]) for n, m in enumerate(a["missing"]))
              for a in ap)
    rep.dist("missing_before_valid" if mid else "missing_last_or_none")
    if case["perm"] is not None:
        rep.dist("permuted_axes")
    if has_valid_counts(case):
        rep.dist("valid_counts")
    if case["numvar"]:
        rep.dist("numeric_measures")
    if any(w["w"] != "1" and "/" in w["w"] for w in case["survey"]["resp"]):
        rep.dist("fractional_weights")
    if any(w["w"] == "0" for w in case["survey"]["resp"]):
        rep.dist("zero_weights")


def run(tier, seed):
    rep = core.Report(PID, tier, seed)
    ob = core.obligations_gate(rep, PID)
    n_cases = 260 if tier == "quick" else 4000
    rng = random.Random(seed)
    cases, ios, allterms, flat = [], [], [], []
    for k in range(n_cases):
        case = cu.gen_case(rng, k)
        with_tab = case["perm"] is None and (k % 3 == 0) and len(case["_sv"].resp) <= 25
        io, terms = build(case, with_tab)
        cases.append(case)
        ios.append(io)
        allterms.append(terms)
        flat.extend(t for (_k, t) in terms)
    results, coq_s = core.run_coq_cases(PID, cu.IMPORTS, flat, shard=60) if flat else ([], 0.0)
    pos = 0
    for case, io, terms in zip(cases, ios, allterms):
        res = results[pos:pos + len(terms)]
        pos += len(terms)
        rep.count_case(cu.replayable(case), nontrivial(case))
        describe(rep, case)
        if nontrivial(case):
            rep.sample({"class": cu.class_pair(case), "aliases": case["aliases"],
                        "perm": case["perm"], "n_resp": len(case["_sv"].resp),
                        "measures": case["measures"]})
        for f in compare(case, io, terms, res):
            ctx = {"what": f.get("what"), "class": cu.class_pair(case)}
            rep.violation("impl-vs-model" if f.get("oracle") != "survey" else "impl-vs-survey",
                          cu.replayable(case), f, ctx, failing_input=not f.get("no_impl"))
    rep.cov["rule"] = (
        "cases from random.Random(seed): surveys of 0..30 respondents (dyadic weights incl. 0, or "
        "unweighted) over 1-3 variables of kind cat / cat_date / mr (per-item sel|other|missing) / "
        "ca / datetime / text / binned enum; missing categories anywhere in the payload; response "
        "dimensions in natural or permuted order (reaching the Cat/Mr/Arr class pairs), 1-D strands, "
        "CA-as-0th strands, 2-D and 3-D; optional mean/sum/stddev/median with unavailable cells and "
        "valid-count measures. non-trivial = at least one respondent; distinct by content hash")
    rep.cov["coq_eval_seconds"] = round(coq_s, 2)
    rep.cov["model_terms_evaluated"] = len(flat)
    rep.assumptions = [
        "the survey-level theorems cover categorical (incl. enum) and MR dimensions; class pairs with a "
        "categorical-array dimension are covered by model-vs-implementation and the survey oracle only",
        "numeric arrays are not generated",
        "float64 vs exact rationals: relative tolerance 1e-9",
    ]
    return rep.finish("proof", ob, trusted_base=core.TRUSTED_BASE_COMMON + [
        "Model/CubeCounts.v is hand-written; tied to cube.py by this correspondence run only; its extractors "
        "(counts of the nine class pairs through the factory dict, type strings, _slice_idx_expr, factory "
        "arguments, pass-through measure classes, stripe counts + stripe factory) are ALSO tied to the text of "
        "matrix/cubemeasure.py and stripe/cubemeasure.py by the C01_gen_* obligations (Proofs/GenAgreeCounts.v)",
        core.TRUSTED_BASE_TRANSLATOR,
        "Spec/Survey.v tabulate is validated against harness.gen.tabulate on every third natural-order case"])


def replay(path):
    d = json.load(open(path))
    if d["violation"].get("kind") in core.OBLIGATION_KINDS:  # a broken obligation, no input to re-run
        return core.replay_obligations(PID, d)
    case = d["violation"]["case"]
    cu.finish_case(case)
    io, terms = build(case, case["perm"] is None)
    results, _ = core.run_coq_cases(PID, cu.IMPORTS, [t for (_k, t) in terms], tag="replay")
    fails = compare(case, io, terms, results)
    for f in fails:
        print("REPLAY still fails:", json.dumps(core.jsonable(f))[:600])
    if not fails:
        print("REPLAY: no longer fails")
    return 1 if fails else 0
